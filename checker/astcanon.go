package main

// Canonical, type-resolved printing of statements and expressions, used to compare a fork
// function with its reference counterpart (E1 statement embedding) and package-level
// declarations. Identifiers are printed by what they resolve to, never by spelling alone:
//   package-level object  -> normalised qualified name (fork and reference paths coincide)
//   field / method        -> .name
//   parameter / result    -> by name (signatures are compared separately)
//   other local           -> "§" in match mode (alpha-equivalence is checked afterwards by a
//                            bijection test), its name otherwise
// Arguments and parameters of type context.Context are dropped.

import (
	"fmt"
	"go/ast"
	"go/constant"
	"go/token"
	"go/types"
	"strings"
)

type astCanon struct {
	info      *types.Info
	alpha     bool                            // print locals as placeholders
	locals    *[]types.Object                 // when non-nil: local objects in print order
	stripZero func(e *ast.BinaryExpr) ast.Expr // optional: fork-zero term stripping (returns replacement or nil)
	skipElt   func(lit *ast.CompositeLit, elt ast.Expr) bool // optional: omit a composite-literal element (fork-only key)
	skipField func(name string) bool                   // optional: omit a field of a function-local struct type
	subst     map[types.Object]string                  // optional: print these locals as the given text (helper parameters bound to the caller's arguments)
}

func (c *astCanon) obj(id *ast.Ident) types.Object {
	if o := c.info.Uses[id]; o != nil {
		return o
	}
	return c.info.Defs[id]
}

func isPkgLevel(o types.Object) bool {
	if o == nil || o.Pkg() == nil {
		return o != nil && o.Parent() == types.Universe
	}
	return o.Parent() == o.Pkg().Scope()
}

func (c *astCanon) ident(id *ast.Ident) string {
	if id.Name == "_" {
		return "_"
	}
	o := c.obj(id)
	switch o := o.(type) {
	case nil:
		return id.Name
	case *types.PkgName:
		return "pkg(" + normPath(o.Imported().Path()) + ")"
	case *types.Var:
		if o.IsField() {
			return "." + o.Name()
		}
		if isPkgLevel(o) {
			return normPath(o.Pkg().Path()) + "." + o.Name()
		}
		if s, ok := c.subst[o]; ok {
			return s
		}
		if x, ok := ptrTempExpr[o]; ok && c.info.Defs[id] == nil {
			return c.expr(x)
		}
		if x, ok := inlineArg[o]; ok && c.info.Defs[id] == nil {
			return c.expr(x)
		}
		if x, ok := valTempExpr[o]; ok && c.info.Defs[id] == nil {
			if _, isBin := ast.Unparen(x).(*ast.BinaryExpr); isBin {
				return "(" + c.expr(x) + ")"
			}
			return c.expr(x)
		}
		if isCtxType(o.Type()) {
			return "ctx"
		}
		if c.locals != nil {
			*c.locals = append(*c.locals, o)
		}
		if c.alpha {
			return "§"
		}
		return o.Name()
	case *types.Func:
		if sig, ok := o.Type().(*types.Signature); ok && sig.Recv() != nil {
			return "." + o.Name()
		}
		if o.Pkg() != nil {
			return normPath(o.Pkg().Path()) + "." + o.Name()
		}
		return o.Name()
	case *types.Const, *types.TypeName:
		if o.Pkg() != nil && isPkgLevel(o) {
			return normPath(o.Pkg().Path()) + "." + o.Name()
		}
		if k, ok := o.(*types.Const); ok && !isPkgLevel(o) {
			return "const(" + k.Val().ExactString() + ")"
		}
		return o.Name()
	case *types.Builtin, *types.Nil:
		return o.Name()
	case *types.Label:
		return "label:" + o.Name()
	}
	return id.Name
}

func (c *astCanon) exprs(es []ast.Expr) string {
	var out []string
	for _, e := range es {
		out = append(out, c.operand(e))
	}
	return strings.Join(out, ", ")
}

// operand prints an expression in a position where no parentheses are needed (a list element, a call
// argument, a keyed value): a value temporary defined by a binary expression prints bare there.
func (c *astCanon) operand(e ast.Expr) string {
	if id, ok := e.(*ast.Ident); ok && c.info.Defs[id] == nil {
		if o, ok := c.obj(id).(*types.Var); ok && !o.IsField() && !isPkgLevel(o) && c.subst[o] == "" {
			if x, ok := valTempExpr[o]; ok {
				if _, isBin := ast.Unparen(x).(*ast.BinaryExpr); isBin {
					return c.expr(ast.Unparen(x))
				}
			}
		}
	}
	return c.expr(e)
}

func (c *astCanon) isCtxExpr(e ast.Expr) bool {
	if tv, ok := c.info.Types[e]; ok && tv.Type != nil {
		return isCtxType(tv.Type)
	}
	return false
}

func (c *astCanon) fieldList(fl *ast.FieldList) string {
	if fl == nil {
		return ""
	}
	var out []string
	for _, f := range fl.List {
		if tv, ok := c.info.Types[f.Type]; ok && isCtxType(tv.Type) {
			continue
		}
		t := c.expr(f.Type)
		if len(f.Names) == 0 {
			out = append(out, t)
		}
		for _, n := range f.Names {
			out = append(out, c.ident(n)+" "+t)
		}
	}
	return strings.Join(out, ", ")
}

func (c *astCanon) expr(e ast.Expr) string {
	switch x := e.(type) {
	case nil:
		return ""
	case *ast.Ident:
		return c.ident(x)
	case *ast.BasicLit:
		if tv, ok := c.info.Types[x]; ok && tv.Value != nil {
			if tv.Value.Kind() == constant.String {
				return tv.Value.ExactString()
			}
			return tv.Value.ExactString()
		}
		return x.Value
	case *ast.ParenExpr:
		return "(" + c.expr(x.X) + ")"
	case *ast.SelectorExpr:
		// qualified identifier: print what it resolves to
		if id, ok := x.X.(*ast.Ident); ok {
			if _, isPkg := c.obj(id).(*types.PkgName); isPkg {
				return c.ident(x.Sel)
			}
		}
		return c.expr(x.X) + c.selName(x)
	case *ast.IndexExpr:
		return c.expr(x.X) + "[" + c.expr(x.Index) + "]"
	case *ast.IndexListExpr:
		return c.expr(x.X) + "[" + c.exprs(x.Indices) + "]"
	case *ast.SliceExpr:
		s := c.expr(x.X) + "[" + c.expr(x.Low) + ":" + c.expr(x.High)
		if x.Slice3 {
			s += ":" + c.expr(x.Max)
		}
		return s + "]"
	case *ast.TypeAssertExpr:
		if x.Type == nil {
			return c.expr(x.X) + ".(type)"
		}
		return c.expr(x.X) + ".(" + c.expr(x.Type) + ")"
	case *ast.CallExpr:
		var args []string
		for _, a := range x.Args {
			if c.isCtxExpr(a) {
				continue
			}
			args = append(args, c.operand(a))
		}
		s := c.expr(x.Fun) + "(" + strings.Join(args, ", ")
		if x.Ellipsis.IsValid() {
			s += "..."
		}
		return s + ")"
	case *ast.StarExpr:
		return "*" + c.expr(x.X)
	case *ast.UnaryExpr:
		return x.Op.String() + c.expr(x.X)
	case *ast.BinaryExpr:
		if c.stripZero != nil {
			if r := c.stripZero(x); r != nil {
				return c.expr(r)
			}
		}
		return c.expr(x.X) + " " + x.Op.String() + " " + c.expr(x.Y)
	case *ast.KeyValueExpr:
		return c.expr(x.Key) + ": " + c.operand(x.Value)
	case *ast.CompositeLit:
		elts := x.Elts
		if c.skipElt != nil {
			elts = nil
			for _, el := range x.Elts {
				if !c.skipElt(x, el) {
					elts = append(elts, el)
				}
			}
		}
		return c.expr(x.Type) + "{" + c.exprs(elts) + "}"
	case *ast.FuncLit:
		return "func(" + c.fieldList(x.Type.Params) + ")(" + c.fieldList(x.Type.Results) + ")" + c.block(x.Body.List)
	case *ast.ArrayType:
		return "[" + c.expr(x.Len) + "]" + c.expr(x.Elt)
	case *ast.MapType:
		return "map[" + c.expr(x.Key) + "]" + c.expr(x.Value)
	case *ast.ChanType:
		return fmt.Sprintf("chan%d ", x.Dir) + c.expr(x.Value)
	case *ast.FuncType:
		return "func(" + c.fieldList(x.Params) + ")(" + c.fieldList(x.Results) + ")"
	case *ast.InterfaceType:
		return "interface{" + c.fieldList(x.Methods) + "}"
	case *ast.StructType:
		var fs []string
		for _, f := range x.Fields.List {
			tag := ""
			if f.Tag != nil {
				tag = " " + f.Tag.Value
			}
			if len(f.Names) == 0 {
				fs = append(fs, c.expr(f.Type)+tag)
			}
			for _, n := range f.Names {
				if c.skipField != nil && c.skipField(n.Name) {
					continue
				}
				fs = append(fs, n.Name+" "+c.expr(f.Type)+tag)
			}
		}
		return "struct{" + strings.Join(fs, "; ") + "}"
	case *ast.Ellipsis:
		return "..." + c.expr(x.Elt)
	}
	return fmt.Sprintf("<%T>", e)
}

func (c *astCanon) selName(x *ast.SelectorExpr) string {
	if sel, ok := c.info.Selections[x]; ok {
		return "." + sel.Obj().Name()
	}
	return "." + x.Sel.Name
}

func (c *astCanon) block(list []ast.Stmt) string {
	var out []string
	for _, s := range list {
		out = append(out, c.stmt(s))
	}
	return "{" + strings.Join(out, "; ") + "}"
}

// stmt prints a complete statement including nested bodies.
func (c *astCanon) stmt(s ast.Stmt) string {
	h, bodies := c.header(s)
	if bodies == nil {
		return h
	}
	for _, b := range bodies {
		h += c.block(b)
	}
	return h
}

// header prints a simple statement completely; for a compound statement it prints the header
// and returns the nested statement lists (in a fixed order).
func (c *astCanon) header(s ast.Stmt) (string, [][]ast.Stmt) {
	switch x := s.(type) {
	case nil:
		return "", nil
	case *ast.ExprStmt:
		return c.expr(x.X), nil
	case *ast.AssignStmt:
		op := x.Tok.String()
		if x.Tok == token.DEFINE {
			op = "="
		}
		return c.exprs(x.Lhs) + " " + op + " " + c.exprs(x.Rhs), nil
	case *ast.IncDecStmt:
		return c.expr(x.X) + x.Tok.String(), nil
	case *ast.ReturnStmt:
		return "return " + c.exprs(x.Results), nil
	case *ast.BranchStmt:
		l := ""
		if x.Label != nil {
			l = " " + x.Label.Name
		}
		return x.Tok.String() + l, nil
	case *ast.DeclStmt:
		gd := x.Decl.(*ast.GenDecl)
		var out []string
		for _, sp := range gd.Specs {
			switch sp := sp.(type) {
			case *ast.ValueSpec:
				var names []string
				for _, n := range sp.Names {
					names = append(names, c.ident(n))
				}
				if len(sp.Values) > 0 {
					out = append(out, strings.Join(names, ", ")+" = "+c.exprs(sp.Values))
				} else {
					out = append(out, "var "+strings.Join(names, ", ")+" "+c.expr(sp.Type))
				}
			case *ast.TypeSpec:
				out = append(out, "type "+sp.Name.Name+" "+c.expr(sp.Type))
			}
		}
		return strings.Join(out, "; "), nil
	case *ast.GoStmt:
		return "go " + c.expr(x.Call), nil
	case *ast.SendStmt:
		return c.expr(x.Chan) + " <- " + c.expr(x.Value), nil
	case *ast.EmptyStmt:
		return "", nil
	case *ast.LabeledStmt:
		h, b := c.header(x.Stmt)
		return x.Label.Name + ": " + h, b
	case *ast.DeferStmt:
		if fl, ok := x.Call.Fun.(*ast.FuncLit); ok {
			var args []string
			for _, a := range x.Call.Args {
				args = append(args, c.operand(a))
			}
			return "defer func(" + c.fieldList(fl.Type.Params) + ")<-(" + strings.Join(args, ", ") + ")", [][]ast.Stmt{fl.Body.List}
		}
		return "defer " + c.expr(x.Call), nil
	case *ast.BlockStmt:
		return "{}", [][]ast.Stmt{x.List}
	case *ast.IfStmt:
		h := "if "
		if x.Init != nil {
			ih, _ := c.header(x.Init)
			h += ih + "; "
		}
		h += c.expr(x.Cond)
		bodies := [][]ast.Stmt{x.Body.List}
		switch e := x.Else.(type) {
		case nil:
			bodies = append(bodies, []ast.Stmt{})
		case *ast.BlockStmt:
			bodies = append(bodies, e.List)
		default:
			bodies = append(bodies, []ast.Stmt{e})
		}
		return h, bodies
	case *ast.ForStmt:
		ih, _ := c.header(x.Init)
		ph, _ := c.header(x.Post)
		return "for " + ih + "; " + c.expr(x.Cond) + "; " + ph, [][]ast.Stmt{x.Body.List}
	case *ast.RangeStmt:
		return "range " + c.expr(x.Key) + ", " + c.expr(x.Value) + " = " + c.expr(x.X), [][]ast.Stmt{x.Body.List}
	case *ast.SwitchStmt:
		h := "switch "
		if x.Init != nil {
			ih, _ := c.header(x.Init)
			h += ih + "; "
		}
		h += c.expr(x.Tag)
		var bodies [][]ast.Stmt
		for _, cl := range x.Body.List {
			cc := cl.(*ast.CaseClause)
			h += " |case " + c.exprs(cc.List)
			bodies = append(bodies, cc.Body)
		}
		return h, bodies
	case *ast.TypeSwitchStmt:
		h := "typeswitch "
		if x.Init != nil {
			ih, _ := c.header(x.Init)
			h += ih + "; "
		}
		ah, _ := c.header(x.Assign)
		h += ah
		var bodies [][]ast.Stmt
		for _, cl := range x.Body.List {
			cc := cl.(*ast.CaseClause)
			h += " |case " + c.exprs(cc.List)
			bodies = append(bodies, cc.Body)
		}
		return h, bodies
	case *ast.SelectStmt:
		h := "select"
		var bodies [][]ast.Stmt
		for _, cl := range x.Body.List {
			cc := cl.(*ast.CommClause)
			ch, _ := c.header(cc.Comm)
			h += " |comm " + ch
			bodies = append(bodies, cc.Body)
		}
		return h, bodies
	}
	return fmt.Sprintf("<%T>", s), nil
}

// ptrTempExpr: locals `p := &X` of DELTA functions that only name the location X (see ptrTemps); a use
// of p prints as X, so that `p.f = v` and `X.f = v` are the same statement (Go dereferences p.f implicitly).
var ptrTempExpr = map[types.Object]ast.Expr{}

// ptrTemps registers the pointer temporaries of one function: p is defined once by `p := &X`, never
// re-assigned and its own address never taken; X is a path of identifiers, field selections and indexings
// whose indices are call-free except for len(); and after the definition nothing in the function can move
// X: no assignment to a prefix of X or to a path X's indices read, and no call that is handed the root
// variable of X (as receiver or argument).
func ptrTemps(info *types.Info, fd *ast.FuncDecl) {
	if fd == nil || fd.Body == nil {
		return
	}
	plain := &astCanon{info: info}
	type cand struct {
		def   *ast.AssignStmt
		x     ast.Expr
		paths map[string]bool
		roots map[types.Object]bool
	}
	cands := map[types.Object]*cand{}
	var isPath func(e ast.Expr, c *cand, index bool) bool
	isPath = func(e ast.Expr, c *cand, index bool) bool {
		switch x := ast.Unparen(e).(type) {
		case *ast.Ident:
			if o, ok := info.Uses[x].(*types.Var); ok && !isPkgLevel(o) {
				c.roots[o] = true
				c.paths[plain.expr(x)] = true
				return true
			}
			_, isConst := info.Uses[x].(*types.Const)
			return isConst && index
		case *ast.SelectorExpr:
			if _, ok := info.Selections[x]; !ok {
				return false
			}
			c.paths[plain.expr(x)] = true
			return isPath(x.X, c, index)
		case *ast.IndexExpr:
			c.paths[plain.expr(x)] = true
			return isPath(x.X, c, index) && isPath(x.Index, c, true)
		case *ast.BasicLit:
			return index
		case *ast.BinaryExpr:
			return index && (x.Op == token.ADD || x.Op == token.SUB) && isPath(x.X, c, true) && isPath(x.Y, c, true)
		case *ast.CallExpr:
			if id, ok := x.Fun.(*ast.Ident); ok && index && len(x.Args) == 1 {
				if b, ok := info.Uses[id].(*types.Builtin); ok && b.Name() == "len" {
					return isPath(x.Args[0], c, true)
				}
			}
		}
		return false
	}
	ast.Inspect(fd.Body, func(n ast.Node) bool {
		as, ok := n.(*ast.AssignStmt)
		if !ok || as.Tok != token.DEFINE || len(as.Lhs) != 1 || len(as.Rhs) != 1 {
			return true
		}
		id, ok := as.Lhs[0].(*ast.Ident)
		u, ok2 := ast.Unparen(as.Rhs[0]).(*ast.UnaryExpr)
		if !ok || !ok2 || u.Op != token.AND || info.Defs[id] == nil {
			return true
		}
		c := &cand{def: as, x: u.X, paths: map[string]bool{}, roots: map[types.Object]bool{}}
		if _, isLit := ast.Unparen(u.X).(*ast.CompositeLit); !isLit && isPath(u.X, c, false) {
			cands[info.Defs[id]] = c
		}
		return true
	})
	if len(cands) == 0 {
		return
	}
	mentionsRoot := func(e ast.Expr, c *cand) bool {
		found := false
		ast.Inspect(e, func(n ast.Node) bool {
			if id, ok := n.(*ast.Ident); ok && c.roots[info.Uses[id]] {
				found = true
			}
			return !found
		})
		return found
	}
	ast.Inspect(fd.Body, func(n ast.Node) bool {
		switch x := n.(type) {
		case *ast.AssignStmt:
			for _, l := range x.Lhs {
				if id, ok := l.(*ast.Ident); ok {
					if c := cands[info.Uses[id]]; c != nil && x != c.def {
						delete(cands, info.Uses[id])
					}
				}
				for o, c := range cands {
					if x.Pos() > c.def.Pos() && c.paths[plain.expr(l)] {
						delete(cands, o)
					}
				}
			}
		case *ast.IncDecStmt:
			for o, c := range cands {
				if id, ok := x.X.(*ast.Ident); ok && info.Uses[id] == o {
					delete(cands, o)
				} else if x.Pos() > c.def.Pos() && c.paths[plain.expr(x.X)] {
					delete(cands, o)
				}
			}
		case *ast.RangeStmt:
			for o, c := range cands {
				for _, kv := range []ast.Expr{x.Key, x.Value} {
					if kv != nil && x.Pos() > c.def.Pos() && c.paths[plain.expr(kv)] {
						delete(cands, o)
					}
				}
			}
		case *ast.UnaryExpr:
			if id, ok := ast.Unparen(x.X).(*ast.Ident); ok && x.Op == token.AND {
				delete(cands, info.Uses[id])
			}
		case *ast.CallExpr:
			if tv, ok := info.Types[x.Fun]; ok && tv.IsType() {
				return true
			}
			if id, ok := x.Fun.(*ast.Ident); ok {
				if _, isB := info.Uses[id].(*types.Builtin); isB {
					return true
				}
			}
			for o, c := range cands {
				if x.Pos() < c.def.Pos() {
					continue
				}
				bad := false
				if sel, ok := x.Fun.(*ast.SelectorExpr); ok {
					if _, isMethod := info.Selections[sel]; isMethod && mentionsRoot(sel.X, c) {
						bad = true
					}
				}
				for _, a := range x.Args {
					if mentionsRoot(a, c) {
						bad = true
					}
				}
				if bad {
					delete(cands, o)
				}
			}
		}
		return true
	})
	for o, c := range cands {
		ptrTempExpr[o] = c.x
	}
}
