package main

// E1 (part 3): classification of the fork's insertions into a DELTA function. An insertion is
// admissible when, in an execution without Aspect state (all fork-only fields zero/empty), it
// cannot change anything the reference computes. The decision is made on resolved objects
// (go/types), never on spelling.

import (
	"fmt"
	"go/ast"
	"go/constant"
	"go/token"
	"go/types"
	"sort"
	"strings"

	"golang.org/x/tools/go/types/typeutil"
)

// tracerFamily: the fork-only recorder types; their methods' own effects are bounded by R1.4a (E4).
var tracerFamily = map[string]bool{"Tracer": true, "CallTree": true, "StateChanges": true, "StorageKey": true, "StorageChanges": true, "Call": true}

// pureCallees: reviewed side-effect-free callees that insertions may use (qualified, normalised).
// One line of reason each.
var pureCallees = map[string]string{
	"(P0.ContractRef).Address":                                 "interface getter; CLONE implementations return a field",
	"(*P0.EVM).Tracer":                                         "NEW getter: returns evm.tracer",
	"(*P0.Tracer).CallTree":                                    "NEW getter",
	"(*P0.CallTree).Current":                                   "NEW getter",
	"P0.NewTracer":                                             "NEW constructor: allocates only (checked by R16.4)",
	"P0.makeGasJournal":                                        "NEW: returns a closure, no effects (R12.3 checks the closure)",
	"P0.minStack":                                              "CLONE arithmetic helper",
	"P0.maxStack":                                              "CLONE arithmetic helper",
	"github.com/holiman/uint256.MustFromBig":                   "allocates; panics only on values >= 2^256 (panic-site table R3.3)",
	"github.com/holiman/uint256.NewInt":                        "allocates",
	"(*math/big.Int).Uint64":                                   "pure read",
	"(*math/big.Int).Bytes":                                    "pure read",
	"(*math/big.Int).Sign":                                     "pure read",
	"(github.com/ethereum/go-ethereum/common.Address).Bytes":   "pure read",
	"(error).Error":                                            "pure read",
	"github.com/artela-network/aspect-core/djpm.AspectInstance": "returns the process-wide Aspect singleton (host precondition: initialised)",
}

type effect struct {
	kind string // write-ref, write-fork, call-pure, call-tracer, call-jp, call-other, return, branch-out, defer, go, panic
	what string
	pos  token.Pos
}

type insAnalyzer struct {
	w        *World
	info     *types.Info
	fo       *ForkOnly
	fkLocals map[types.Object]bool
	recvOnly map[string]bool
	// zeroLocals: locals defined once from a fork-zero-valued expression and never re-assigned: they hold
	// the zero value whenever no Aspect state exists
	zeroLocals map[types.Object]bool
	// deadResults: named results that no inherited statement mentions, in a function whose returns all list
	// their operands: what is stored in them is never observed (set by e1)
	deadResults map[types.Object]bool
	// zsKnown: variables holding a known zero/nil right after a ZERO_STATE_NOOP assignment (position of that
	// assignment and the run of insertions it belongs to)
	zsKnown map[types.Object]zsFact
	// zsZeroWrite: assignment statements that (at zero state) store the constant 0 into the listed locals
	zsZeroWrite map[ast.Stmt]map[types.Object]bool
	curRun      string
}

type zsFact struct {
	run string
	pos token.Pos
	val zsVal
}

func (a *insAnalyzer) calleeName(call *ast.CallExpr) (string, types.Object) {
	o := typeutil.Callee(a.info, call)
	if o == nil {
		return "", nil
	}
	switch f := o.(type) {
	case *types.Func:
		return normPath(f.FullName()), o
	case *types.Builtin:
		return "builtin." + f.Name(), o
	case *types.Var:
		return "funcvalue:" + f.Name(), o
	}
	return o.Name(), o
}

func recvTypeName(f *types.Func) (string, *types.Package) {
	sig, ok := f.Type().(*types.Signature)
	if !ok || sig.Recv() == nil {
		return "", nil
	}
	t := sig.Recv().Type()
	if p, ok := t.(*types.Pointer); ok {
		t = p.Elem()
	}
	if nt, ok := t.(*types.Named); ok {
		return nt.Obj().Name(), nt.Obj().Pkg()
	}
	return "", nil
}

// chainHasForkOnlyField: does the access path of e go through a fork-only field?
func (a *insAnalyzer) chainHasForkOnlyField(e ast.Expr) bool {
	for {
		switch x := e.(type) {
		case *ast.ParenExpr:
			e = x.X
		case *ast.StarExpr:
			e = x.X
		case *ast.IndexExpr:
			e = x.X
		case *ast.SliceExpr:
			e = x.X
		case *ast.UnaryExpr:
			e = x.X
		case *ast.SelectorExpr:
			if sel, ok := a.info.Selections[x]; ok {
				if v, ok := sel.Obj().(*types.Var); ok {
					if a.fo.Fields[v] {
						return true
					}
					// field of a function-local mirror struct named like a fork-only field of the receiver
					if a.recvOnly[v.Name()] && !isPkgLevel(namedOwner(sel.Recv())) {
						return true
					}
				}
			}
			e = x.X
		default:
			return false
		}
	}
}

func namedOwner(t types.Type) types.Object {
	if p, ok := t.(*types.Pointer); ok {
		t = p.Elem()
	}
	if nt, ok := t.(*types.Named); ok {
		return nt.Obj()
	}
	return nil
}

func rootIdent(e ast.Expr) *ast.Ident {
	for {
		switch x := e.(type) {
		case *ast.ParenExpr:
			e = x.X
		case *ast.StarExpr:
			e = x.X
		case *ast.IndexExpr:
			e = x.X
		case *ast.SliceExpr:
			e = x.X
		case *ast.SelectorExpr:
			e = x.X
		case *ast.Ident:
			return x
		default:
			return nil
		}
	}
}

// effects collects the effects of a statement subtree. own = locals declared inside it.
func (a *insAnalyzer) effects(n ast.Node) []effect {
	var out []effect
	own := declaredLocals(a.info, n)
	isForkLocal := func(o types.Object) bool { return o != nil && (own[o] || a.fkLocals[o]) }
	write := func(lhs ast.Expr) {
		lhs = ast.Unparen(lhs)
		if id, ok := lhs.(*ast.Ident); ok {
			if id.Name == "_" {
				return
			}
			o := a.info.Uses[id]
			if o == nil {
				o = a.info.Defs[id]
			}
			if isForkLocal(o) {
				out = append(out, effect{"write-fork", "local " + id.Name, id.Pos()})
				return
			}
			out = append(out, effect{"write-ref", "variable " + id.Name, id.Pos()})
			return
		}
		if a.chainHasForkOnlyField(lhs) {
			out = append(out, effect{"write-fork", "fork-only field path", lhs.Pos()})
			return
		}
		c := &astCanon{info: a.info}
		out = append(out, effect{"write-ref", c.expr(lhs), lhs.Pos()})
	}
	loopDepth := 0
	var walk func(n ast.Node)
	walkList := func(l []ast.Stmt) {
		for _, s := range l {
			walk(s)
		}
	}
	tempBusy := map[*ast.Ident]bool{}
	var walkExpr func(e ast.Expr)
	walkExpr = func(e ast.Expr) {
		ast.Inspect(e, func(x ast.Node) bool {
			switch x := x.(type) {
			case *ast.Ident:
				// a value temporary stands for its defining expression (valtemps.go)
				if te, ok := valTempExpr[a.info.Uses[x]]; ok && !tempBusy[x] {
					tempBusy[x] = true
					walkExpr(te)
					delete(tempBusy, x)
				}
			case *ast.FuncLit:
				// a closure value: its body's effects happen when called; analyse as part of the insertion
				save := loopDepth
				loopDepth = 0
				walkList(x.Body.List)
				loopDepth = save
				return false
			case *ast.CallExpr:
				if tv, ok := a.info.Types[x.Fun]; ok && tv.IsType() {
					return true // conversion
				}
				if _, isLit := ast.Unparen(x.Fun).(*ast.FuncLit); isLit {
					return true // immediately applied closure: its body is walked as part of the insertion
				}
				name, o := a.calleeName(x)
				switch f := o.(type) {
				case *types.Builtin:
					switch f.Name() {
					case "len", "cap", "make", "new", "min", "max":
					case "append":
						// value semantics; the store is judged at the assignment
					case "panic":
						out = append(out, effect{"panic", "panic", x.Pos()})
					case "copy", "delete", "clear":
						if len(x.Args) > 0 && !a.chainHasForkOnlyField(x.Args[0]) {
							if id := rootIdent(x.Args[0]); id == nil || !isForkLocal(a.info.Uses[id]) {
								out = append(out, effect{"write-ref", f.Name() + " into " + (&astCanon{info: a.info}).expr(x.Args[0]), x.Pos()})
							}
						}
					default:
						out = append(out, effect{"call-other", name, x.Pos()})
					}
				case *types.Func:
					rt, rpkg := recvTypeName(f)
					switch {
					case pureCallees[name] != "":
						out = append(out, effect{"call-pure", name, x.Pos()})
					case rt != "" && rpkg != nil && rpkg.Path() == forkPath(pkVM) && tracerFamily[rt]:
						out = append(out, effect{"call-tracer", name, x.Pos()})
					case strings.HasSuffix(name, ".PreContractCall") || strings.HasSuffix(name, ".PostContractCall"):
						out = append(out, effect{"call-jp", name, x.Pos()})
					default:
						if a.zeroStateSilent(f, x) {
							// a fork helper whose one feasible path without Aspect state has no effect (zsum.go)
							out = append(out, effect{"call-pure", name + " (no effect at zero Aspect state)", x.Pos()})
						} else if hes, ok := a.helperEffects(f, x.Pos()); ok {
							out = append(out, hes...)
						} else {
							out = append(out, effect{"call-other", name, x.Pos()})
						}
					}
				default:
					out = append(out, effect{"call-other", "dynamic call " + (&astCanon{info: a.info}).expr(x.Fun), x.Pos()})
				}
			}
			return true
		})
	}
	walk = func(n ast.Node) {
		switch x := n.(type) {
		case nil:
		case *ast.CaseClause:
			for _, e := range x.List {
				walkExpr(e)
			}
			walkList(x.Body)
		case *ast.ExprStmt:
			walkExpr(x.X)
		case *ast.AssignStmt:
			for _, r := range x.Rhs {
				walkExpr(r)
			}
			for _, l := range x.Lhs {
				if x.Tok == token.DEFINE {
					if id, ok := l.(*ast.Ident); ok && a.info.Defs[id] != nil {
						continue // new local
					}
				}
				walkExpr(l)
				write(l)
			}
		case *ast.IncDecStmt:
			write(x.X)
		case *ast.DeclStmt:
			if gd, ok := x.Decl.(*ast.GenDecl); ok {
				for _, sp := range gd.Specs {
					if vs, ok := sp.(*ast.ValueSpec); ok {
						for _, v := range vs.Values {
							walkExpr(v)
						}
					}
				}
			}
		case *ast.ReturnStmt:
			for _, r := range x.Results {
				walkExpr(r)
			}
			out = append(out, effect{"return", "return", x.Pos()})
		case *ast.BranchStmt:
			if x.Tok == token.GOTO || x.Tok == token.FALLTHROUGH || x.Label != nil || loopDepth == 0 {
				out = append(out, effect{"branch-out", x.Tok.String(), x.Pos()})
			}
		case *ast.DeferStmt:
			out = append(out, effect{"defer", "defer", x.Pos()})
			walkExpr(x.Call)
		case *ast.GoStmt:
			out = append(out, effect{"go", "go statement", x.Pos()})
			walkExpr(x.Call)
		case *ast.SendStmt:
			out = append(out, effect{"call-other", "channel send", x.Pos()})
		case *ast.BlockStmt:
			walkList(x.List)
		case *ast.LabeledStmt:
			walk(x.Stmt)
		case *ast.IfStmt:
			walk(x.Init)
			walkExpr(x.Cond)
			walkList(x.Body.List)
			walk(x.Else)
		case *ast.ForStmt:
			walk(x.Init)
			if x.Cond != nil {
				walkExpr(x.Cond)
			}
			loopDepth++
			walk(x.Post)
			walkList(x.Body.List)
			loopDepth--
		case *ast.RangeStmt:
			walkExpr(x.X)
			if x.Tok == token.ASSIGN {
				if x.Key != nil {
					write(x.Key)
				}
				if x.Value != nil {
					write(x.Value)
				}
			}
			loopDepth++
			walkList(x.Body.List)
			loopDepth--
		case *ast.SwitchStmt:
			walk(x.Init)
			if x.Tag != nil {
				walkExpr(x.Tag)
			}
			loopDepth++ // break inside switch is local
			for _, c := range x.Body.List {
				walk(c)
			}
			loopDepth--
		case *ast.TypeSwitchStmt:
			walk(x.Init)
			walk(x.Assign)
			loopDepth++
			for _, c := range x.Body.List {
				walk(c)
			}
			loopDepth--
		case *ast.SelectStmt:
			out = append(out, effect{"call-other", "select", x.Pos()})
		case *ast.EmptyStmt:
		default:
			out = append(out, effect{"call-other", fmt.Sprintf("unhandled %T", n), n.Pos()})
		}
	}
	walk(n)
	return out
}

// helperEffects: a call to a fork-only (NEW) function of a fork package has the effects of the
// helper's own body, judged by the same rules (its parameters, results and locals are fork locals;
// a store through a pointer parameter or the receiver is a store to whatever the path names). The
// helper's `return`s end the helper, not the caller, and are dropped. Recursive helpers stay opaque.
var helperEffMemo = map[*types.Func][]effect{}
var helperEffBusy = map[*types.Func]bool{}

func relNameOfFunc(f *types.Func) string {
	sig, ok := f.Type().(*types.Signature)
	if !ok || sig.Recv() == nil {
		return f.Name()
	}
	t := sig.Recv().Type()
	ptr := false
	if p, ok := t.(*types.Pointer); ok {
		t, ptr = p.Elem(), true
	}
	nt, ok := t.(*types.Named)
	if !ok {
		return ""
	}
	if ptr {
		return "(*" + nt.Obj().Name() + ")." + f.Name()
	}
	return "(" + nt.Obj().Name() + ")." + f.Name()
}

func (a *insAnalyzer) helperEffects(f *types.Func, at token.Pos) ([]effect, bool) {
	if f.Pkg() == nil || helperEffBusy[f] {
		return nil, false
	}
	pair := -1
	for i := range pkgPairs {
		if forkPath(i) == f.Pkg().Path() {
			pair = i
		}
	}
	rel := relNameOfFunc(f)
	if pair < 0 || rel == "" || a.w.funcIdx[refPath(pair)][rel] != nil {
		return nil, false
	}
	if es, ok := helperEffMemo[f]; ok {
		return es, es != nil
	}
	fd, p := a.w.FuncDecl(forkPath(pair), rel)
	if fd == nil || fd.Body == nil || p == nil {
		return nil, false
	}
	helperEffBusy[f] = true
	defer delete(helperEffBusy, f)
	h := &insAnalyzer{w: a.w, info: p.TypesInfo, fo: a.fo, fkLocals: declaredLocals(p.TypesInfo, fd), recvOnly: map[string]bool{}}
	es := []effect{}
	for _, e := range h.effects(fd.Body) {
		if e.kind == "return" {
			continue
		}
		e.what = rel + ": " + e.what
		e.pos = at
		es = append(es, e)
	}
	helperEffMemo[f] = es
	return es, true
}

// zeroStateFalse: is cond certainly false when every fork-only field holds its zero value?
func (a *insAnalyzer) zeroStateFalse(cond ast.Expr) bool {
	cond = ast.Unparen(cond)
	switch x := cond.(type) {
	case *ast.BinaryExpr:
		switch x.Op {
		case token.LAND:
			return a.zeroStateFalse(x.X) || a.zeroStateFalse(x.Y)
		case token.LOR:
			return a.zeroStateFalse(x.X) && a.zeroStateFalse(x.Y)
		case token.NEQ, token.EQL, token.GTR, token.LSS:
			l, r := ast.Unparen(x.X), ast.Unparen(x.Y)
			// a variable just assigned nil by a zero-state no-op helper call of the same run of insertions
			if x.Op == token.NEQ {
				if id, ok := l.(*ast.Ident); ok && a.info.Types[r].IsNil() {
					if f, known := a.zsKnown[a.info.Uses[id]]; known && f.val.kind == "nil" && f.run == a.curRun && f.run != "" && f.pos <= x.Pos() {
						return true
					}
				}
			}
			// normalise: fork-only thing on the left
			if !a.isForkZeroValued(l) && a.isForkZeroValued(r) {
				l, r = r, l
				if x.Op == token.GTR {
					return false
				}
				if x.Op == token.LSS { // c < F  ==  F > c
					x = &ast.BinaryExpr{X: l, Op: token.GTR, Y: r}
				}
			}
			if !a.isForkZeroValued(l) {
				return false
			}
			rv := a.info.Types[r]
			isZero := false
			isNonZero := false
			if rv.IsNil() {
				isZero = true
			} else if rv.Value != nil {
				switch rv.Value.Kind() {
				case constant.Int:
					if constant.Sign(rv.Value) == 0 {
						isZero = true
					} else {
						isNonZero = true
					}
				case constant.String:
					if constant.StringVal(rv.Value) == "" {
						isZero = true
					} else {
						isNonZero = true
					}
				case constant.Bool:
					if !constant.BoolVal(rv.Value) {
						isZero = true
					} else {
						isNonZero = true
					}
				}
			}
			switch x.Op {
			case token.NEQ:
				return isZero // F != 0 is false at zero state
			case token.EQL:
				return isNonZero // F == c (c != 0) is false at zero state
			case token.GTR:
				// F > c with c >= 0, F zero-valued integer (len)
				return rv.Value != nil && rv.Value.Kind() == constant.Int && constant.Sign(rv.Value) >= 0
			}
		}
	case *ast.Ident:
		// a bool-typed fork local set from a comma-ok on fork-only state is not handled: undecided
		return false
	}
	return false
}

// computeZeroLocals fills zeroLocals for the function fd.
func (a *insAnalyzer) computeZeroLocals(fd *ast.FuncDecl) {
	a.zeroLocals = map[types.Object]bool{}
	if fd == nil || fd.Body == nil {
		return
	}
	defs := map[types.Object]ast.Expr{}
	spoiled := map[types.Object]bool{}
	def := func(id *ast.Ident, rhs ast.Expr) {
		if o := a.info.Defs[id]; o != nil {
			if _, dup := defs[o]; dup {
				spoiled[o] = true
			}
			defs[o] = rhs
		}
	}
	ast.Inspect(fd.Body, func(n ast.Node) bool {
		switch x := n.(type) {
		case *ast.AssignStmt:
			for i, l := range x.Lhs {
				id, ok := l.(*ast.Ident)
				if !ok {
					continue
				}
				if x.Tok == token.DEFINE && a.info.Defs[id] != nil && len(x.Lhs) == len(x.Rhs) {
					def(id, x.Rhs[i])
				} else if o := a.info.Uses[id]; o != nil {
					spoiled[o] = true
				} else if o := a.info.Defs[id]; o != nil {
					spoiled[o] = true // defined by a multi-value assignment
				}
			}
		case *ast.ValueSpec:
			for i, id := range x.Names {
				if len(x.Values) == len(x.Names) {
					def(id, x.Values[i])
				} else if o := a.info.Defs[id]; o != nil {
					spoiled[o] = true
				}
			}
		case *ast.IncDecStmt:
			if id, ok := x.X.(*ast.Ident); ok {
				spoiled[a.info.Uses[id]] = true
			}
		case *ast.RangeStmt:
			for _, kv := range []ast.Expr{x.Key, x.Value} {
				if id, ok := kv.(*ast.Ident); ok {
					if o := a.info.Uses[id]; o != nil {
						spoiled[o] = true
					}
					if o := a.info.Defs[id]; o != nil {
						spoiled[o] = true
					}
				}
			}
		case *ast.UnaryExpr:
			if id, ok := ast.Unparen(x.X).(*ast.Ident); ok && x.Op == token.AND {
				spoiled[a.info.Uses[id]] = true
			}
		}
		return true
	})
	for round := 0; round < 3; round++ {
		for o, rhs := range defs {
			if !spoiled[o] && rhs != nil && a.isForkZeroValued(rhs) {
				a.zeroLocals[o] = true
			}
		}
	}
}

// zeroTripLoop: `for i := c; i < len(F); post { … }` (or `len(F) > i`) with a constant c >= 0, a
// fork-local i and F ending in a fork-only field.
func (a *insAnalyzer) zeroTripLoop(s *ast.ForStmt) bool {
	init, ok := s.Init.(*ast.AssignStmt)
	if !ok || init.Tok != token.DEFINE || len(init.Lhs) != 1 || len(init.Rhs) != 1 || s.Cond == nil {
		return false
	}
	iv, ok := init.Lhs[0].(*ast.Ident)
	tv := a.info.Types[init.Rhs[0]]
	if !ok || a.info.Defs[iv] == nil || tv.Value == nil || tv.Value.Kind() != constant.Int || constant.Sign(tv.Value) < 0 {
		return false
	}
	b, ok := ast.Unparen(s.Cond).(*ast.BinaryExpr)
	if !ok {
		return false
	}
	x, y := ast.Unparen(b.X), ast.Unparen(b.Y)
	switch b.Op {
	case token.LSS:
	case token.GTR:
		x, y = y, x
	default:
		return false
	}
	id, ok := x.(*ast.Ident)
	if !ok || a.info.Uses[id] != a.info.Defs[iv] {
		return false
	}
	call, ok := y.(*ast.CallExpr)
	return ok && a.isForkZeroValued(call)
}

// isCancunRule: cond is the field IsCancun of go-ethereum's params.Rules.
func (a *insAnalyzer) isCancunRule(cond ast.Expr) bool {
	sel, ok := ast.Unparen(cond).(*ast.SelectorExpr)
	if !ok {
		return false
	}
	v, ok := a.info.Selections[sel]
	return ok && v.Obj().Name() == "IsCancun" && v.Obj().Pkg() != nil && v.Obj().Pkg().Path() == "github.com/ethereum/go-ethereum/params"
}

// pureLocalDefine: st is `x, y := …` defining new locals from expressions without effects.
func (a *insAnalyzer) pureLocalDefine(st ast.Stmt) bool {
	as, ok := st.(*ast.AssignStmt)
	if !ok || as.Tok != token.DEFINE {
		return false
	}
	for _, l := range as.Lhs {
		id, ok := l.(*ast.Ident)
		if !ok || (id.Name != "_" && a.info.Defs[id] == nil) {
			return false
		}
	}
	for _, e := range a.effects(as) {
		if e.kind != "call-pure" && e.kind != "write-fork" {
			return false
		}
	}
	return true
}

// zeroAtZeroState: e is 0 whenever no Aspect state exists: the constant 0, (the length of) a fork-only field, or the
// result of a fork helper whose zero-state summary returns the constant 0.
func (a *insAnalyzer) zeroAtZeroState(e ast.Expr) bool {
	e = ast.Unparen(e)
	if tv, ok := a.info.Types[e]; ok && tv.Value != nil {
		return tv.Value.ExactString() == "0"
	}
	if a.isForkZeroValued(e) {
		return true
	}
	call, ok := e.(*ast.CallExpr)
	if !ok || call.Ellipsis.IsValid() {
		return false
	}
	f, _ := typeutil.Callee(a.info, call).(*types.Func)
	if f == nil || f.Pkg() == nil {
		return false
	}
	pair := -1
	for i := range pkgPairs {
		if forkPath(i) == f.Pkg().Path() {
			pair = i
		}
	}
	rel := relNameOfFunc(f)
	if pair < 0 || rel == "" || a.w.funcIdx[refPath(pair)][rel] != nil {
		return false
	}
	fn := a.w.Func(forkPath(pair), rel)
	if fn == nil || fn.Blocks == nil {
		return false
	}
	off := 0
	if fn.Signature.Recv() != nil {
		off = 1
	}
	if len(call.Args)+off != len(fn.Params) {
		return false
	}
	zp := map[int]bool{}
	for i, arg := range call.Args {
		if a.isForkZeroValued(arg) {
			zp[i+off] = true
		}
	}
	sum := a.w.zeroStateSummary(fn, zp, a.fo)
	return sum != nil && len(sum.results) == 1 && sum.results[0].kind == "int" && sum.results[0].n == 0
}

// zeroStateSilent: the call of the fork-only function f has a zero-state summary (no effect on its feasible path)
// with the arguments that are fork-zero-valued taken as zero.
func (a *insAnalyzer) zeroStateSilent(f *types.Func, call *ast.CallExpr) bool {
	if f.Pkg() == nil || call.Ellipsis.IsValid() {
		return false
	}
	pair := -1
	for i := range pkgPairs {
		if forkPath(i) == f.Pkg().Path() {
			pair = i
		}
	}
	rel := relNameOfFunc(f)
	if pair < 0 || rel == "" || a.w.funcIdx[refPath(pair)][rel] != nil {
		return false
	}
	fn := a.w.Func(forkPath(pair), rel)
	if fn == nil || fn.Blocks == nil {
		return false
	}
	off := 0
	if fn.Signature.Recv() != nil {
		off = 1
	}
	if len(call.Args)+off != len(fn.Params) {
		return false
	}
	zp := map[int]bool{}
	for i, arg := range call.Args {
		if a.isForkZeroValued(arg) {
			zp[i+off] = true
		}
	}
	return a.w.zeroStateSummary(fn, zp, a.fo) != nil
}

// zeroStateNoop: as is `lhs… = h(args…)` (or :=) where the fork-only helper h, followed on its one feasible
// path at zero Aspect state, has no effect and returns, for every left-hand side, either the argument that
// is already stored there, or a value for a location the reference never observes (a fork local, or a named
// result that is dead in this function).
func (a *insAnalyzer) zeroStateNoop(as *ast.AssignStmt, run string) (bool, string) {
	call, ok := ast.Unparen(as.Rhs[0]).(*ast.CallExpr)
	if !ok || call.Ellipsis.IsValid() {
		return false, ""
	}
	f, _ := typeutil.Callee(a.info, call).(*types.Func)
	if f == nil || f.Pkg() == nil {
		return false, ""
	}
	pair := -1
	for i := range pkgPairs {
		if forkPath(i) == f.Pkg().Path() {
			pair = i
		}
	}
	rel := relNameOfFunc(f)
	if pair < 0 || rel == "" || a.w.funcIdx[refPath(pair)][rel] != nil {
		return false, ""
	}
	fn := a.w.Func(forkPath(pair), rel)
	if fn == nil || fn.Blocks == nil {
		return false, ""
	}
	// arguments: effect-free; which of them are zero-valued
	args := call.Args
	off := 0
	if fn.Signature.Recv() != nil {
		off = 1
		if sel, isSel := call.Fun.(*ast.SelectorExpr); isSel {
			for _, e := range a.effects(&ast.ExprStmt{X: sel.X}) {
				if e.kind != "call-pure" {
					return false, ""
				}
			}
		}
	}
	if len(args)+off != len(fn.Params) {
		return false, ""
	}
	zp := map[int]bool{}
	for i, arg := range args {
		for _, e := range a.effects(&ast.ExprStmt{X: arg}) {
			if e.kind != "call-pure" {
				return false, ""
			}
		}
		if a.isForkZeroValued(arg) {
			zp[i+off] = true
		}
	}
	sum := a.w.zeroStateSummary(fn, zp, a.fo)
	if sum == nil || len(sum.results) != len(as.Lhs) {
		return false, ""
	}
	c := &astCanon{info: a.info}
	known := map[types.Object]zsVal{}
	zeroWrites := map[types.Object]bool{}
	for i, l := range as.Lhs {
		id, isId := ast.Unparen(l).(*ast.Ident)
		if !isId {
			return false, ""
		}
		if id.Name == "_" {
			continue
		}
		o := a.info.Uses[id]
		if o == nil {
			o = a.info.Defs[id]
		}
		res := sum.results[i]
		unobserved := o != nil && (a.fkLocals[o] || a.info.Defs[id] != nil || a.deadResults[o])
		switch res.kind {
		case "param":
			k := res.param - off
			if k >= 0 && k < len(args) && c.expr(args[k]) == c.expr(l) {
				continue // the location keeps its value
			}
			if !unobserved {
				return false, ""
			}
		case "int", "nil", "bool", "zero":
			if !unobserved {
				return false, ""
			}
			known[o] = res
			if res.kind == "int" && res.n == 0 {
				zeroWrites[o] = true
			}
		default:
			if !unobserved {
				return false, ""
			}
		}
	}
	if a.zsKnown == nil {
		a.zsKnown = map[types.Object]zsFact{}
		a.zsZeroWrite = map[ast.Stmt]map[types.Object]bool{}
	}
	for o, val := range known {
		a.zsKnown[o] = zsFact{run: run, pos: as.End(), val: val}
	}
	a.zsZeroWrite[as] = zeroWrites
	return true, "the fork helper " + rel + " has no effect on its one feasible path without Aspect state and hands back what was already stored (or values only fork code observes)"
}

// zeroStateTrue: is cond certainly true when every fork-only field holds its zero value?
func (a *insAnalyzer) zeroStateTrue(cond ast.Expr) bool {
	cond = ast.Unparen(cond)
	switch x := cond.(type) {
	case *ast.UnaryExpr:
		if x.Op == token.NOT {
			return a.zeroStateFalse(x.X)
		}
	case *ast.BinaryExpr:
		switch x.Op {
		case token.LOR:
			return a.zeroStateTrue(x.X) || a.zeroStateTrue(x.Y)
		case token.LAND:
			return a.zeroStateTrue(x.X) && a.zeroStateTrue(x.Y)
		case token.EQL, token.NEQ:
			l, r := ast.Unparen(x.X), ast.Unparen(x.Y)
			if !a.isForkZeroValued(l) && a.isForkZeroValued(r) {
				l, r = r, l
			}
			if !a.isForkZeroValued(l) {
				return false
			}
			rv := a.info.Types[r]
			isZero, isNonZero := rv.IsNil(), false
			if rv.Value != nil {
				switch rv.Value.Kind() {
				case constant.Int:
					isZero, isNonZero = constant.Sign(rv.Value) == 0, constant.Sign(rv.Value) != 0
				case constant.String:
					isZero, isNonZero = constant.StringVal(rv.Value) == "", constant.StringVal(rv.Value) != ""
				case constant.Bool:
					isZero, isNonZero = !constant.BoolVal(rv.Value), constant.BoolVal(rv.Value)
				}
			}
			if x.Op == token.EQL {
				return isZero // F == 0 is true at zero state
			}
			return isNonZero // F != c (c != 0) is true at zero state
		}
	}
	return false
}

// isForkZeroValued: expression whose value is the zero value when no Aspect state exists:
// a fork-only field path, or len() of one.
func (a *insAnalyzer) isForkZeroValued(e ast.Expr) bool {
	e = ast.Unparen(e)
	if call, ok := e.(*ast.CallExpr); ok && len(call.Args) == 1 {
		if id, ok := call.Fun.(*ast.Ident); ok && id.Name == "len" {
			if _, isB := a.info.Uses[id].(*types.Builtin); isB {
				return a.lastFieldForkOnly(call.Args[0])
			}
		}
		return false
	}
	return a.lastFieldForkOnly(e)
}

// lastFieldForkOnly: the expression *ends* in a fork-only field selection (x.y.F) — its value is
// that field's value, which is zero when no Aspect state was ever written.
func (a *insAnalyzer) lastFieldForkOnly(e ast.Expr) bool {
	e = ast.Unparen(e)
	if id, ok := e.(*ast.Ident); ok {
		if x, bound := inlineArg[a.info.Uses[id]]; bound {
			return a.lastFieldForkOnly(x) // a helper parameter bound to the argument of an expanded call
		}
		return a.zeroLocals[a.info.Uses[id]]
	}
	sel, ok := e.(*ast.SelectorExpr)
	if !ok {
		return false
	}
	if s, ok := a.info.Selections[sel]; ok {
		if v, ok := s.Obj().(*types.Var); ok {
			return a.fo.Fields[v] || (a.recvOnly[v.Name()] && !isPkgLevel(namedOwner(s.Recv())))
		}
	}
	return false
}

// Verdict of one insertion.
type InsVerdict struct {
	Class  string
	OK     bool
	Why    string
	Pos    token.Pos
	Text   string
	Effect []effect
}

func effectSummary(es []effect) string {
	m := map[string]bool{}
	for _, e := range es {
		m[e.kind+":"+e.what] = true
	}
	var out []string
	for k := range m {
		out = append(out, k)
	}
	sort.Strings(out)
	return strings.Join(out, "; ")
}

// classifyInsertion decides the generic classes. Special constructs are dispatched by the caller.
func (a *insAnalyzer) classifyInsertion(in *Insertion) *InsVerdict {
	var node ast.Node = in.Stmt
	if in.Case != nil {
		node = in.Case
	}
	v := &InsVerdict{Pos: node.Pos(), Text: stmtText(a.w, a.info, node)}
	a.curRun = in.Run
	// what an earlier zero-state no-op call left in a variable is forgotten as soon as an insertion assigns it again
	if len(a.zsKnown) > 0 {
		ast.Inspect(node, func(n ast.Node) bool {
			switch x := n.(type) {
			case *ast.AssignStmt:
				for _, l := range x.Lhs {
					if id, ok := ast.Unparen(l).(*ast.Ident); ok {
						delete(a.zsKnown, a.info.Uses[id])
					}
				}
			case *ast.IncDecStmt:
				if id, ok := ast.Unparen(x.X).(*ast.Ident); ok {
					delete(a.zsKnown, a.info.Uses[id])
				}
			case *ast.UnaryExpr:
				if id, ok := ast.Unparen(x.X).(*ast.Ident); ok && x.Op == token.AND {
					delete(a.zsKnown, a.info.Uses[id])
				}
			}
			return true
		})
	}
	// (1) constructs that never execute at zero state
	switch s := in.Stmt.(type) {
	case *ast.RangeStmt:
		if in.Case == nil && a.isForkZeroValued(s.X) {
			v.Class, v.OK, v.Why = "FORK_LOOP", true, "range over a fork-only field: zero iterations without Aspect state"
			return v
		}
	case *ast.ForStmt:
		// for i := c; i < len(F); … with c >= 0 and F fork-only: the condition fails at the first test
		if in.Case == nil && in.AbsorbRef < 0 && a.zeroTripLoop(s) {
			v.Class, v.OK, v.Why = "FORK_LOOP", true, "counted loop bounded by the length of a fork-only field: zero iterations without Aspect state"
			return v
		}
	case *ast.IfStmt:
		if in.Case == nil && (s.Init == nil || a.pureLocalDefine(s.Init)) {
			if in.AbsorbRef >= 0 {
				// the reference statements must sit in the branch taken at zero state
				if a.isCancunRule(s.Cond) && in.AbsorbRef == 1 {
					v.Class, v.OK, v.Why = "FORK_GUARD", true, "guarded by params.Rules.IsCancun, which is false for every fork rule set up to Shanghai (same assumption as for the inserted switch case); the reference statements are in the else branch"
					return v
				}
				if a.zeroStateTrue(s.Cond) && in.AbsorbRef == 0 {
					v.Class, v.OK, v.Why = "FORK_GUARD", true, "condition on fork-only state is true without Aspect state; the reference statements are in the then branch, the else branch is dead"
					return v
				}
				if a.zeroStateFalse(s.Cond) && in.AbsorbRef == 1 {
					v.Class, v.OK, v.Why = "FORK_GUARD", true, "condition on fork-only state is false without Aspect state; the reference statements are in the else branch"
					return v
				}
				v.Class, v.OK, v.Why = "FORK_GUARD", false, "an inserted `if` wraps reference statements but its condition is not provably false at zero Aspect state (or the reference statements are in the wrong branch)"
				return v
			}
			if a.zeroStateFalse(s.Cond) && s.Else == nil {
				v.Class, v.OK, v.Why = "FORK_GUARD", true, "condition on fork-only state is false without Aspect state"
				return v
			}
		}
	}
	if in.AbsorbRef >= 0 {
		v.Class, v.OK, v.Why = "FORK_GUARD", false, "an inserted `if` wraps reference statements"
		return v
	}
	// (1a) `x = append(x, z...)` with z zero-valued without Aspect state: x keeps its value
	if as, ok := in.Stmt.(*ast.AssignStmt); ok && in.Case == nil && as.Tok == token.ASSIGN && len(as.Lhs) == 1 && len(as.Rhs) == 1 {
		if call, isCall := ast.Unparen(as.Rhs[0]).(*ast.CallExpr); isCall && call.Ellipsis.IsValid() && len(call.Args) == 2 {
			if id, isId := call.Fun.(*ast.Ident); isId {
				if b, isB := a.info.Uses[id].(*types.Builtin); isB && b.Name() == "append" {
					c := &astCanon{info: a.info}
					zero := a.isForkZeroValued(call.Args[1])
					if zid, isZ := ast.Unparen(call.Args[1]).(*ast.Ident); isZ && !zero {
						if f, known := a.zsKnown[a.info.Uses[zid]]; known && f.val.kind == "zero" && f.run == in.Run && f.run != "" {
							zero = true
						}
					}
					if zero && c.expr(as.Lhs[0]) == c.expr(call.Args[0]) {
						v.Class, v.OK, v.Why = "APPEND_ZERO", true, "appends a slice that is empty without Aspect state: the destination keeps its value"
						return v
					}
				}
			}
		}
	}
	// (1b) `x, y, … = h(…)` with h a fork helper that does nothing at zero state (zsum.go)
	if as, ok := in.Stmt.(*ast.AssignStmt); ok && in.Case == nil && len(as.Rhs) == 1 {
		if okZ, why := a.zeroStateNoop(as, in.Run); okZ {
			v.Class, v.OK, v.Why = "ZERO_STATE_NOOP", true, why
			return v
		}
	}
	// (2) unconditional insertion: only fork-owned writes, only reviewed callees, no control transfer
	es := a.effects(node)
	v.Effect = es
	kinds := map[string]bool{}
	for _, e := range es {
		switch e.kind {
		case "write-ref", "call-other", "call-jp", "return", "branch-out", "go", "panic":
			v.Class, v.OK = "UNCLASSIFIED", false
			v.Why = fmt.Sprintf("inserted statement has an effect on reference-visible state or control: %s (%s)", e.kind, e.what)
			return v
		}
		kinds[e.kind] = true
	}
	switch {
	case kinds["call-tracer"]:
		v.Class = "TRACER_CALL"
	case kinds["write-fork"]:
		v.Class = "FORK_FIELD"
	default:
		v.Class = "FORK_LOCAL"
	}
	v.OK, v.Why = true, "writes only fork-owned locations; calls only reviewed pure callees / tracer-family methods ("+effectSummary(es)+")"
	return v
}
