package main

// Forwarding helpers. A fork-only function whose whole body is one call — e.g.
//   func (evm *EVM) transferWithRecord(from, to common.Address, value *big.Int) {
//       evm.Tracer().TransferWithRecord(evm.StateDB, from, to, value, evm.Context.Transfer)
//   }
// — only gives a name to that call. Rules that are stated on the call sites of the inner callee (its
// arguments, its position on the paths of the calling frame) read a call of such a helper as the inner
// call with the helper's parameters and receiver replaced by the arguments and receiver of the call.

import (
	"go/ast"
	"go/token"
	"go/types"

	"golang.org/x/tools/go/packages"
	"golang.org/x/tools/go/types/typeutil"
)

// forwardedCall returns the inner call that `call` stands for, with substituted operands, or nil.
func (w *World) forwardedCall(p *packages.Package, call *ast.CallExpr) *ast.CallExpr {
	info := p.TypesInfo
	f, _ := typeutil.Callee(info, call).(*types.Func)
	if f == nil || f.Pkg() == nil || f.Pkg() != p.Types || call.Ellipsis.IsValid() {
		return nil
	}
	pair := -1
	for i := range pkgPairs {
		if forkPath(i) == f.Pkg().Path() {
			pair = i
		}
	}
	rel := relNameOfFunc(f)
	if pair < 0 || rel == "" || w.funcIdx[refPath(pair)][rel] != nil {
		return nil
	}
	// the recorder's own API (Tracer.SaveCall, ExitCall, …) is what the rules are stated on: never looked through
	if rt, rpkg := recvTypeName(f); rt != "" && rpkg != nil && rpkg.Path() == forkPath(pkVM) && tracerFamily[rt] {
		return nil
	}
	hd, _ := w.FuncDecl(forkPath(pair), rel)
	if hd == nil || hd.Body == nil || len(hd.Body.List) != 1 {
		return nil
	}
	var inner *ast.CallExpr
	switch st := hd.Body.List[0].(type) {
	case *ast.ExprStmt:
		inner, _ = st.X.(*ast.CallExpr)
	case *ast.ReturnStmt:
		if len(st.Results) == 1 {
			inner, _ = st.Results[0].(*ast.CallExpr)
		}
	}
	if inner == nil {
		return nil
	}
	bind := map[types.Object]ast.Expr{}
	if hd.Recv != nil && len(hd.Recv.List) == 1 && len(hd.Recv.List[0].Names) == 1 {
		sel, ok := call.Fun.(*ast.SelectorExpr)
		if !ok {
			return nil
		}
		bind[info.Defs[hd.Recv.List[0].Names[0]]] = sel.X
	}
	i := 0
	for _, fld := range hd.Type.Params.List {
		if _, isV := fld.Type.(*ast.Ellipsis); isV {
			return nil
		}
		for _, nm := range fld.Names {
			if i >= len(call.Args) {
				return nil
			}
			bind[info.Defs[nm]] = call.Args[i]
			i++
		}
	}
	if i != len(call.Args) {
		return nil
	}
	// every parameter is used at most once (an argument expression is evaluated once either way)
	uses := map[types.Object]int{}
	ast.Inspect(inner, func(n ast.Node) bool {
		if id, ok := n.(*ast.Ident); ok {
			if _, bound := bind[info.Uses[id]]; bound {
				uses[info.Uses[id]]++
			}
		}
		return true
	})
	for o, n := range uses {
		if n > 1 {
			// a receiver or parameter read several times must be a plain identifier at the call site
			if _, isId := ast.Unparen(bind[o]).(*ast.Ident); !isId {
				return nil
			}
		}
	}
	out, _ := substExpr(info, inner, bind).(*ast.CallExpr)
	return out
}

// substExpr copies e with identifiers bound in `bind` replaced by the bound expressions. Positions of the
// copied nodes are kept, so reports still point into the helper.
func substExpr(info *types.Info, e ast.Expr, bind map[types.Object]ast.Expr) ast.Expr {
	var sub func(e ast.Expr) ast.Expr
	sub = func(e ast.Expr) ast.Expr {
		switch x := e.(type) {
		case *ast.Ident:
			if a, ok := bind[info.Uses[x]]; ok {
				return a
			}
		case *ast.ParenExpr:
			return &ast.ParenExpr{Lparen: x.Lparen, X: sub(x.X), Rparen: x.Rparen}
		case *ast.SelectorExpr:
			return &ast.SelectorExpr{X: sub(x.X), Sel: x.Sel}
		case *ast.IndexExpr:
			return &ast.IndexExpr{X: sub(x.X), Lbrack: x.Lbrack, Index: sub(x.Index), Rbrack: x.Rbrack}
		case *ast.StarExpr:
			return &ast.StarExpr{Star: x.Star, X: sub(x.X)}
		case *ast.CallExpr:
			n := &ast.CallExpr{Fun: sub(x.Fun), Lparen: x.Lparen, Ellipsis: x.Ellipsis, Rparen: x.Rparen}
			for _, a := range x.Args {
				n.Args = append(n.Args, sub(a))
			}
			return n
		case *ast.UnaryExpr:
			return &ast.UnaryExpr{OpPos: x.OpPos, Op: x.Op, X: sub(x.X)}
		case *ast.BinaryExpr:
			return &ast.BinaryExpr{X: sub(x.X), OpPos: x.OpPos, Op: x.Op, Y: sub(x.Y)}
		}
		return e
	}
	return sub(e)
}

// deferredForward: for the operand of a defer statement that calls a forwarding helper, the inner call as
// it will execute when the frame returns — or nil when deferring the helper is not the same as deferring a
// closure around the inner call. A defer statement evaluates the helper's arguments at once; that makes no
// difference exactly when every argument is the address of a variable (`&x`, read through `*p` in the
// helper, i.e. at exit) or a variable that is assigned once in the enclosing function, before the defer.
// `*&x` in the substituted call is then written `x`.
func (w *World) deferredForward(p *packages.Package, call *ast.CallExpr) *ast.CallExpr {
	in := w.forwardedCall(p, call)
	if in == nil {
		return nil
	}
	info := p.TypesInfo
	var encl *ast.FuncDecl
	for _, f := range p.Syntax {
		for _, d := range f.Decls {
			if fd, ok := d.(*ast.FuncDecl); ok && fd.Body != nil && fd.Pos() <= call.Pos() && call.End() <= fd.End() {
				encl = fd
			}
		}
	}
	if encl == nil {
		return nil
	}
	assignedOnce := func(o types.Object) bool {
		n := 0
		ast.Inspect(encl.Body, func(x ast.Node) bool {
			switch s := x.(type) {
			case *ast.AssignStmt:
				for _, l := range s.Lhs {
					if id, ok := l.(*ast.Ident); ok && (info.Defs[id] == o || info.Uses[id] == o) {
						n++
						if s.Pos() > call.Pos() {
							n++ // assigned after the defer statement
						}
					}
				}
			case *ast.IncDecStmt:
				if id, ok := s.X.(*ast.Ident); ok && info.Uses[id] == o {
					n += 2
				}
			case *ast.UnaryExpr:
				if id, ok := s.X.(*ast.Ident); ok && s.Op == token.AND && info.Uses[id] == o {
					n += 2 // address taken: may be written through a pointer
				}
			}
			return true
		})
		return n == 1
	}
	for _, a := range call.Args {
		a = ast.Unparen(a)
		if u, ok := a.(*ast.UnaryExpr); ok && u.Op == token.AND {
			if _, isId := ast.Unparen(u.X).(*ast.Ident); isId {
				continue
			}
			return nil
		}
		if id, ok := a.(*ast.Ident); ok {
			if o, isVar := info.Uses[id].(*types.Var); isVar && !o.IsField() && o.Parent() != o.Pkg().Scope() && assignedOnce(o) {
				continue
			}
		}
		return nil
	}
	if sel, ok := call.Fun.(*ast.SelectorExpr); ok {
		// a method helper: the receiver is evaluated at the defer statement, too
		id, isId := ast.Unparen(sel.X).(*ast.Ident)
		if !isId {
			return nil
		}
		if o, isVar := info.Uses[id].(*types.Var); !isVar || !assignedOnce(o) {
			if _, isPkg := info.Uses[id].(*types.PkgName); !isPkg {
				return nil
			}
		}
	}
	// *&x -> x
	var simp func(e ast.Expr) ast.Expr
	simp = func(e ast.Expr) ast.Expr {
		if st, ok := e.(*ast.StarExpr); ok {
			if u, ok := ast.Unparen(st.X).(*ast.UnaryExpr); ok && u.Op == token.AND {
				return u.X
			}
		}
		return e
	}
	out := &ast.CallExpr{Fun: in.Fun, Lparen: in.Lparen, Ellipsis: in.Ellipsis, Rparen: in.Rparen}
	for _, a := range in.Args {
		out.Args = append(out.Args, simp(a))
	}
	return out
}

// expandForwarding copies a statement list with every statement-level call of a forwarding helper replaced by
// the inner call (for the path rules, whose sites are statements of the frame entry points).
func (w *World) expandForwarding(p *packages.Package, list []ast.Stmt) []ast.Stmt {
	changed := false
	out := make([]ast.Stmt, len(list))
	blk := func(b *ast.BlockStmt) *ast.BlockStmt {
		if b == nil {
			return nil
		}
		nl := w.expandForwarding(p, b.List)
		if len(nl) == len(b.List) {
			same := true
			for i := range nl {
				if nl[i] != b.List[i] {
					same = false
				}
			}
			if same {
				return b
			}
		}
		changed = true
		return &ast.BlockStmt{Lbrace: b.Lbrace, List: nl, Rbrace: b.Rbrace}
	}
	var stmt func(s ast.Stmt) ast.Stmt
	stmt = func(s ast.Stmt) ast.Stmt {
		switch x := s.(type) {
		case *ast.ExprStmt:
			if call, ok := x.X.(*ast.CallExpr); ok {
				if in := w.forwardedCall(p, call); in != nil {
					changed = true
					// the synthesized call needs a callee the resolver can find: Fun keeps its original nodes
					return &ast.ExprStmt{X: in}
				}
			}
		case *ast.DeferStmt:
			// `defer helper(t, &a, &b)` with helper = `t.M(*pa, *pb)` is `defer func() { t.M(a, b) }()`
			if in := w.deferredForward(p, x.Call); in != nil {
				changed = true
				lit := &ast.FuncLit{Type: &ast.FuncType{Func: x.Call.Pos(), Params: &ast.FieldList{}},
					Body: &ast.BlockStmt{Lbrace: x.Call.Pos(), List: []ast.Stmt{&ast.ExprStmt{X: in}}, Rbrace: x.Call.End()}}
				return &ast.DeferStmt{Defer: x.Defer, Call: &ast.CallExpr{Fun: lit, Lparen: x.Call.Lparen, Rparen: x.Call.Rparen}}
			}
		case *ast.BlockStmt:
			return blk(x)
		case *ast.IfStmt:
			nb := blk(x.Body)
			var ne ast.Stmt
			if x.Else != nil {
				ne = stmt(x.Else)
			}
			if nb != x.Body || ne != x.Else {
				return &ast.IfStmt{If: x.If, Init: x.Init, Cond: x.Cond, Body: nb, Else: ne}
			}
		case *ast.ForStmt:
			if nb := blk(x.Body); nb != x.Body {
				return &ast.ForStmt{For: x.For, Init: x.Init, Cond: x.Cond, Post: x.Post, Body: nb}
			}
		case *ast.RangeStmt:
			if nb := blk(x.Body); nb != x.Body {
				return &ast.RangeStmt{For: x.For, Key: x.Key, Value: x.Value, TokPos: x.TokPos, Tok: x.Tok, Range: x.Range, X: x.X, Body: nb}
			}
		case *ast.SwitchStmt:
			nb := &ast.BlockStmt{Lbrace: x.Body.Lbrace, Rbrace: x.Body.Rbrace}
			diff := false
			for _, c := range x.Body.List {
				cc := c.(*ast.CaseClause)
				nl := w.expandForwarding(p, cc.Body)
				same := len(nl) == len(cc.Body)
				for i := 0; same && i < len(nl); i++ {
					same = nl[i] == cc.Body[i]
				}
				if same {
					nb.List = append(nb.List, cc)
				} else {
					diff = true
					nb.List = append(nb.List, &ast.CaseClause{Case: cc.Case, List: cc.List, Colon: cc.Colon, Body: nl})
				}
			}
			if diff {
				changed = true
				return &ast.SwitchStmt{Switch: x.Switch, Init: x.Init, Tag: x.Tag, Body: nb}
			}
		}
		return s
	}
	for i, s := range list {
		out[i] = stmt(s)
		if out[i] != s {
			changed = true
		}
	}
	if !changed {
		return list
	}
	return out
}

var _ = token.NoPos
