package main

// C09 R9.10: which bits of the storage word make up the decoded string length — an abstract
// interpretation of the header decoder of the reference journal over a "bit-slice" domain. Every
// 256-bit cell of the decoder holds, along a path, one of
//     slice(s, m)  = (W >> s) & m   for the header word W        const(k)        unknown
// with exact transfer functions for the few operations a decoder needs (SetBytes of the raw word,
// Add with 0, Div by a power of two / Rsh, And with a constant, Set). All acyclic paths of the decoder
// are enumerated; a branch on IsZero(cell) where the cell is slice(0, 1) is the test of the encoding
// flag (bit 0 of the word) and tags the path as in-place / out-of-place.
//
// Solidity's layout fixes what the length may be read from:
//   in-place (flag 0): the length is the low byte of the word divided by two — bits 1..7 of W and
//     nothing else (bit 8 upwards is string data);           expected  slice(1, m), 0x1f ⊆ m ⊆ 0x7f
//   out-of-place (flag 1): the whole word divided by two;     expected  slice(1, all ones)
// A wider mask lets a data bit leak into the length (a valid 31-byte string ending in an odd byte is
// then rejected or cut), a missing shift doubles it, a narrower read truncates long strings.

import (
	"fmt"
	"go/constant"
	"go/token"
	"math/big"
	"strings"

	"golang.org/x/tools/go/ssa"
)

type bitVal struct {
	kind  int // 0 unknown, 1 const, 2 slice of the header word
	k     *big.Int
	shift uint
	mask  *big.Int
}

var allOnes256 = new(big.Int).Sub(new(big.Int).Lsh(big.NewInt(1), 256), big.NewInt(1))

func (v bitVal) String() string {
	switch v.kind {
	case 1:
		return "const " + v.k.String()
	case 2:
		if v.mask.Cmp(new(big.Int).Rsh(allOnes256, v.shift)) == 0 {
			return fmt.Sprintf("(W >> %d)", v.shift)
		}
		return fmt.Sprintf("(W >> %d) & 0x%x", v.shift, v.mask)
	}
	return "unknown"
}

func addHeaderBitsRule(w *World, r *Report, rule string) {
	key := "vm.opReferenceChangeJournal/header-decoder"
	fn := w.Func(forkPath(pkVM), "opReferenceChangeJournal")
	if fn == nil {
		r.undecided(rule, key, "-", "function not found")
		return
	}
	_, _, gets := journalSave(fn)
	L := decodedLength(fn, gets)
	var dec *ssa.Function
	if ex, ok := L.(*ssa.Extract); ok {
		if c, ok := ex.Tuple.(*ssa.Call); ok {
			dec = c.Call.StaticCallee()
		}
	}
	if dec == nil || len(dec.Params) == 0 || dec.Blocks == nil {
		r.undecided(rule, key, w.pos(fn.Pos()), "the header decoder (the call returning (length, error) for the storage word) is not a statically resolved function")
		return
	}
	raw := dec.Params[0]
	// root cell of a *uint256.Int value: through receiver-returning method results to the allocation
	var root func(v ssa.Value, d int) ssa.Value
	root = func(v ssa.Value, d int) ssa.Value {
		if d == 0 {
			return v
		}
		if c, ok := v.(*ssa.Call); ok {
			if cal := c.Call.StaticCallee(); cal != nil && len(c.Call.Args) > 0 && isBignumPtr(c.Call.Args[0].Type()) && cal.Signature.Recv() != nil && w.recvReturningMemo(cal) {
				return root(c.Call.Args[0], d-1)
			}
		}
		return v
	}
	isRaw := func(v ssa.Value) bool {
		for i := 0; i < 4; i++ {
			switch x := v.(type) {
			case *ssa.Slice:
				if x.Low != nil || x.High != nil {
					return false
				}
				v = x.X
				continue
			case *ssa.ChangeType:
				v = x.X
				continue
			}
			break
		}
		return v == ssa.Value(raw)
	}
	type pathState struct {
		cells map[ssa.Value]bitVal
		flag  int // 0 not tested, 1 in-place (flag bit zero), 2 out-of-place
	}
	// value of an operand
	operand := func(st *pathState, v ssa.Value) bitVal {
		rt := root(v, 6)
		if bv, ok := st.cells[rt]; ok {
			return bv
		}
		if u, ok := v.(*ssa.UnOp); ok && u.Op == token.MUL {
			if g, ok := u.X.(*ssa.Global); ok {
				if k := w.globalUint256Const(g); k >= 0 {
					return bitVal{kind: 1, k: big.NewInt(k)}
				}
			}
		}
		if c, ok := v.(*ssa.Call); ok {
			if cal := c.Call.StaticCallee(); cal != nil && cal.Name() == "NewInt" && len(c.Call.Args) == 1 {
				if k, ok := c.Call.Args[0].(*ssa.Const); ok && k.Value != nil && k.Value.Kind() == constant.Int {
					if bi, ok := new(big.Int).SetString(k.Value.ExactString(), 10); ok {
						return bitVal{kind: 1, k: bi}
					}
				}
			}
		}
		return bitVal{}
	}
	pow2 := func(k *big.Int) (uint, bool) {
		if k.Sign() <= 0 || new(big.Int).And(k, new(big.Int).Sub(k, big.NewInt(1))).Sign() != 0 {
			return 0, false
		}
		return uint(k.BitLen() - 1), true
	}
	apply := func(st *pathState, c *ssa.Call) {
		cal := c.Call.StaticCallee()
		if cal == nil || cal.Signature.Recv() == nil || len(c.Call.Args) == 0 || !isBignumPtr(c.Call.Args[0].Type()) {
			// a cell handed to unknown code becomes unknown
			for _, a := range c.Call.Args {
				if rt := root(a, 6); isBignumPtr(a.Type()) {
					if _, ok := st.cells[rt]; ok {
						st.cells[rt] = bitVal{}
					}
				}
			}
			return
		}
		if bignumReadOnly[cal.Name()] {
			return
		}
		z := root(c.Call.Args[0], 6)
		args := c.Call.Args[1:]
		res := bitVal{}
		switch cal.Name() {
		case "SetBytes", "SetBytes32":
			if len(args) == 1 && isRaw(args[0]) {
				res = bitVal{kind: 2, shift: 0, mask: new(big.Int).Set(allOnes256)}
			}
		case "Set":
			if len(args) == 1 {
				res = operand(st, args[0])
			}
		case "Add", "Or":
			if len(args) == 2 {
				x, y := operand(st, args[0]), operand(st, args[1])
				switch {
				case y.kind == 1 && y.k.Sign() == 0:
					res = x
				case x.kind == 1 && x.k.Sign() == 0:
					res = y
				}
			}
		case "Div", "Rsh":
			if len(args) == 2 {
				x := operand(st, args[0])
				var sh uint
				ok := false
				if cal.Name() == "Div" {
					if y := operand(st, args[1]); y.kind == 1 {
						sh, ok = pow2(y.k)
					}
				} else if k, isK := args[1].(*ssa.Const); isK && k.Value != nil && k.Value.Kind() == constant.Int {
					n, _ := constant.Int64Val(k.Value)
					sh, ok = uint(n), n >= 0
				}
				if ok && x.kind == 2 {
					res = bitVal{kind: 2, shift: x.shift + sh, mask: new(big.Int).Rsh(x.mask, sh)}
				}
			}
		case "And":
			if len(args) == 2 {
				x, y := operand(st, args[0]), operand(st, args[1])
				if x.kind == 1 {
					x, y = y, x
				}
				if x.kind == 2 && y.kind == 1 {
					res = bitVal{kind: 2, shift: x.shift, mask: new(big.Int).And(x.mask, y.k)}
				}
			}
		case "SetUint64", "SetOne", "Clear":
			res = bitVal{}
		}
		st.cells[z] = res
	}
	type outcome struct {
		flag int
		val  bitVal
		pos  token.Pos
	}
	var outs []outcome
	flagTested := false
	paths := 0
	var walk func(b *ssa.BasicBlock, st *pathState, on map[*ssa.BasicBlock]bool)
	walk = func(b *ssa.BasicBlock, st *pathState, on map[*ssa.BasicBlock]bool) {
		if on[b] || paths > 512 {
			return
		}
		on[b] = true
		defer delete(on, b)
		for _, ins := range b.Instrs {
			switch x := ins.(type) {
			case *ssa.Alloc:
				if isBignumPtr(x.Type()) {
					st.cells[x] = bitVal{kind: 1, k: big.NewInt(0)}
				}
			case *ssa.Call:
				apply(st, x)
			case *ssa.Return:
				paths++
				if len(x.Results) == 2 && nilErrorReturn(x) {
					val := bitVal{}
					if c, ok := x.Results[0].(*ssa.Call); ok {
						if cal := c.Call.StaticCallee(); cal != nil && cal.Name() == "Uint64" && len(c.Call.Args) == 1 {
							val = operand(st, c.Call.Args[0])
						}
					}
					outs = append(outs, outcome{st.flag, val, x.Pos()})
				}
				return
			}
		}
		iff, isIf := b.Instrs[len(b.Instrs)-1].(*ssa.If)
		for si, s := range b.Succs {
			ns := &pathState{cells: map[ssa.Value]bitVal{}, flag: st.flag}
			for k, v := range st.cells {
				ns.cells[k] = v
			}
			if isIf && len(b.Succs) == 2 {
				cond := iff.Cond
				neg := false
				if u, ok := cond.(*ssa.UnOp); ok && u.Op == token.NOT {
					cond, neg = u.X, true
				}
				if c, ok := cond.(*ssa.Call); ok {
					if cal := c.Call.StaticCallee(); cal != nil && cal.Name() == "IsZero" && len(c.Call.Args) == 1 {
						v := operand(st, c.Call.Args[0])
						if v.kind == 2 && v.shift == 0 && v.mask.Cmp(big.NewInt(1)) == 0 {
							flagTested = true
							zero := (si == 0) != neg
							if zero {
								ns.flag = 1
							} else {
								ns.flag = 2
							}
						}
					}
				}
			}
			walk(s, ns, on)
		}
	}
	walk(dec.Blocks[0], &pathState{cells: map[ssa.Value]bitVal{}}, map[*ssa.BasicBlock]bool{})
	if paths > 512 {
		r.undecided(rule, key, w.pos(dec.Pos()), "too many paths in the header decoder")
		return
	}
	if !flagTested {
		r.violated(rule, key+"/flag", w.pos(dec.Pos()), "no branch of the decoder tests the encoding flag as bit 0 of the storage word (IsZero of W & 1): in-place and out-of-place strings are not told apart by the flag Solidity sets")
	} else {
		r.holds(rule, key+"/flag", w.pos(dec.Pos()), "the decoder branches on W & 1, the encoding flag")
	}
	m1f, m7f := big.NewInt(0x1f), big.NewInt(0x7f)
	full := new(big.Int).Rsh(allOnes256, 1)
	n := 0
	seen := map[string]bool{}
	for _, o := range outs {
		var what, bad string
		switch o.flag {
		case 1:
			what = "in-place"
			switch {
			case o.val.kind != 2:
				bad = "the returned length is not a bit-slice of the header word (" + o.val.String() + ")"
			case o.val.shift != 1:
				bad = fmt.Sprintf("the returned length is %s: the length byte holds 2*length, it must be shifted right by exactly one bit", o.val)
			case new(big.Int).AndNot(o.val.mask, m7f).Sign() != 0:
				bad = fmt.Sprintf("the returned length is %s: only bits 1..7 of the word (the length byte without the flag) may contribute; a wider mask lets string data leak into the length", o.val)
			case new(big.Int).AndNot(m1f, o.val.mask).Sign() != 0:
				bad = fmt.Sprintf("the returned length is %s: lengths up to 31 need bits 1..5 of the word", o.val)
			}
		case 2:
			what = "out-of-place"
			switch {
			case o.val.kind != 2:
				bad = "the returned length is not a bit-slice of the header word (" + o.val.String() + ")"
			case o.val.shift != 1 || o.val.mask.Cmp(full) != 0:
				bad = fmt.Sprintf("the returned length is %s: the out-of-place header holds 2*length+1, the length is the whole word shifted right by one bit", o.val)
			}
		default:
			what = "flag-untested"
			bad = "a successful return is reached on a path that never tested the encoding flag"
		}
		k := fmt.Sprintf("%s/%s:%s", key, what, o.val)
		if seen[k] {
			continue
		}
		seen[k] = true
		n++
		if bad != "" {
			r.violated(rule, k, w.pos(o.pos), what+" path: "+bad)
		} else {
			r.holds(rule, k, w.pos(o.pos), what+" path returns "+o.val.String())
		}
	}
	if n < 2 {
		r.violated(rule, key+"/instance-count", w.pos(dec.Pos()), fmt.Sprintf("expected successful returns for both the in-place and the out-of-place form, found %d", n))
	}
	r.need(rule, 3)
	_ = strings.TrimSpace
}
