package main

// C09, relational part: linear post-conditions of the two change-journal instructions, decided by
// the same guard-entailment engine as the bounds obligations (E3), plus an affine progression
// analysis of the slot key inside the long-string loop.
//
//   R9.5 packed layout: the slice of the storage word handed to the recorder by the value journal
//        is word[lo:hi] with hi + offset = 32 and hi - lo = width, where offset is the very operand
//        handed to the recorder and width is another stack operand (Solidity packs a field of
//        width w at byte offset o into big-endian bytes [32-o-w, 32-o)).
//   R9.6 length agreement: on every path of the reference journal the byte string handed to the
//        recorder has exactly the decoded length (len(value) = length), where length is result 0 of
//        the decoder applied to the storage word.
//   R9.7 slot progression: the storage reads of the long-string loop use the keys
//        keccak(slot)+0, +1, +2, …: on every path from the definition of the base to the first
//        read the accumulated increment is 0, and between two consecutive reads it is exactly 1.
//
// Each is a necessary condition of "records exactly its content": a value of another length, a
// field cut at other bounds or a data word fetched from another slot cannot be the content.

import (
	"fmt"
	"go/constant"
	"go/token"
	"go/types"
	"sort"

	"golang.org/x/tools/go/ssa"
)

// journalSave finds the single recorder call of a change-journal instruction and its storage reads.
func journalSave(fn *ssa.Function) (save *ssa.Call, n int, gets []*ssa.Call) {
	for _, f2 := range withAnon(fn) {
		for _, b := range f2.Blocks {
			for _, ins := range b.Instrs {
				c, ok := ins.(*ssa.Call)
				if !ok {
					continue
				}
				if c.Call.IsInvoke() && c.Call.Method.Name() == "GetState" {
					gets = append(gets, c)
				}
				if cal := c.Call.StaticCallee(); cal != nil && cal.Name() == "SaveStateChange" {
					save = c
					n++
				}
			}
		}
	}
	return
}

// u64Of: the uint64 readings (Uint64WithOverflow #0 / Uint64) of the 256-bit operand held in alloc p.
func u64Of(fn *ssa.Function, p ssa.Value) []ssa.Value {
	var out []ssa.Value
	for _, b := range fn.Blocks {
		for _, ins := range b.Instrs {
			c, ok := ins.(*ssa.Call)
			if !ok {
				continue
			}
			cal := c.Call.StaticCallee()
			if cal == nil || len(c.Call.Args) != 1 || c.Call.Args[0] != p || !isBignumPtr(c.Call.Args[0].Type()) {
				continue
			}
			switch cal.Name() {
			case "Uint64":
				out = append(out, c)
			case "Uint64WithOverflow":
				for _, rf := range *c.Referrers() {
					if ex, ok := rf.(*ssa.Extract); ok && ex.Index == 0 {
						out = append(out, ex)
					}
				}
			}
		}
	}
	return out
}

// poppedOperands: the local 256-bit cells of fn that are initialised from Stack.pop().
func poppedOperands(fn *ssa.Function) []*ssa.Alloc {
	var out []*ssa.Alloc
	for _, b := range fn.Blocks {
		for _, ins := range b.Instrs {
			st, ok := ins.(*ssa.Store)
			if !ok {
				continue
			}
			a, isAlloc := st.Addr.(*ssa.Alloc)
			c, isCall := st.Val.(*ssa.Call)
			if !isAlloc || !isCall {
				continue
			}
			if cal := c.Call.StaticCallee(); cal != nil && cal.Name() == "pop" && typeBaseName(cal.Signature.Recv().Type()) == "Stack" {
				out = append(out, a)
			}
		}
	}
	return out
}

func (a *ranger) provesEq(at *ssa.BasicBlock, x, y lin) bool {
	return a.proves(at, le(x, y)) && a.proves(at, le(y, x))
}

func addLayoutRule(w *World, r *Report, rule string) {
	key := "vm.opValueChangeJournal"
	fn := w.Func(forkPath(pkVM), "opValueChangeJournal")
	if fn == nil {
		r.undecided(rule, key, "-", "function not found")
		return
	}
	save, n, gets := journalSave(fn)
	if n != 1 || save.Parent() != fn || len(save.Call.Args) < 6 {
		r.undecided(rule, key, w.pos(fn.Pos()), "no single recorder call in the instruction body (R9.2)")
		return
	}
	sl, ok := save.Call.Args[5].(*ssa.Slice)
	if !ok || sl.High == nil || sl.Low == nil {
		r.undecided(rule, key, w.pos(save.Pos()), "the recorded value is not a two-sided slice expression of the storage word; layout relation cannot be read off")
		return
	}
	// the sliced array is the word read from storage
	word, isAlloc := sl.X.(*ssa.Alloc)
	fromRead := false
	if isAlloc {
		for _, rf := range *word.Referrers() {
			if st, ok := rf.(*ssa.Store); ok && st.Addr == ssa.Value(word) {
				v := st.Val
				if ct, ok := v.(*ssa.ChangeType); ok {
					v = ct.X
				}
				fromRead = false
				for _, g := range gets {
					if v == ssa.Value(g) {
						fromRead = true
					}
				}
				if !fromRead {
					break
				}
			}
		}
	}
	if !fromRead {
		r.violated(rule, key+"/word", w.pos(sl.Pos()), "the bytes handed to the recorder are not sliced from the storage word read by this instruction")
		return
	}
	env := w.rangeEnv()
	a := env.analyse(fn)
	at := save.Block()
	hi, lo := a.lin(sl.High, at), a.lin(sl.Low, at)
	offs := u64Of(fn, save.Call.Args[3])
	if len(offs) == 0 {
		r.violated(rule, key+"/offset", w.pos(save.Pos()), "the offset operand handed to the recorder is never read as an integer: the slice bounds cannot depend on it")
		return
	}
	okOff := false
	lossy := ""
	for _, o := range offs {
		if a.provesEq(at, hi.plus(a.lin(o, at)), konst64(32)) {
			if okR, why := losslessReading(o, at); okR {
				okOff = true
			} else {
				lossy = "offset: " + why
			}
		}
	}
	if okOff {
		r.holds(rule, key+"/hi+offset=32", w.pos(sl.Pos()), "upper bound of the recorded slice + offset operand = 32 is entailed at the recorder call")
	} else {
		r.violated(rule, key+"/hi+offset=32", w.pos(sl.Pos()), fmt.Sprintf("upper slice bound %s: `hi + offset = 32` is not entailed — the field of a slot at byte offset o ends at big-endian byte 32-o", hi))
	}
	okW := false
	nW := 0
	for _, p := range poppedOperands(fn) {
		if ssa.Value(p) == save.Call.Args[3] || ssa.Value(p) == save.Call.Args[2] {
			continue
		}
		for _, u := range u64Of(fn, p) {
			nW++
			if a.provesEq(at, hi.minus(lo), a.lin(u, at)) {
				if okR, why := losslessReading(u, at); okR {
					okW = true
				} else {
					lossy = "width: " + why
				}
			}
		}
	}
	if okW {
		r.holds(rule, key+"/hi-lo=width", w.pos(sl.Pos()), "length of the recorded slice = width operand is entailed at the recorder call")
	} else {
		r.violated(rule, key+"/hi-lo=width", w.pos(sl.Pos()), fmt.Sprintf("slice length %s: `hi - lo = width` is not entailed for any of the %d integer readings of the other stack operands", hi.minus(lo), nW))
	}
	if lossy != "" {
		r.violated(rule, key+"/lossless-operands", w.pos(sl.Pos()), "the slice bounds are computed from a lossy reading of a 256-bit operand ("+lossy+"): an operand of 2^64 or more would be accepted as a small one instead of being rejected")
	} else {
		r.holds(rule, key+"/lossless-operands", w.pos(sl.Pos()), "offset and width are read from their 256-bit operands without dropping upper bits (overflow flag tested on the way)")
	}
	if a.undecided {
		r.undecided(rule, key+"/fm", w.pos(sl.Pos()), "elimination cut off")
	}
}

// decodedLength: result 0 of the call (inside fn) that decodes the first storage word read: a call
// returning (uint64, error) one of whose arguments is computed from that read.
func decodedLength(fn *ssa.Function, gets []*ssa.Call) ssa.Value {
	var first *ssa.Call
	for _, g := range gets {
		if g.Parent() == fn && !blockReaches(g.Block(), g.Block()) {
			if first == nil || g.Block().Dominates(first.Block()) {
				first = g
			}
		}
	}
	if first == nil {
		return nil
	}
	for _, b := range fn.Blocks {
		for _, ins := range b.Instrs {
			c, ok := ins.(*ssa.Call)
			if !ok {
				continue
			}
			tup, ok := c.Type().(*types.Tuple)
			if !ok || tup.Len() != 2 {
				continue
			}
			if bt, ok := tup.At(0).Type().Underlying().(*types.Basic); !ok || bt.Kind() != types.Uint64 {
				continue
			}
			dep := false
			for _, arg := range c.Call.Args {
				if dependsOn(arg, first, 5) {
					dep = true
				}
			}
			if !dep {
				continue
			}
			for _, rf := range *c.Referrers() {
				if ex, ok := rf.(*ssa.Extract); ok && ex.Index == 0 {
					return ex
				}
			}
		}
	}
	return nil
}

func addLengthAgreementRule(w *World, r *Report, rule string) {
	key := "vm.opReferenceChangeJournal"
	fn := w.Func(forkPath(pkVM), "opReferenceChangeJournal")
	if fn == nil {
		r.undecided(rule, key, "-", "function not found")
		return
	}
	save, n, gets := journalSave(fn)
	if n != 1 || save.Parent() != fn || len(save.Call.Args) < 6 {
		r.undecided(rule, key, w.pos(fn.Pos()), "no single recorder call in the instruction body (R9.2)")
		return
	}
	L := decodedLength(fn, gets)
	if L == nil {
		r.undecided(rule, key, w.pos(fn.Pos()), "no decoder call (uint64, error) applied to the storage word found")
		return
	}
	env := w.rangeEnv()
	a := env.analyse(fn)
	// every way the recorded value can be produced: split at phis (one obligation per incoming edge)
	type leaf struct {
		v  ssa.Value
		at *ssa.BasicBlock
		via string
	}
	var leaves []leaf
	seen := map[ssa.Value]bool{}
	var walk func(v ssa.Value, at *ssa.BasicBlock, via string)
	walk = func(v ssa.Value, at *ssa.BasicBlock, via string) {
		if p, ok := v.(*ssa.Phi); ok && !seen[v] {
			seen[v] = true
			for i, e := range p.Edges {
				walk(e, p.Block().Preds[i], fmt.Sprintf("%s<-b%d", via, p.Block().Preds[i].Index))
			}
			return
		}
		leaves = append(leaves, leaf{v, at, via})
	}
	walk(save.Call.Args[5], save.Block(), "value")
	sort.Slice(leaves, func(i, j int) bool { return leaves[i].via < leaves[j].via })
	for i, lf := range leaves {
		k := fmt.Sprintf("%s/path#%d", key, i+1)
		pos := w.pos(save.Pos())
		if ins, ok := lf.v.(ssa.Instruction); ok && ins.Pos().IsValid() {
			pos = w.pos(ins.Pos())
		}
		ln := a.lenOf(lf.v, lf.at)
		if a.provesEq(lf.at, ln, a.lin(L, lf.at)) {
			r.holds(rule, k, pos, "len(recorded value) = decoded length is entailed on this path")
		} else {
			what := fmt.Sprintf("len(recorded value) = %s: equality with the decoded length is not entailed on this path (%s)", ln, lf.via)
			if _, isPhi := lf.v.(*ssa.Phi); isPhi {
				what += "; the value is built up by a loop and is handed to the recorder as accumulated, without being cut to the decoded length"
			}
			r.violated(rule, k, pos, what)
		}
	}
	if a.undecided {
		r.undecided(rule, key+"/fm", w.pos(save.Pos()), "elimination cut off")
	}
}

// ---- R9.7 slot progression --------------------------------------------------------------------

// recvReturning: the uint256 method returns its receiver on every path (checked on its SSA).
func (w *World) recvReturning(f *ssa.Function) bool {
	if f == nil || f.Signature.Recv() == nil {
		return false
	}
	if f.Blocks == nil && f.Pkg != nil {
		f.Pkg.Build() // dependency packages are created but not built by the loader
	}
	if f.Blocks == nil || len(f.Params) == 0 {
		return false
	}
	res := f.Signature.Results()
	if res.Len() != 1 || !types.Identical(res.At(0).Type(), f.Params[0].Type()) {
		return false
	}
	var isRecv func(v ssa.Value, d int) bool
	isRecv = func(v ssa.Value, d int) bool {
		if v == ssa.Value(f.Params[0]) {
			return true
		}
		if d == 0 {
			return false
		}
		switch x := v.(type) {
		case *ssa.Call:
			if c := x.Call.StaticCallee(); c != nil && c != f && len(x.Call.Args) > 0 && w.recvReturningMemo(c) {
				return isRecv(x.Call.Args[0], d-1)
			}
		case *ssa.Phi:
			for _, e := range x.Edges {
				if !isRecv(e, d-1) {
					return false
				}
			}
			return true
		}
		return false
	}
	for _, b := range f.Blocks {
		if ret, ok := b.Instrs[len(b.Instrs)-1].(*ssa.Return); ok {
			if len(ret.Results) != 1 || !isRecv(ret.Results[0], 4) {
				return false
			}
		}
	}
	return true
}

var recvRetMemo = map[*ssa.Function]int{}

func (w *World) recvReturningMemo(f *ssa.Function) bool {
	switch recvRetMemo[f] {
	case 1:
		return true
	case 2, 3:
		return false
	}
	recvRetMemo[f] = 3 // in progress: cycles are "no"
	if w.recvReturning(f) {
		recvRetMemo[f] = 1
		return true
	}
	recvRetMemo[f] = 2
	return false
}

// globalUint256Const: the value n of a package-level `x = uint256.NewInt(n)` of vm, -1 if unknown.
func (w *World) globalUint256Const(g *ssa.Global) int64 {
	if g.Pkg == nil {
		return -1
	}
	init := g.Pkg.Func("init")
	if init == nil {
		return -1
	}
	val := int64(-1)
	n := 0
	for _, f := range withAnon(init) {
		for _, b := range f.Blocks {
			for _, ins := range b.Instrs {
				st, ok := ins.(*ssa.Store)
				if !ok || st.Addr != ssa.Value(g) {
					continue
				}
				n++
				c, ok := st.Val.(*ssa.Call)
				if !ok {
					return -1
				}
				cal := c.Call.StaticCallee()
				if cal == nil || cal.Name() != "NewInt" || len(c.Call.Args) != 1 {
					return -1
				}
				k, ok := c.Call.Args[0].(*ssa.Const)
				if !ok || k.Value == nil || k.Value.Kind() != constant.Int {
					return -1
				}
				val, _ = constant.Int64Val(k.Value)
			}
		}
	}
	if n != 1 {
		return -1
	}
	return val
}

func init() {
	debugCmds["recvret"] = func() {
		w, err := loadWorld(false, true)
		if err != nil {
			fmt.Println(err)
			return
		}
		sp := w.Prog.ImportedPackage("github.com/holiman/uint256")
		fmt.Println("pkg", sp != nil)
		if sp == nil {
			return
		}
		T := sp.Type("Int")
		ms := w.Prog.MethodSets.MethodSet(types.NewPointer(T.Type()))
		for i := 0; i < ms.Len(); i++ {
			f := w.Prog.MethodValue(ms.At(i))
			sp.Build()
			fmt.Println(f.Name(), f.Blocks != nil, f.Pkg == sp, f.Synthetic, w.recvReturningMemo(f))
		}
	}
}


// addStateSourceRule (R9.8, shared with C10): every storage read of a journal instruction goes to the
// EVM's current StateDB — the receiver of GetState is a load of the field EVM.StateDB — never to a copy
// cached elsewhere (the host may replace the StateDB of a live EVM through Reset).
func addStateSourceRule(w *World, r *Report, rule string) {
	n := 0
	for _, js := range w.journalSlots() {
		fn := w.Func(forkPath(pkVM), js.execute)
		if fn == nil {
			continue
		}
		for _, f2 := range journalFamilyFuncs(fn) {
			ord := 0
			for _, b := range f2.Blocks {
				for _, ins := range b.Instrs {
					c, ok := ins.(*ssa.Call)
					if !ok || !c.Call.IsInvoke() || typeBaseName(c.Call.Value.Type()) != "StateDB" {
						continue
					}
					ord++
					n++
					key := fmt.Sprintf("%s/state-read#%d:%s", relName(f2), ord, c.Call.Method.Name())
					okSrc := false
					if u, isLoad := c.Call.Value.(*ssa.UnOp); isLoad && u.Op == token.MUL {
						if fa, isFA := u.X.(*ssa.FieldAddr); isFA && fieldID(fa) == "P0.EVM.StateDB" {
							okSrc = true
						}
					}
					if okSrc {
						r.holds(rule, key, w.pos(c.Pos()), "reads through the EVM's current StateDB field")
					} else {
						r.violated(rule, key, w.pos(c.Pos()), "the StateDB consulted is not the EVM's current one (EVM.StateDB loaded at this point) but "+rootDesc(c.Call.Value)+": after EVM.Reset replaced the StateDB the journal would decode another state than the executing contract's")
					}
				}
			}
		}
	}
	r.need(rule, 3)
	_ = n
}
