package main

// C19 R19.2: declared sub-trace count = number of emitted children, as a structural rule on the
// flattening functions (AST with resolved objects). In every function that assigns a frame's
// Subtraces:
//   - the right-hand side is a sum of len(<input>.<Collection>) terms;
//   - the collections ranged over by loops that emit recursively (a call of a flattening function in
//     the loop body) are exactly those collections;
//   - a collection ranged over once is emitted unconditionally (no continue/break/return-nil before
//     the emission other than the error propagation of the emission itself);
//   - a collection ranged over twice is split by complementary guards: one loop skips an element
//     exactly when the other emits it (`if c { continue }` / `if !c { continue }` with the same c).
// Necessary for "sub-trace counts equal the number of emitted children" and for "every frame emitted
// exactly once" at the level of one flattening step.

import (
	"fmt"
	"go/ast"
	"go/token"
	"go/types"
	"os"
	"path/filepath"
	"sort"
	"strings"

	"golang.org/x/tools/go/ssa"
)

// flattenDecls: the functions of tracers/native that assign a frame's Subtraces (the flattening functions).
func flattenDecls(w *World) []*ast.FuncDecl {
	p := w.Pkgs[forkPath(pkNative)]
	var out []*ast.FuncDecl
	if p == nil {
		return nil
	}
	isFl := map[string]bool{}
	fns, _ := flattenFuncs(w)
	for _, fn := range fns {
		if fn.Signature.Recv() == nil {
			isFl[fn.Name()] = true
		}
	}
	for _, f := range p.Syntax {
		for _, d := range f.Decls {
			fd, ok := d.(*ast.FuncDecl)
			if !ok || fd.Body == nil {
				continue
			}
			if fd.Recv == nil && isFl[fd.Name.Name] {
				out = append(out, fd)
			}
		}
	}
	sort.Slice(out, func(i, j int) bool { return out[i].Name.Name < out[j].Name.Name })
	return out
}

// addLoopVarAddressRule (R19.6): the module's language version gives one variable per range loop, not
// one per iteration; the emitted frames keep pointers into what they are built from (From, To, Gas,
// GasUsed …), so the address of a range variable (or of a field of it) handed to a frame builder makes
// every frame of the loop report the last element's values. In the flattening functions the address
// operator is never applied to a range variable; a per-iteration copy declared inside the body is.
func addLoopVarAddressRule(w *World, r *Report, rule string) {
	p := w.Pkgs[forkPath(pkNative)]
	info := p.TypesInfo
	perIteration := false
	goVersion := "?"
	if b, err := os.ReadFile(filepath.Join(w.RepoDir, "go.mod")); err == nil {
		for _, ln := range strings.Split(string(b), "\n") {
			f := strings.Fields(ln)
			if len(f) == 2 && f[0] == "go" {
				goVersion = f[1]
			}
		}
	}
	{
		var maj, min int
		if n, _ := fmt.Sscanf(goVersion, "%d.%d", &maj, &min); n == 2 {
			perIteration = maj > 1 || (maj == 1 && min >= 22)
		}
	}
	n := 0
	for _, fd := range flattenDecls(w) {
		key := "tracers/native." + declRelName(fd)
		var bad []string
		loops := 0
		ast.Inspect(fd.Body, func(nd ast.Node) bool {
			rs, ok := nd.(*ast.RangeStmt)
			if !ok {
				return true
			}
			loops++
			vars := map[types.Object]bool{}
			for _, e := range []ast.Expr{rs.Key, rs.Value} {
				if id, ok := e.(*ast.Ident); ok && id.Name != "_" {
					if o := info.Defs[id]; o != nil {
						vars[o] = true
					}
				}
			}
			ast.Inspect(rs.Body, func(m ast.Node) bool {
				u, ok := m.(*ast.UnaryExpr)
				if !ok || u.Op != token.AND {
					return true
				}
				// &v, &v.f, &v[i] …: find the root identifier
				e := ast.Unparen(u.X)
				for {
					switch x := e.(type) {
					case *ast.SelectorExpr:
						e = ast.Unparen(x.X)
						continue
					case *ast.IndexExpr:
						e = ast.Unparen(x.X)
						continue
					}
					break
				}
				if id, ok := e.(*ast.Ident); ok && vars[info.Uses[id]] {
					bad = append(bad, "address of the range variable "+id.Name+" taken at "+w.pos(u.Pos()))
				}
				return true
			})
			return true
		})
		n++
		switch {
		case perIteration:
			r.holds(rule, key, w.pos(fd.Pos()), "the module's language version gives every iteration its own variable")
		case len(bad) > 0:
			r.violated(rule, key, w.pos(fd.Pos()), strings.Join(bad, "; ")+": with one variable per loop (go "+goVersion+") every frame built from it points at the same storage and reports the last element's values")
		default:
			r.holds(rule, key, w.pos(fd.Pos()), fmt.Sprintf("%d range loops; the address operator is applied to per-iteration copies only", loops))
		}
	}
	r.need(rule, 2)
	_ = n
}

// addSiblingGuardRule (R19.7): the flattening functions are siblings: each discards the frame's Result
// under a guard, and the guards must be the same condition over the function's own input (the record
// being flattened) — in particular not over the frame being built, whose Error field has by then been
// rewritten by the optional parity conversion.
// (superseded by the SSA form in c19guard.go and no longer called)
func addSiblingGuardRuleAST(w *World, r *Report, rule string) {
	p := w.Pkgs[forkPath(pkNative)]
	info := p.TypesInfo
	c := &astCanon{info: info}
	type guard struct {
		fn   string
		cond string
		pos  token.Pos
		onInput bool
	}
	var gs []guard
	for _, fd := range flattenDecls(w) {
		var input types.Object
		if fd.Type.Params != nil && len(fd.Type.Params.List) > 0 && len(fd.Type.Params.List[0].Names) > 0 {
			input = info.Defs[fd.Type.Params.List[0].Names[0]]
		}
		ast.Inspect(fd.Body, func(nd ast.Node) bool {
			ifs, ok := nd.(*ast.IfStmt)
			if !ok {
				return true
			}
			discards := false
			for _, st := range ifs.Body.List {
				if as, ok := st.(*ast.AssignStmt); ok && len(as.Lhs) == 1 && len(as.Rhs) == 1 {
					if sel, ok := as.Lhs[0].(*ast.SelectorExpr); ok && sel.Sel.Name == "Result" && isNilExpr(info, as.Rhs[0]) {
						discards = true
					}
				}
			}
			if !discards {
				return true
			}
			// every identifier of the condition other than package-level names must be the input parameter
			onInput := true
			ast.Inspect(ifs.Cond, func(m ast.Node) bool {
				if id, ok := m.(*ast.Ident); ok {
					if v, ok := info.Uses[id].(*types.Var); ok && !v.IsField() && !(v.Pkg() != nil && v.Parent() == v.Pkg().Scope()) && types.Object(v) != input {
						onInput = false
					}
				}
				return true
			})
			cond := c.expr(ifs.Cond)
			if input != nil {
				// print the input parameter by position
				cond = replaceIdent(cond, input.Name(), "$in")
			}
			gs = append(gs, guard{declRelName(fd), cond, ifs.Pos(), onInput})
			return true
		})
	}
	if len(gs) < 2 {
		r.undecided(rule, "tracers/native.flatten/result-discard", "-", fmt.Sprintf("expected a result-discard guard in each of the flattening functions, found %d: the rule's anchors no longer resolve", len(gs)))
		return
	}
	for _, g := range gs {
		key := "tracers/native." + g.fn + "/result-discard"
		switch {
		case !g.onInput:
			r.violated(rule, key, w.pos(g.pos), "the guard that discards the frame's Result is not a condition over the record being flattened (`"+g.cond+"`): fields of the frame under construction have already been rewritten (parity error conversion)")
		case g.cond != gs[0].cond:
			r.violated(rule, key, w.pos(g.pos), "the guard that discards the frame's Result (`"+g.cond+"`) differs from its sibling's in "+gs[0].fn+" (`"+gs[0].cond+"`)")
		default:
			r.holds(rule, key, w.pos(g.pos), "same condition over the input record as in the sibling flattening function(s): "+g.cond)
		}
	}
	r.need(rule, 2)
}

// addExitClosesLastRule (R19.8): Aspect executions of one call frame do not nest (an Aspect's own calls
// open new call frames), so the execution an exit event completes is the one opened last:
// CaptureAspectEnter appends an element to the frame's JoinPoints, and every write CaptureAspectExit
// makes into an element of JoinPoints (field stores and pointer-receiver method calls such as
// processOutput) must address the element with index len(JoinPoints)-1. Decided by E3 entailment of
// idx = len-1 at the write. Matching by join-point type from the front completes the wrong execution
// as soon as two Aspects are bound to the same join point.
func addExitClosesLastRule(w *World, r *Report, rule string) {
	fn := w.Func(forkPath(pkNative), "(*callTracer).CaptureAspectExit")
	key := "tracers/native.(*callTracer).CaptureAspectExit"
	if fn == nil {
		r.undecided(rule, key, "-", "function not found: the rule's anchor does not resolve")
		return
	}
	a := w.rangeEnv().analyse(fn)
	isJP := func(ia *ssa.IndexAddr) bool {
		u, ok := ia.X.(*ssa.UnOp)
		if !ok || u.Op != token.MUL {
			return false
		}
		fa, ok := u.X.(*ssa.FieldAddr)
		return ok && strings.HasSuffix(fieldID(fa), ".JoinPoints")
	}
	seen := map[*ssa.IndexAddr]bool{}
	n := 0
	check := func(ia *ssa.IndexAddr, what string, pos token.Pos) {
		if seen[ia] {
			return
		}
		seen[ia] = true
		n++
		k := fmt.Sprintf("%s/element-write#%d", key, n)
		b := ia.Block()
		idx := a.lin(ia.Index, b)
		want := a.lenOf(ia.X, b).minus(konst64(1))
		if a.proves(b, le(idx, want)) && a.proves(b, le(want, idx)) {
			r.holds(rule, k, w.pos(pos), what+": the element written is JoinPoints[len-1], the execution opened last")
		} else {
			r.violated(rule, k, w.pos(pos), what+": the element written (index "+idx.String()+") is not entailed to be the last one (len-1 = "+want.String()+"): with two Aspects bound to the same join point the exit of the second completes the first again and the second stays without gas used, output and error")
		}
	}
	for _, b := range fn.Blocks {
		for _, ins := range b.Instrs {
			switch x := ins.(type) {
			case *ssa.Store:
				if fa, ok := x.Addr.(*ssa.FieldAddr); ok {
					if ia, ok := fa.X.(*ssa.IndexAddr); ok && isJP(ia) {
						check(ia, "store to "+fieldID(fa), x.Pos())
					}
				}
			case ssa.CallInstruction:
				c := x.Common()
				if cal := c.StaticCallee(); cal != nil && len(c.Args) > 0 {
					if ia, ok := c.Args[0].(*ssa.IndexAddr); ok && isJP(ia) {
						check(ia, "call of "+cal.Name(), ins.Pos())
					}
				}
			}
		}
	}
	if n == 0 {
		r.undecided(rule, key, w.pos(fn.Pos()), "CaptureAspectExit writes no element of JoinPoints: the rule's anchor does not resolve")
	}
	r.need(rule, 1)
}

func replaceIdent(s, name, with string) string {
	if name == "" {
		return s
	}
	var sb strings.Builder
	for i := 0; i < len(s); {
		if strings.HasPrefix(s[i:], name) && (i == 0 || !isIdentChar(s[i-1])) && (i+len(name) == len(s) || !isIdentChar(s[i+len(name)])) {
			sb.WriteString(with)
			i += len(name)
			continue
		}
		sb.WriteByte(s[i])
		i++
	}
	return sb.String()
}
