package main

// C19 R19.2: declared sub-trace count = number of emitted children, as a structural rule on the
// flattening functions (AST with resolved objects). In every function that assigns a frame's
// Subtraces:
//   - the right-hand side is a sum of len(<input>.<Collection>) terms;
//   - the collections ranged over by loops that emit recursively (a call of a flattening function in
//     the loop body) are exactly those collections;
//   - a collection ranged over once is emitted unconditionally (no continue/break/return-nil before
//     the emission other than the error propagation of the emission itself);
//   - a collection ranged over twice is split by complementary guards: one loop skips an element
//     exactly when the other emits it (`if c { continue }` / `if !c { continue }` with the same c).
// Necessary for "sub-trace counts equal the number of emitted children" and for "every frame emitted
// exactly once" at the level of one flattening step.

import (
	"fmt"
	"go/ast"
	"go/token"
	"go/types"
	"sort"
	"strings"
)

func addSubtraceRule(w *World, r *Report, rule string) {
	p := w.Pkgs[forkPath(pkNative)]
	if p == nil {
		r.undecided(rule, "tracers/native", "-", "package not loaded")
		return
	}
	info := p.TypesInfo
	// flattening functions: those that assign <x>.Subtraces
	isFlatten := map[types.Object]bool{}
	type site struct {
		fd  *ast.FuncDecl
		as  *ast.AssignStmt
	}
	var sites []site
	for _, f := range p.Syntax {
		for _, d := range f.Decls {
			fd, ok := d.(*ast.FuncDecl)
			if !ok || fd.Body == nil {
				continue
			}
			ast.Inspect(fd.Body, func(n ast.Node) bool {
				as, ok := n.(*ast.AssignStmt)
				if !ok || len(as.Lhs) != 1 || len(as.Rhs) != 1 {
					return true
				}
				if sel, ok := as.Lhs[0].(*ast.SelectorExpr); ok && sel.Sel.Name == "Subtraces" {
					if _, isField := info.Uses[sel.Sel].(*types.Var); isField {
						sites = append(sites, site{fd, as})
						isFlatten[info.Defs[fd.Name]] = true
					}
				}
				return true
			})
		}
	}
	c := &astCanon{info: info}
	for _, s := range sites {
		key := "tracers/native." + declRelName(s.fd)
		var bad []string
		// terms of the sum
		var terms []string
		var walk func(e ast.Expr) bool
		walk = func(e ast.Expr) bool {
			switch x := ast.Unparen(e).(type) {
			case *ast.BinaryExpr:
				if x.Op != token.ADD {
					return false
				}
				return walk(x.X) && walk(x.Y)
			case *ast.CallExpr:
				if id, ok := x.Fun.(*ast.Ident); ok && id.Name == "len" && len(x.Args) == 1 {
					if _, isBuiltin := info.Uses[id].(*types.Builtin); isBuiltin {
						terms = append(terms, c.expr(x.Args[0]))
						return true
					}
				}
			}
			return false
		}
		if !walk(s.as.Rhs[0]) {
			bad = append(bad, "the sub-trace count is not a sum of len(<collection>) terms: "+c.expr(s.as.Rhs[0]))
		}
		// emitting loops
		type loop struct {
			coll  string
			guard string // "" = unconditional, otherwise the canonical skip condition
			ok    bool
			pos   token.Pos
			keyVar, valVar string
		}
		var loops []loop
		ast.Inspect(s.fd.Body, func(n ast.Node) bool {
			rs, ok := n.(*ast.RangeStmt)
			if !ok {
				return true
			}
			emits := false
			ast.Inspect(rs.Body, func(m ast.Node) bool {
				if call, ok := m.(*ast.CallExpr); ok {
					if id, ok := call.Fun.(*ast.Ident); ok && isFlatten[info.Uses[id]] {
						emits = true
					}
				}
				return true
			})
			if !emits {
				return true
			}
			lp := loop{coll: c.expr(rs.X), ok: true, pos: rs.Pos()}
			if id, ok := rs.Key.(*ast.Ident); ok {
				lp.keyVar = id.Name
			}
			if id, ok := rs.Value.(*ast.Ident); ok {
				lp.valVar = id.Name
			}
			// statements before the emission: at most one `if cond { continue }`
			for _, st := range rs.Body.List {
				hasEmit := false
				ast.Inspect(st, func(m ast.Node) bool {
					if call, ok := m.(*ast.CallExpr); ok {
						if id, ok := call.Fun.(*ast.Ident); ok && isFlatten[info.Uses[id]] {
							hasEmit = true
						}
					}
					return true
				})
				if hasEmit {
					break
				}
				if ifs, ok := st.(*ast.IfStmt); ok {
					skips := false
					ast.Inspect(ifs.Body, func(m ast.Node) bool {
						if b, ok := m.(*ast.BranchStmt); ok && (b.Tok == token.CONTINUE || b.Tok == token.BREAK) {
							skips = true
						}
						if _, ok := m.(*ast.ReturnStmt); ok {
							skips = true
						}
						return true
					})
					if skips {
						if lp.guard != "" || ifs.Init != nil || ifs.Else != nil || len(ifs.Body.List) != 1 {
							lp.ok = false
						}
						if b, isB := ifs.Body.List[0].(*ast.BranchStmt); !isB || b.Tok != token.CONTINUE {
							lp.ok = false
						}
						lp.guard = c.expr(ifs.Cond)
					}
				}
			}
			loops = append(loops, lp)
			return true
		})
		byColl := map[string][]loop{}
		for _, lp := range loops {
			byColl[lp.coll] = append(byColl[lp.coll], lp)
		}
		var colls []string
		for k := range byColl {
			colls = append(colls, k)
		}
		sort.Strings(colls)
		sort.Strings(terms)
		if strings.Join(colls, ",") != strings.Join(dedup(terms), ",") || len(dedup(terms)) != len(terms) {
			bad = append(bad, fmt.Sprintf("collections counted in Subtraces {%s} differ from the collections emitted recursively {%s}", strings.Join(terms, ", "), strings.Join(colls, ", ")))
		}
		// the guards are written over the loop's own element variable; compare modulo that name
		norm := func(g string, lp loop) string {
			repl := func(g, name, with string) string {
				if name == "" || name == "_" {
					return g
				}
				var sb strings.Builder
				for i := 0; i < len(g); {
					if strings.HasPrefix(g[i:], name) && (i == 0 || !isIdentChar(g[i-1])) && (i+len(name) == len(g) || !isIdentChar(g[i+len(name)])) {
						sb.WriteString(with)
						i += len(name)
						continue
					}
					sb.WriteByte(g[i])
					i++
				}
				return sb.String()
			}
			return repl(repl(g, lp.valVar, "$v"), lp.keyVar, "$k")
		}
		for _, k := range colls {
			ls := byColl[k]
			switch len(ls) {
			case 1:
				if ls[0].guard != "" || !ls[0].ok {
					bad = append(bad, "elements of "+k+" are emitted only under a condition ("+ls[0].guard+") but all of them are counted")
				}
			case 2:
				g0, g1 := norm(ls[0].guard, ls[0]), norm(ls[1].guard, ls[1])
				compl := g0 != "" && g1 != "" && (g0 == "!"+g1 || g1 == "!"+g0 || g0 == "!("+g1+")" || g1 == "!("+g0+")")
				if !compl || !ls[0].ok || !ls[1].ok {
					bad = append(bad, fmt.Sprintf("%s is emitted by two loops whose skip conditions `%s` and `%s` are not complementary: an element may be emitted twice or not at all", k, ls[0].guard, ls[1].guard))
				}
			default:
				bad = append(bad, fmt.Sprintf("%s is emitted by %d loops", k, len(ls)))
			}
		}
		if len(bad) > 0 {
			r.violated(rule, key, w.pos(s.as.Pos()), strings.Join(bad, "; "))
		} else {
			r.holds(rule, key, w.pos(s.as.Pos()), fmt.Sprintf("Subtraces = sum of len over {%s}; each of these collections is emitted element by element exactly once (%d emitting loops)", strings.Join(terms, ", "), len(loops)))
		}
	}
	if len(sites) < 2 {
		r.violated(rule, "instance-count", "-", fmt.Sprintf("expected at least 2 flattening functions assigning Subtraces, found %d: the rule's anchors no longer resolve", len(sites)))
	}
	r.need(rule, 2)
}
