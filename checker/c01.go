package main

import (
	"fmt"
	"strings"
)

func init() {
	register("C01", true, true, checkC01)
	register("C02", true, true, checkC02)
	register("C18", true, true, checkC18)
}

func missingRule(s *e1State, r *Report, rule string, pair int) {
	cl := s.cls[pair]
	if declMissingOK[pair] {
		return
	}
	if len(cl.Missing) == 0 {
		r.trivial(rule, pkgShort(pair)+".no-function-dropped", "-", "every function of "+refPath(pair)+" has a counterpart in the fork")
		return
	}
	for _, m := range cl.Missing {
		r.violated(rule, pkgShort(pair)+".missing:"+m, "-", "function "+m+" of the reference has no counterpart in the fork")
	}
}

func checkC01(w *World, tier string) *Report {
	r := newReport("C01")
	s := w.e1()
	r.Explanation = "Sibling agreement with the reference implementation on disk (go-ethereum v1.12.0 in the module cache, same build list): " +
		"R1.1 every fork function of vm, vm/runtime, core that has a reference counterpart is SSA-isomorphic to it after normalisation (package paths, dropped context.Context, fields by name, canonical value/block numbering) or embeds the reference body statement by statement with only admissible insertions (R1.3: fork-local, fork-only-field, tracer-family call, dead-at-zero-Aspect-state guard/loop, reviewed special constructs); " +
		"R1.2 constants, named types, package-level variable initialisers and keyed table literals agree (reviewed renumbering TLOAD/TSTORE, reviewed extra keys); " +
		"R1.4 the insertions cannot influence a standard program: (a) effect summaries of the tracer family, (b) join-point regions only re-assign gas to itself unless the Aspect runtime reports an error, (c) the context-clone block is unreachable for inherited precompile types; " +
		"R1.5 fork-only opcode slots and precompile addresses are assigned only where reviewed. Decides that inherited code is the reference's code and that fork insertions are non-interfering; does not decide StateDB/params/uint256 (same module versions as the reference)."
	for _, pair := range []int{pkVM, pkRuntime, pkCore} {
		s.cloneRule(r, "R1.1", pair, nil)
		missingRule(s, r, "R1.1", pair)
		s.declRule(r, "R1.2", pair)
	}
	r.need("R1.1", 270)
	r.need("R1.2", 3)
	addR14a(w, r, "R1.4a", tier)
	addTableRules(w, r, "R1.5")
	cl := s.cls[pkVM]
	r.Extra["classification_vm"] = map[string]int{"clone": len(cl.names(ClsClone)), "delta": len(cl.names(ClsDelta)), "new": len(cl.names(ClsNew))}
	r.Extra["delta_functions"] = cl.names(ClsDelta)
	r.Extra["module_versions"] = moduleVersions(w)
	r.Assumptions = append(r.Assumptions,
		"the reference source in the module cache is go-ethereum v1.12.0 (go.mod requires exactly that version; go.sum pins its hash)",
		"S-noaspect: with no Aspect bound the Aspect runtime returns Err == nil and Gas == the gas argument (checked against aspect-core source in the thorough tier)",
		"StateDB, params, uint256, crypto are the same module versions in fork and reference build lists",
		"host preconditions: BlockContext.BlockNumber non-nil; djpm.AspectInstance() initialised")
	// the transfer replacement rests on the wrapper calling the host transfer exactly once, unconditionally, with the same arguments
	addR131(w, r, "R13.1")
	addZeroStatePremiseRule(w, r, "R1.6", pkVM, pkRuntime, pkCore, pkTracers, pkNative, pkLogger)
	r.Explanation += " R1.6 (premise of the zero-state argument) every field the fork added to an inherited struct is stored only in fork-only functions that inherited code does not reach through static calls (Aspect event handlers, host-facing setters) or in constructors: ordinary execution never writes it, so code guarded by it is dead without Aspect state."
	return r
}

func moduleVersions(w *World) map[string]string {
	out := map[string]string{}
	for path, p := range w.Pkgs {
		if p.Module != nil && (strings.HasPrefix(path, refMod) || strings.HasPrefix(path, forkMod)) {
			out[p.Module.Path] = p.Module.Version
		}
	}
	return out
}

// gasFiles: files whose functions make up the gas accounting (R2.1 scope).
var gasFiles = map[string]bool{"gas_table.go": true, "gas.go": true, "operations_acl.go": true, "memory_table.go": true, "common.go": true,
	"interpreter.go": true, "evm.go": true, "contract.go": true, "eips.go": true, "jump_table.go": true, "stack_table.go": true, "contracts.go": true, "instructions.go": true, "memory.go": true, "stack.go": true}

func checkC02(w *World, tier string) *Report {
	r := newReport("C02")
	s := w.e1()
	r.Explanation = "Gas agreement with the reference by sibling comparison: R2.1 every gas function, every RequiredGas, RunPrecompiledContract, UseGas/RefundGas, the interpreter loop, the four inherited call entry points and the call/create instructions are SSA-isomorphic to go-ethereum v1.12.0; " +
		"R2.2 the instruction-table constructors and EIP enablers are clones (or embed the reference with extra fork-only keys only) and the constants they are built from have equal values, so constantGas/dynamicGas/memorySize/minStack/maxStack of every standard slot agree; " +
		"R2.3 in Call/create every gas statement of the reference is matched by the embedding and no admissible insertion outside a join-point region writes the variable gas; R2.4 = R1.4(b) join-point regions return gas unchanged under S-noaspect. Refund counter and access list live in StateDB (external), not decided."
	file := func(name string, pr *PairResult) bool {
		f := w.Fset.Position(pr.Fork.Pos()).Filename
		return gasFiles[f[strings.LastIndex(f, "/")+1:]]
	}
	s.cloneRule(r, "R2.1", pkVM, file)
	s.declRule(r, "R2.2", pkVM)
	r.need("R2.1", 250)
	// R2.3: insertions in Call/create never define gas outside JP regions — follows from the insertion classes:
	// a write to `gas` is a write-ref effect, which only JP_REGION admits (and there only as gas = <result>.Gas).
	for _, fn := range []string{"(*EVM).Call", "(*EVM).create"} {
		n := 0
		for _, o := range r.Obls {
			if o.Rule == "R2.1" && strings.HasPrefix(o.Key, "vm."+fn+"/") && o.Status != Holds {
				n++
			}
		}
		if n == 0 {
			r.holds("R2.3", "vm."+fn, "-", "all reference gas statements matched; insertions outside join-point regions have no write to reference variables (so none to gas)")
		} else {
			r.violated("R2.3", "vm."+fn, "-", fmt.Sprintf("%d embedding obligations of %s fail, gas flow not established", n, fn))
		}
	}
	r.need("R2.3", 2)
	addTableRules(w, r, "R2.2t")
	r.Assumptions = append(r.Assumptions, "S-noaspect (see C01)", "refund counter and access list are kept by the host StateDB")
	return r
}

func checkC18(w *World, tier string) *Report {
	r := newReport("C18")
	s := w.e1()
	r.Explanation = "Debug-tracer agreement with the reference by sibling comparison: R18.1 the interpreter loop, the call entry points, SELFDESTRUCT and all functions of tracers, tracers/logger and tracers/native that have a counterpart are SSA-isomorphic to go-ethereum v1.12.0; " +
		"R18.2 Call/create embed the reference, so every CaptureStart/End/Enter/Exit statement of the reference is present in order with equal arguments, and the deferred end/exit is registered before any join-point region; " +
		"R18.3 the DELTA functions of tracers/native embed the reference with insertions that are dead when no Aspect event was received (guards on fork-only fields, loops over fork-only fields, zero addends); R18.4 fork-only fields of serialised frames are omitted from JSON when empty. Output when Aspects are involved is C19's subject."
	vmScope := map[string]bool{"(*EVMInterpreter).Run": true, "(*EVM).Call": true, "(*EVM).CallCode": true, "(*EVM).DelegateCall": true, "(*EVM).StaticCall": true,
		"(*EVM).create": true, "(*EVM).Create": true, "(*EVM).Create2": true, "opSelfdestruct": true, "opSelfdestruct6780": true, "opCall": true, "opCallCode": true, "opDelegateCall": true, "opStaticCall": true, "opCreate": true, "opCreate2": true,
		"NewEVM": true, "NewEVMInterpreter": true,
		// what tracers ask the vm at CaptureStart: the active precompile list, filled by the package initialiser
		"ActivePrecompiles": true, "init#1": true}
	s.cloneRule(r, "R18.1", pkVM, func(n string, pr *PairResult) bool { return vmScope[n] || strings.HasPrefix(n, "init#") })
	r.Explanation += " The clone set of R18.1 includes ActivePrecompiles and the package initialisers that fill the precompile address lists (tracers ask for them at CaptureStart). The SSA comparison prints the collection of every range loop (a loop over another map is another loop)."
	for _, pair := range []int{pkTracers, pkLogger, pkNative} {
		s.cloneRule(r, "R18.1", pair, nil)
		missingRule(s, r, "R18.1", pair)
		s.declRule(r, "R18.1d", pair)
	}
	r.need("R18.1", 150)
	addCaptureBalance(w, r, "R18.2")
	addOmitEmpty(w, r, "R18.4")
	for _, pair := range []int{pkTracers, pkLogger, pkNative} {
		cl := s.cls[pair]
		r.Extra["classification_"+pkgShort(pair)] = map[string]int{"clone": len(cl.names(ClsClone)), "delta": len(cl.names(ClsDelta)), "new": len(cl.names(ClsNew))}
	}
	r.Assumptions = append(r.Assumptions, "JS tracers are not part of the fork", "callstack[0] holds zero values in reference-visible fields before CaptureStart when no Aspect event preceded it")
	// the cost reported with every CaptureState/CaptureFault event is computed by the gas functions
	meter := map[string]bool{"gas_table.go": true, "gas.go": true, "operations_acl.go": true, "memory_table.go": true, "common.go": true}
	s.cloneRule(r, "R18.1g", pkVM, func(name string, pr *PairResult) bool {
		f := w.Fset.Position(pr.Fork.Pos()).Filename
		return meter[f[strings.LastIndex(f, "/")+1:]]
	})
	r.need("R18.1g", 40)
	addZeroStatePremiseRule(w, r, "R1.6", pkVM, pkTracers, pkNative, pkLogger)
	r.Explanation += " R1.6 (premise of the zero-state argument) every field the fork added to an inherited struct is stored only in fork-only functions that inherited code does not reach through static calls (Aspect event handlers, host-facing setters) or in constructors: ordinary execution never writes it, so code guarded by it is dead without Aspect state."
	return r
}
