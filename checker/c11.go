package main

// C11 (partial): structural necessary conditions of "look-ups by name and by slot agree".

import (
	"fmt"
	"go/token"
	"go/types"
	"sort"
	"strings"

	"golang.org/x/tools/go/ssa"
)

func init() {
	register("C11", true, true, checkC11)
}

func checkC11(w *World, tier string) *Report {
	r := newReport("C11")
	r.Explanation = "Structural necessary conditions only — everything that depends on the history of operations (idempotence, exact child sets, agreement after arbitrary sequences) needs a reference model and is not decided: " +
		"R11.1 (SSA path rule, all acyclic paths of saveKey and saveChange) refused means unmodified: no store, map update or mutating recorder call lies on a path that ends in a return with a possibly non-nil error (an error that is the result of a callee whose every return yields a nil error is infeasible and skipped); " +
		"R11.2 (E3) every narrowing conversion of an offset (uint64 -> uint8) in saveKey, saveChange and Slot is entailed lossless by the dominating range check, so offsets beyond 31 are refused rather than aliased onto another offset; " +
		"R11.3 (SSA path rule on AddChild, 'what you index is what you return'): on every path, a node stored into the by-name table childrenIndex on that path is the node returned on that path — only the returned node reaches the flat (slot, offset, type) index through saveKey -> addKey, so a path that indexes one object by name and returns another makes the two look-ups disagree; " +
		"R11.4 who-may-write: the by-name table, the per-parent slot table, the flat index and the roots are written only by AddChild, addKey, saveKey and saveBalance; " +
		"R11.5 write-once node tables: every update that stores a storage-key node into a table (roots, per-parent slot table, by-name table, flat index) is dominated by a test that found the entry absent, so a registered node is never replaced and changes journaled through it stay reachable by every look-up; R11.6 the parent look-up of a nested registration is computed from the parent's own coordinates (account, parent slot, parent type id, constants) and from none of the child's operands; R11.7 every successful return of saveKey has passed AddChild on the resolved parent and addKey (no shortcut that accepts a registration without linking it under its parent and indexing it), and every successful return of saveChange has passed the journal call; R10.5 (shared) the per-call change list depends only on that call's previous list and the new value."
	for _, name := range []string{"(*StateChanges).saveKey", "(*StateChanges).saveChange"} {
		addValidateBeforeMutate(w, r, "R11.1", name)
	}
	r.need("R11.1", 2)
	addConvRule(w, r, "R11.2", []string{"(*StateChanges).saveKey", "(*StateChanges).saveChange", "(*StateChanges).Slot"})
	addIndexReturnRule(w, r, "R11.3")
	ak, sk, ad, sb := "vm.(*StateChanges).addKey", "vm.(*StateChanges).saveKey", "vm.(*StorageKey).AddChild", "vm.(*StateChanges).saveBalance"
	whoMayWrite(w, r, "R11.4", map[string]map[string]bool{
		"P0.StorageKey.childrenIndex": {ad: true}, "P0.StorageKey.children": {ad: true},
		"P0.StateChanges.index": {ak: true}, "P0.StateChanges.roots": {sk: true, sb: true},
		"P0.StorageKey.slot": {}, "P0.StorageKey.offset": {}, "P0.StorageKey.typeId": {}, "P0.StorageKey.data": {},
	})
	r.need("R11.4", 8)
	addWriteOnceRule(w, r, "R11.5")
	addParentLookupRule(w, r, "R11.6")
	addRegistrationPathRule(w, r, "R11.7")
	addNeverFailsRule(w, r, "R11.8")
	addR105(w, r, "R10.5") // a change journaled for a registered key reaches the record on every path (shared with C10/C13)
	addKeyTreeQueryPurityRule(w, r, "R11.9")
	addFullPathLookupRule(w, r, "R11.10")
	addIndexBytesStayInsideRule(w, r, "R11.11")
	r.Explanation += " R11.3 also requires (seventh batch) that the node AddChild returns was read from, or stored into, the per-parent slot table under the child's (slot, offset) on that path — a return taken from the by-name table alone accepts a registration that the slot look-up cannot find. R11.11 the registered index bytes (StorageKey.data, the registering caller's slice) are read only as the operand of a string conversion or len: answers of the tree are built from the immutable by-name keys and never alias caller memory."
	r.Explanation += " R11.9 every method of StorageKey, StateChanges and StorageChanges other than the reviewed mutators stores nothing outside its own locals (no cached child list or memo that registrations would have to keep in step); R11.10 in FindKeyIndices the not-found side of every map look-up leads to `return nil` without a further look-up: a name path answers only when the whole path is registered, as the look-up by slot does."
	return r
}

// alwaysNilError: every return of fn has a constant nil in its last (error) result.
func alwaysNilError(fn *ssa.Function) bool {
	if fn == nil || fn.Blocks == nil {
		return false
	}
	n := 0
	for _, b := range fn.Blocks {
		if ret, ok := b.Instrs[len(b.Instrs)-1].(*ssa.Return); ok {
			n++
			if len(ret.Results) == 0 {
				return false
			}
			c, ok := ret.Results[len(ret.Results)-1].(*ssa.Const)
			if !ok || c.Value != nil {
				return false
			}
		}
	}
	return n > 0
}

// mutatingFuncs: fork functions that (transitively) store through non-local memory.
func (w *World) mutatingFuncs() map[*ssa.Function]bool {
	all := w.forkFuncsAll()
	mut := map[*ssa.Function]bool{}
	for _, fn := range all {
		for _, b := range fn.Blocks {
			for _, ins := range b.Instrs {
				switch x := ins.(type) {
				case *ssa.Store:
					if rt, _, first := addrRoot(x.Addr); !localRoot(rt) && (first != "" || !isLocalAlloc(rt)) {
						mut[fn] = true
					}
				case *ssa.MapUpdate:
					if rt, _, _ := addrRoot(x.Map); !localRoot(rt) {
						mut[fn] = true
					}
				}
			}
		}
	}
	for changed := true; changed; {
		changed = false
		for _, fn := range all {
			if mut[fn] {
				continue
			}
			for _, b := range fn.Blocks {
				for _, ins := range b.Instrs {
					if ci, ok := ins.(ssa.CallInstruction); ok {
						if c := ci.Common().StaticCallee(); c != nil && mut[c] {
							mut[fn] = true
							changed = true
						}
					}
				}
			}
		}
	}
	return mut
}

func isLocalAlloc(v ssa.Value) bool { _, ok := v.(*ssa.Alloc); return ok }

// enumPaths enumerates the acyclic paths from the entry block to every Return.
func enumPaths(fn *ssa.Function, limit int, visit func(path []*ssa.BasicBlock)) bool {
	n := 0
	var rec func(b *ssa.BasicBlock, path []*ssa.BasicBlock, on map[*ssa.BasicBlock]bool) bool
	rec = func(b *ssa.BasicBlock, path []*ssa.BasicBlock, on map[*ssa.BasicBlock]bool) bool {
		if on[b] {
			return true
		}
		path = append(path, b)
		if _, ok := b.Instrs[len(b.Instrs)-1].(*ssa.Return); ok {
			n++
			if n > limit {
				return false
			}
			visit(path)
			return true
		}
		on[b] = true
		for _, s := range b.Succs {
			if !rec(s, path, on) {
				return false
			}
		}
		delete(on, b)
		return true
	}
	return rec(fn.Blocks[0], nil, map[*ssa.BasicBlock]bool{})
}

// resolvePhi follows phi nodes along a concrete path.
func resolvePhi(v ssa.Value, path []*ssa.BasicBlock) ssa.Value {
	for i := 0; i < 16; i++ {
		phi, ok := v.(*ssa.Phi)
		if !ok {
			return v
		}
		idx := -1
		for k, b := range path {
			if b == phi.Block() {
				idx = k
			}
		}
		if idx <= 0 {
			return v
		}
		prev := path[idx-1]
		found := false
		for k, p := range phi.Block().Preds {
			if p == prev {
				v = phi.Edges[k]
				found = true
				break
			}
		}
		if !found {
			return v
		}
	}
	return v
}

func addValidateBeforeMutate(w *World, r *Report, rule, name string) {
	fn := w.Func(forkPath(pkVM), name)
	key := "vm." + name
	if fn == nil {
		r.undecided(rule, key, "-", "function not found")
		return
	}
	mut := w.mutatingFuncs()
	isMutation := func(ins ssa.Instruction) string {
		switch x := ins.(type) {
		case *ssa.Store:
			if rt, _, first := addrRoot(x.Addr); !localRoot(rt) && (first != "" || !isLocalAlloc(rt)) {
				return "store to " + first
			}
		case *ssa.MapUpdate:
			if rt, _, first := addrRoot(x.Map); !localRoot(rt) {
				return "map update of " + first
			}
		case ssa.CallInstruction:
			if c := x.Common().StaticCallee(); c != nil && mut[c] {
				return "call of " + relName(c)
			}
		}
		return ""
	}
	var bad []string
	npaths := 0
	ok := enumPaths(fn, 4096, func(path []*ssa.BasicBlock) {
		npaths++
		last := path[len(path)-1]
		ret := last.Instrs[len(last.Instrs)-1].(*ssa.Return)
		ev := resolvePhi(ret.Results[len(ret.Results)-1], path)
		if c, isK := ev.(*ssa.Const); isK && c.Value == nil {
			return
		}
		if ex, isEx := ev.(*ssa.Extract); isEx {
			if c, isCall := ex.Tuple.(*ssa.Call); isCall && alwaysNilError(c.Call.StaticCallee()) {
				return // the callee never fails: this error return is infeasible
			}
		}
		// the path itself may have established that this error value is nil (`if err != nil { return err }` passed on the false side)
		for i := 0; i+1 < len(path); i++ {
			iff, isIf := path[i].Instrs[len(path[i].Instrs)-1].(*ssa.If)
			if !isIf || len(path[i].Succs) != 2 || path[i].Succs[0] == path[i].Succs[1] {
				continue
			}
			bo, isBo := iff.Cond.(*ssa.BinOp)
			if !isBo || (bo.Op != token.NEQ && bo.Op != token.EQL) {
				continue
			}
			var tested ssa.Value
			if k, isK := bo.Y.(*ssa.Const); isK && k.Value == nil {
				tested = bo.X
			} else if k, isK := bo.X.(*ssa.Const); isK && k.Value == nil {
				tested = bo.Y
			}
			if tested == nil || resolvePhi(tested, path[:i+1]) != ev {
				continue
			}
			nilSucc := path[i].Succs[1] // NEQ: the false side is the nil side
			if bo.Op == token.EQL {
				nilSucc = path[i].Succs[0]
			}
			if path[i+1] == nilSucc {
				return
			}
		}
		for _, b := range path {
			for _, ins := range b.Instrs {
				if m := isMutation(ins); m != "" {
					msg := m + " at " + w.pos(ins.Pos()) + " precedes the error return at " + w.pos(ret.Pos())
					dup := false
					for _, x := range bad {
						if x == msg {
							dup = true
						}
					}
					if !dup {
						bad = append(bad, msg)
					}
				}
			}
		}
	})
	switch {
	case !ok:
		r.undecided(rule, key, w.pos(fn.Pos()), "too many paths")
	case len(bad) > 0:
		sort.Strings(bad)
		r.violated(rule, key, w.pos(fn.Pos()), "a refused operation must not modify the recorder: "+strings.Join(bad, "; "))
	default:
		r.holds(rule, key, w.pos(fn.Pos()), fmt.Sprintf("%d paths: no mutation precedes a feasible error return", npaths))
	}
}

func addConvRule(w *World, r *Report, rule string, names []string) {
	env := w.rangeEnv()
	classOf := w.funcClasses()
	// the named entry points plus every fork helper they call (a range check factored out into a
	// helper is the same check)
	var fns []*ssa.Function
	seen := map[*ssa.Function]bool{}
	var visit func(fn *ssa.Function)
	visit = func(fn *ssa.Function) {
		if fn == nil || seen[fn] || fn.Blocks == nil || !isForkPkg(fn.Pkg) && fn.Parent() == nil {
			return
		}
		top := fn
		for top.Parent() != nil {
			top = top.Parent()
		}
		if c, ok := classOf[top]; ok && c == ClsClone {
			return
		}
		seen[fn] = true
		fns = append(fns, fn)
		for _, b := range fn.Blocks {
			for _, ins := range b.Instrs {
				if ci, ok := ins.(ssa.CallInstruction); ok {
					visit(ci.Common().StaticCallee())
				}
			}
		}
	}
	for _, name := range names {
		fn := w.Func(forkPath(pkVM), name)
		if fn == nil {
			r.undecided(rule, "vm."+name, "-", "function not found")
			continue
		}
		visit(fn)
	}
	n := 0
	for _, fn := range fns {
		a := env.analyse(fn)
		k := 0
		name := strings.TrimPrefix(relName(fn), "vm.")
		for _, b := range fn.DomPreorder() {
			for _, ins := range b.Instrs {
				cv, ok := ins.(*ssa.Convert)
				if !ok || !isIntT(cv.Type()) || !isIntT(cv.X.Type()) {
					continue
				}
				lo, hi := typeRange(cv.Type())
				slo, shi := typeRange(cv.X.Type())
				if lo.Cmp(slo) <= 0 && hi.Cmp(shi) >= 0 {
					continue // widening
				}
				k++
				n++
				key := fmt.Sprintf("vm.%s/conv#%d:%s->%s", name, k, cv.X.Type(), cv.Type())
				src := a.lin(cv.X, b)
				okRead, why := losslessReading(cv.X, b)
				switch {
				case !okRead:
					r.violated(rule, key, w.pos(cv.Pos()), "the converted integer is not a lossless reading of the operand: "+why+" — an operand of 2^64 or more would alias a small offset instead of being refused")
				case a.proves(b, le(konst(lo), src)) && a.proves(b, le(src, konst(hi))):
					r.holds(rule, key, w.pos(cv.Pos()), "lossless: "+src.String()+" is entailed to lie in ["+lo.String()+", "+hi.String()+"], read from the operand without dropping upper bits")
				default:
					r.violated(rule, key, w.pos(cv.Pos()), "the narrowing conversion may truncate "+src.String()+": an out-of-range offset would alias another offset instead of being refused")
				}
			}
		}
	}
	_ = n
	r.need(rule, 1)
}

func addIndexReturnRule(w *World, r *Report, rule string) {
	fn := w.Func(forkPath(pkVM), "(*StorageKey).AddChild")
	if fn == nil {
		r.undecided(rule, "vm.(*StorageKey).AddChild", "-", "function not found")
		return
	}
	isIndexMap := func(m ssa.Value) bool {
		ld, ok := m.(*ssa.UnOp)
		if !ok || ld.Op != token.MUL {
			return false
		}
		fa, ok := ld.X.(*ssa.FieldAddr)
		return ok && fieldID(fa) == "P0.StorageKey.childrenIndex" && fa.X == ssa.Value(fn.Params[0])
	}
	describe := func(v ssa.Value) string {
		switch x := v.(type) {
		case *ssa.Parameter:
			return "the new node `" + x.Name() + "`"
		case *ssa.Extract:
			return "the node already present in the slot table"
		case *ssa.Lookup:
			return "the node already present in a table"
		}
		return v.Name() + " " + types.TypeString(v.Type(), nil)
	}
	nUpd := 0
	type viol struct{ key, msg, pos string }
	seen := map[string]viol{}
	npaths := 0
	ok := enumPaths(fn, 4096, func(path []*ssa.BasicBlock) {
		npaths++
		last := path[len(path)-1]
		ret := last.Instrs[len(last.Instrs)-1].(*ssa.Return)
		rv := resolvePhi(ret.Results[0], path)
		// R11.3b: the node handed back is the node that stands in the per-parent slot table under the child's
		// (slot, offset) on this path — read from it, or stored into it on the way. Only the returned node goes
		// on to the flat index (saveKey -> addKey), so a node returned from the by-name table alone (an early
		// "already registered under this name" return) leaves the child's own (slot, offset) without a record
		if k, isConst := rv.(*ssa.Const); !(isConst && k.Value == nil) {
			inSlotTable := false
			if lk := mapReadOf(rv); lk != nil && derivesFromSlotTable(lk.X, fn) {
				inSlotTable = true
			}
			for _, b := range path {
				for _, ins := range b.Instrs {
					if mu, isMu := ins.(*ssa.MapUpdate); isMu && derivesFromSlotTable(mu.Map, fn) && resolvePhi(mu.Value, path) == rv {
						inSlotTable = true
					}
				}
			}
			if !inSlotTable {
				k := fmt.Sprintf("vm.(*StorageKey).AddChild/path:return(%s)-not-from-slot-table", valueKind(rv))
				seen[k] = viol{k, "a path returns " + describe(rv) + " (" + w.pos(ret.Pos()) + ") without having read it from, or stored it into, the per-parent slot table under the child's (slot, offset): the registration is accepted but look-ups by slot find no record for it", w.pos(ret.Pos())}
			}
		}
		for _, b := range path {
			for _, ins := range b.Instrs {
				mu, isMu := ins.(*ssa.MapUpdate)
				if !isMu || !isIndexMap(mu.Map) {
					continue
				}
				nUpd++
				sv := resolvePhi(mu.Value, path)
				if sv != rv {
					k := fmt.Sprintf("vm.(*StorageKey).AddChild/path:index(%s)->return(%s)", valueKind(sv), valueKind(rv))
					seen[k] = viol{k, "a path stores " + describe(sv) + " into the by-name table (" + w.pos(mu.Pos()) + ") and returns " + describe(rv) + " (" + w.pos(ret.Pos()) + "): only the returned node is entered into the flat (slot, offset, type) index, so look-up by name and look-up by slot reach different records", w.pos(mu.Pos())}
				}
			}
		}
	})
	if !ok {
		r.undecided(rule, "vm.(*StorageKey).AddChild", w.pos(fn.Pos()), "too many paths")
		return
	}
	var ks []string
	for k := range seen {
		ks = append(ks, k)
	}
	sort.Strings(ks)
	for _, k := range ks {
		r.violated(rule, k, seen[k].pos, seen[k].msg)
	}
	if nUpd == 0 {
		r.violated(rule, "instance-count", "-", "no update of the by-name table found in AddChild: the rule's anchors no longer resolve")
	}
	r.holds(rule, "vm.(*StorageKey).AddChild/paths", w.pos(fn.Pos()), fmt.Sprintf("%d paths examined, %d with a by-name/returned mismatch", npaths, len(ks)))
	r.need(rule, 1)
}

// derivesFromSlotTable: m is the receiver's `children` table or an inner map read from it.
func derivesFromSlotTable(m ssa.Value, fn *ssa.Function) bool {
	for i := 0; i < 4; i++ {
		if lk := mapReadOf(m); lk != nil {
			m = lk.X
			continue
		}
		if ph, ok := m.(*ssa.Phi); ok && len(ph.Edges) > 0 {
			// `if m[k] == nil { m[k] = make(…) }` followed by a re-read never produces a phi of maps here, but a
			// hoisted inner map does: every edge must derive from the table
			for _, e := range ph.Edges {
				if !derivesFromSlotTable(e, fn) {
					return false
				}
			}
			return true
		}
		break
	}
	if mk, ok := m.(*ssa.MakeMap); ok {
		// a fresh inner map counts when it is stored into the table
		for _, ref := range *mk.Referrers() {
			if mu, ok := ref.(*ssa.MapUpdate); ok && mu.Value == ssa.Value(mk) && derivesFromSlotTable(mu.Map, fn) {
				return true
			}
		}
		return false
	}
	ld, ok := m.(*ssa.UnOp)
	if !ok || ld.Op != token.MUL {
		return false
	}
	fa, ok := ld.X.(*ssa.FieldAddr)
	return ok && fieldID(fa) == "P0.StorageKey.children" && fa.X == ssa.Value(fn.Params[0])
}

func valueKind(v ssa.Value) string {
	switch x := v.(type) {
	case *ssa.Parameter:
		return "param:" + x.Name()
	case *ssa.Extract:
		return "existing"
	case *ssa.Lookup:
		return "lookup"
	case *ssa.Const:
		return "const"
	}
	return fmt.Sprintf("%T", v)
}

// ---- R11.5 node tables are write-once ----------------------------------------------------------------

// mapShape: a structural name for a map-valued / key-valued expression (recomputed look-ups of the same
// path have the same shape).
func mapShape(v ssa.Value, d int) string {
	if d == 0 {
		return "?"
	}
	switch x := v.(type) {
	case *ssa.Parameter:
		return "p:" + x.Name()
	case *ssa.Const:
		return "k:" + x.String()
	case *ssa.Extract:
		return mapShape(x.Tuple, d-1) + fmt.Sprintf("#%d", x.Index)
	case *ssa.Lookup:
		return "L(" + mapShape(x.X, d-1) + "," + mapShape(x.Index, d-1) + ")"
	case *ssa.UnOp:
		if x.Op == token.MUL {
			return "*" + mapShape(x.X, d-1)
		}
	case *ssa.FieldAddr:
		return mapShape(x.X, d-1) + "." + fieldID(x)
	case *ssa.Call:
		if c := x.Call.StaticCallee(); c != nil && len(x.Call.Args) == 1 {
			return c.Name() + "(" + mapShape(x.Call.Args[0], d-1) + ")"
		}
	case *ssa.ChangeType:
		return mapShape(x.X, d-1)
	}
	return "v:" + v.Name()
}

// addWriteOnceRule: every update of a table of *StorageKey nodes happens only where the entry was found
// absent (comma-ok look-up reported !ok, or the looked-up node compared equal to nil): an entry, once
// set, is never replaced — otherwise changes journaled through the replaced node are no longer reached
// by the look-up that goes through this table.
func addWriteOnceRule(w *World, r *Report, rule string) {
	n := 0
	for _, top := range w.Funcs(forkPath(pkVM)) {
		for _, fn := range withAnon(top) {
			ord := 0
			for _, b := range fn.Blocks {
				for _, ins := range b.Instrs {
					mu, ok := ins.(*ssa.MapUpdate)
					if !ok || typeBaseName(mu.Value.Type()) != "StorageKey" {
						continue
					}
					if _, isPtr := mu.Value.Type().Underlying().(*types.Pointer); !isPtr {
						continue
					}
					ord++
					n++
					key := fmt.Sprintf("%s/node-table-update#%d", relName(fn), ord)
					want := "L(" + mapShape(mu.Map, 8) + "," + mapShape(mu.Key, 8) + ")"
					guarded := false
					for _, d := range fn.Blocks {
						iff, ok := d.Instrs[len(d.Instrs)-1].(*ssa.If)
						if !ok || d.Succs[0] == d.Succs[1] {
							continue
						}
						absentSucc := -1
						switch c := iff.Cond.(type) {
						case *ssa.Extract:
							// ok of a comma-ok look-up: absent on the false edge
							if lk, isL := c.Tuple.(*ssa.Lookup); isL && lk.CommaOk && c.Index == 1 && mapShape(lk, 8) == want {
								absentSucc = 1
							}
						case *ssa.UnOp:
							if c.Op == token.NOT {
								if ex, isE := c.X.(*ssa.Extract); isE {
									if lk, isL := ex.Tuple.(*ssa.Lookup); isL && lk.CommaOk && ex.Index == 1 && mapShape(lk, 8) == want {
										absentSucc = 0
									}
								}
							}
						case *ssa.BinOp:
							if c.Op == token.EQL || c.Op == token.NEQ {
								var other ssa.Value
								if k, isK := c.Y.(*ssa.Const); isK && k.Value == nil {
									other = c.X
								} else if k, isK := c.X.(*ssa.Const); isK && k.Value == nil {
									other = c.Y
								}
								if other != nil && mapShape(other, 8) == want {
									absentSucc = 0
									if c.Op == token.NEQ {
										absentSucc = 1
									}
								}
							}
						}
						if absentSucc < 0 {
							continue
						}
						s := d.Succs[absentSucc]
						if len(s.Preds) == 1 && (s == b || s.Dominates(b)) {
							guarded = true
						}
					}
					if guarded {
						r.holds(rule, key, w.pos(mu.Pos()), "executed only where the entry was found absent")
					} else {
						r.violated(rule, key, w.pos(mu.Pos()), "a table of storage-key nodes is updated without a dominating test that the entry is absent: an existing node can be replaced, and what was journaled through it is then no longer reached through this table")
					}
				}
			}
		}
	}
	r.need(rule, 4)
	_ = n
}

// losslessReading: the integer comes from a 256-bit operand without dropping its upper bits: result 0 of
// Uint64WithOverflow on a path where the overflow flag was tested false, or Uint64() after IsUint64().
func losslessReading(v ssa.Value, at *ssa.BasicBlock) (bool, string) {
	src := v
	for {
		if cv, ok := src.(*ssa.Convert); ok {
			src = cv.X
			continue
		}
		break
	}
	dominatedBy := func(cond ssa.Value, wantTrue bool) bool {
		for _, d := range at.Parent().Blocks {
			iff, ok := d.Instrs[len(d.Instrs)-1].(*ssa.If)
			if !ok || iff.Cond != cond || d.Succs[0] == d.Succs[1] {
				continue
			}
			s := d.Succs[1]
			if wantTrue {
				s = d.Succs[0]
			}
			if len(s.Preds) == 1 && (s == at || s.Dominates(at)) {
				return true
			}
		}
		return false
	}
	switch x := src.(type) {
	case *ssa.Extract:
		c, ok := x.Tuple.(*ssa.Call)
		if !ok || c.Call.StaticCallee() == nil || c.Call.StaticCallee().Name() != "Uint64WithOverflow" || x.Index != 0 {
			return true, ""
		}
		for _, rf := range *c.Referrers() {
			if ex, ok := rf.(*ssa.Extract); ok && ex.Index == 1 && dominatedBy(ex, false) {
				return true, ""
			}
		}
		return false, "the overflow flag of Uint64WithOverflow is not tested false on the way here"
	case *ssa.Call:
		cal := x.Call.StaticCallee()
		if cal == nil || cal.Name() != "Uint64" || len(x.Call.Args) != 1 || !isBignumPtr(x.Call.Args[0].Type()) {
			return true, ""
		}
		for _, b := range at.Parent().Blocks {
			for _, ins := range b.Instrs {
				if c2, ok := ins.(*ssa.Call); ok && c2.Call.StaticCallee() != nil && c2.Call.StaticCallee().Name() == "IsUint64" && len(c2.Call.Args) == 1 && c2.Call.Args[0] == x.Call.Args[0] && dominatedBy(c2, true) {
					return true, ""
				}
			}
		}
		return false, "Uint64() keeps only the low 64 bits of the 256-bit operand and no IsUint64() test dominates it"
	}
	return true, ""
}


// ---- R11.6 the parent look-up depends on the parent's coordinates only --------------------------------

// paramRoots: the parameters of fn a value is computed from (data dependence through operands, local
// cells and call arguments; bounded).
func paramRoots(v ssa.Value, out map[*ssa.Parameter]bool, seen map[ssa.Value]bool, depth int) {
	if v == nil || seen[v] || depth == 0 {
		return
	}
	seen[v] = true
	switch x := v.(type) {
	case *ssa.Parameter:
		out[x] = true
		return
	case *ssa.Const, *ssa.Global, *ssa.Function:
		return
	case *ssa.UnOp:
		if x.Op == token.MUL {
			if a, ok := x.X.(*ssa.Alloc); ok {
				for _, rf := range *a.Referrers() {
					if st, ok := rf.(*ssa.Store); ok && st.Addr == ssa.Value(a) {
						paramRoots(st.Val, out, seen, depth-1)
					}
				}
				return
			}
		}
	}
	if ins, ok := v.(ssa.Instruction); ok {
		var rands []*ssa.Value
		for _, op := range ins.Operands(rands) {
			if *op != nil {
				paramRoots(*op, out, seen, depth-1)
			}
		}
	}
}

// addParentLookupRule: in saveKey the look-up of the parent node (the findKey call whose slot argument
// is computed from the parent-slot parameter) is computed from the parent's coordinates only — the
// account, the parent slot and the parent type id — and constants; none of the child's operands (its
// slot, offset, type id, index key) may flow into it: a parent is registered under its own
// coordinates, whatever the child looks like.
func addParentLookupRule(w *World, r *Report, rule string) {
	fn := w.Func(forkPath(pkVM), "(*StateChanges).saveKey")
	key := "vm.(*StateChanges).saveKey/parent-lookup"
	if fn == nil || len(fn.Params) != 8 {
		r.undecided(rule, key, "-", "saveKey(account, parent, self, offset, typeId, parentTypeId, index) not found with that shape: the rule's anchor does not resolve")
		return
	}
	// positions: 0 receiver, 1 account, 2 parent, 3 self, 4 offset, 5 typeId, 6 parentTypeId, 7 index
	parentSide := map[*ssa.Parameter]bool{fn.Params[0]: true, fn.Params[1]: true, fn.Params[2]: true, fn.Params[6]: true}
	n := 0
	for _, b := range fn.Blocks {
		for _, ins := range b.Instrs {
			c, ok := ins.(*ssa.Call)
			if !ok {
				continue
			}
			cal := c.Call.StaticCallee()
			if cal == nil || cal.Name() != "findKey" || len(c.Call.Args) != 5 {
				continue
			}
			slotRoots := map[*ssa.Parameter]bool{}
			paramRoots(c.Call.Args[2], slotRoots, map[ssa.Value]bool{}, 10)
			if !slotRoots[fn.Params[2]] {
				continue // not the parent look-up
			}
			n++
			var bad []string
			for i, arg := range c.Call.Args[1:] {
				roots := map[*ssa.Parameter]bool{}
				paramRoots(arg, roots, map[ssa.Value]bool{}, 10)
				for p := range roots {
					if !parentSide[p] {
						bad = append(bad, fmt.Sprintf("argument %d of the parent look-up is computed from the child's operand %s", i+1, p.Name()))
					}
				}
			}
			sort.Strings(bad)
			if len(bad) > 0 {
				r.violated(rule, key, w.pos(c.Pos()), strings.Join(bad, "; ")+": a parent registered under its own coordinates is then not found for children whose operand differs")
			} else {
				r.holds(rule, key, w.pos(c.Pos()), "computed from the account, the parent slot, the parent type id and constants only")
			}
		}
	}
	if n == 0 {
		r.undecided(rule, key, w.pos(fn.Pos()), "no look-up of the parent node found in saveKey")
	}
	r.need(rule, 1)
}


// addRegistrationPathRule: every successful path of saveKey links the key under its parent (AddChild)
// and indexes it (addKey).
func addRegistrationPathRule(w *World, r *Report, rule string) {
	fn := w.Func(forkPath(pkVM), "(*StateChanges).saveKey")
	if fn == nil {
		r.undecided(rule, "vm.(*StateChanges).saveKey", "-", "function not found")
		return
	}
	for _, callee := range []string{"AddChild", "addKey"} {
		key := "vm.(*StateChanges).saveKey/always->" + callee
		leak := mustCallBeforeReturn(fn, func(c ssa.CallInstruction) bool {
			cal := c.Common().StaticCallee()
			return cal != nil && cal.Name() == callee && isForkPkg(cal.Pkg)
		}, nilErrorReturn)
		if leak != nil {
			r.violated(rule, key, w.pos(leak.Pos()), "a path returns success without "+callee+": a registration can be accepted without being linked under its parent / indexed (an unknown parent would go unnoticed and the parent's child indices would miss the key)")
		} else {
			r.holds(rule, key, w.pos(fn.Pos()), "every successful return passes "+callee)
		}
	}
	r.need(rule, 2)
}


// addNeverFailsRule: linking a key under its parent cannot fail: AddChild's error result is nil on every
// path (R11.1 relies on it when it skips the propagation of that error as infeasible; and a key-journal
// instruction with well-formed operands must not halt the frame depending on what was registered before).
func addNeverFailsRule(w *World, r *Report, rule string) {
	fn := w.Func(forkPath(pkVM), "(*StorageKey).AddChild")
	key := "vm.(*StorageKey).AddChild/error-always-nil"
	if fn == nil {
		r.undecided(rule, key, "-", "function not found")
		return
	}
	if alwaysNilError(fn) {
		r.holds(rule, key, w.pos(fn.Pos()), "every return hands back a nil error")
	} else {
		r.violated(rule, key, w.pos(fn.Pos()), "AddChild can return an error: a well-formed registration can now be refused (and halt the executing frame) depending on what was registered before — e.g. the same slot described with another type id")
	}
	r.need(rule, 1)
}
