package main

import (
	"go/token"
	"go/types"
	"sort"

	"golang.org/x/tools/go/ssa"
)

// E3 (part 3b): nil results. A function of the fork packages "may return nil" in result i when some
// return statement hands out, at that position, the nil constant, a plain map read (whose zero value
// is nil), the value of a nil-able field, or the may-be-nil result of another such function
// (fixpoint over static calls; phis are followed). If the function also has an error result and
// every such return carries something other than the nil constant in the error position, the nil is
// "announced by the error": a caller standing on the `err == nil` side of a test of that error may
// use the other results. Everything else must be tested before it is dereferenced; the obligations
// are produced by nilObligations (same must-analysis as for fields).

type nilRet struct {
	why       string
	announced bool // nil only together with a non-nil-constant error result
}

func errorIndex(sig *types.Signature) int {
	n := sig.Results().Len()
	if n == 0 {
		return -1
	}
	if types.Identical(sig.Results().At(n-1).Type(), types.Universe.Lookup("error").Type()) {
		return n - 1
	}
	return -1
}

// mayReturnNil: function -> result index -> evidence.
func (w *World) mayReturnNil() map[*ssa.Function]map[int]nilRet {
	if w.mayNilRet != nil {
		return w.mayNilRet
	}
	out := map[*ssa.Function]map[int]nilRet{}
	w.mayNilRet = out
	var fns []*ssa.Function
	for _, pk := range []int{pkVM, pkNative} {
		idx := w.funcIdx[forkPath(pk)]
		var names []string
		for n := range idx {
			names = append(names, n)
		}
		sort.Strings(names)
		for _, n := range names {
			for _, fn := range withAnon(idx[n]) {
				if fn.Blocks != nil {
					fns = append(fns, fn)
				}
			}
		}
	}
	// evidence that v may be nil, "" if none
	var nilEvidence func(v ssa.Value, seen map[ssa.Value]bool) string
	nilEvidence = func(v ssa.Value, seen map[ssa.Value]bool) string {
		if seen[v] {
			return ""
		}
		seen[v] = true
		switch x := v.(type) {
		case *ssa.Const:
			if x.Value == nil && nilableType(x.Type()) {
				return "returns the nil constant"
			}
		case *ssa.ChangeType:
			return nilEvidence(x.X, seen)
		// A returned map read is NOT taken as evidence: whether the cell is populated at that return is a
		// path fact of the callee (ensure idioms, `ok`-guarded returns), which this path-insensitive summary
		// cannot see; reads of map cells are covered where they are dereferenced in the same function.
		case *ssa.Extract:
			if c, ok := x.Tuple.(*ssa.Call); ok {
				if cal := c.Call.StaticCallee(); cal != nil {
					if e, ok := out[cal][x.Index]; ok && !e.announced {
						return "returns the result of " + relName(cal) + ", which " + e.why
					}
				}
			}
		case *ssa.Call:
			if cal := x.Call.StaticCallee(); cal != nil {
				if e, ok := out[cal][0]; ok && !e.announced {
					return "returns the result of " + relName(cal) + ", which " + e.why
				}
			}
		case *ssa.Phi:
			for _, e := range x.Edges {
				if s := nilEvidence(e, seen); s != "" {
					return s
				}
			}
		}
		return ""
	}
	for changed := true; changed; {
		changed = false
		for _, fn := range fns {
			ei := errorIndex(fn.Signature)
			for i := 0; i < fn.Signature.Results().Len(); i++ {
				if i == ei || !nilableType(fn.Signature.Results().At(i).Type()) {
					continue
				}
				if _, isSlice := fn.Signature.Results().At(i).Type().Underlying().(*types.Slice); isSlice {
					continue // a nil slice is a valid empty slice
				}
				why, announced, found := "", true, false
				for _, b := range fn.Blocks {
					ret, ok := b.Instrs[len(b.Instrs)-1].(*ssa.Return)
					if !ok || i >= len(ret.Results) {
						continue
					}
					ev := nilEvidence(ret.Results[i], map[ssa.Value]bool{})
					if ev == "" {
						continue
					}
					found = true
					if why == "" {
						why = ev
					}
					if ei < 0 {
						announced = false
					} else if k, ok := ret.Results[ei].(*ssa.Const); ok && k.Value == nil {
						announced = false
					}
				}
				if !found {
					continue
				}
				old, had := out[fn][i]
				if !had || old.announced != announced {
					if out[fn] == nil {
						out[fn] = map[int]nilRet{}
					}
					out[fn][i] = nilRet{why: why, announced: announced}
					changed = true
				}
			}
		}
	}
	return out
}

// mapReadOf: the map read behind a value (plain read, or the value half of a comma-ok read), or nil.
func mapReadOf(v ssa.Value) *ssa.Lookup {
	if ct, ok := v.(*ssa.ChangeType); ok {
		v = ct.X
	}
	switch x := v.(type) {
	case *ssa.Lookup:
		if _, isMap := x.X.Type().Underlying().(*types.Map); isMap && !x.CommaOk {
			return x
		}
	case *ssa.Extract:
		if lk, ok := x.Tuple.(*ssa.Lookup); ok && x.Index == 0 {
			return lk
		}
	}
	return nil
}

func isAddrOfField(v ssa.Value) bool {
	switch v.(type) {
	case *ssa.FieldAddr, *ssa.IndexAddr:
		return true
	}
	return false
}

// storesThrough: fn stores through a pointer of type pt, or passes such a pointer to a call.
func storesThrough(fn *ssa.Function, pt types.Type) bool {
	for _, b := range fn.Blocks {
		for _, ins := range b.Instrs {
			switch x := ins.(type) {
			case *ssa.Store:
				if types.Identical(x.Addr.Type(), pt) {
					return true
				}
			case ssa.CallInstruction:
				for _, arg := range x.Common().Args {
					if types.Identical(arg.Type(), pt) {
						return true
					}
				}
			}
		}
	}
	return false
}

func shortValue(v ssa.Value) string {
	if u, ok := v.(*ssa.UnOp); ok && u.Op == token.MUL {
		if fa, ok := u.X.(*ssa.FieldAddr); ok {
			return fieldID(fa)
		}
		if g, ok := u.X.(*ssa.Global); ok {
			return g.Name()
		}
	}
	return v.Name() + " (" + v.Type().String() + ")"
}

// callResultOf: the static call and result index behind a value (through ChangeType), or nil.
func callResultOf(v ssa.Value) (*ssa.Call, int) {
	if ct, ok := v.(*ssa.ChangeType); ok {
		v = ct.X
	}
	switch x := v.(type) {
	case *ssa.Call:
		if x.Call.Signature().Results().Len() == 1 {
			return x, 0
		}
	case *ssa.Extract:
		if c, ok := x.Tuple.(*ssa.Call); ok {
			return c, x.Index
		}
	}
	return nil, 0
}
