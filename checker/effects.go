package main

// E4 (part 1): effect summaries over go/ssa. The summary of a function is the union, over its
// body, its closures and its static callees inside the fork (unless declared opaque), of:
// stores through struct fields / globals / pointers that are not function-local, map updates,
// interface invocations, dynamic calls, calls to opaque or external functions, explicit panics.

import (
	"fmt"
	"go/token"
	"go/types"
	"sort"
	"strings"

	"golang.org/x/tools/go/ssa"
)

type Effect struct {
	Kind string // store, mapupdate, invoke, call, ext, dyncall, panic, global
	What string
	Pos  token.Pos
	In   string // function in which it occurs
}

func (e Effect) String() string { return e.Kind + ":" + e.What }

type effectOpts struct {
	// opaque: treat a call to this fork function as an atomic effect "call:<name>" instead of descending.
	opaque func(fn *ssa.Function) bool
	// depth limit for descending into static callees (-1: unlimited)
	maxDepth int
}

func shortType(t types.Type) string {
	if p, ok := t.(*types.Pointer); ok {
		t = p.Elem()
	}
	if nt, ok := t.(*types.Named); ok {
		if nt.Obj().Pkg() != nil {
			return normPath(nt.Obj().Pkg().Path()) + "." + nt.Obj().Name()
		}
		return nt.Obj().Name()
	}
	return normType(t)
}

func isForkPkg(p *ssa.Package) bool {
	return p != nil && strings.HasPrefix(p.Pkg.Path(), forkMod)
}

// addrRoot walks an address expression down to its root and describes the access path.
// local=true when the root is a non-escaping-to-params function-local allocation.
var phiDepth int

func addrRoot(v ssa.Value) (root ssa.Value, desc string, firstField string) {
	for {
		switch a := v.(type) {
		case *ssa.FieldAddr:
			pt := a.X.Type().Underlying().(*types.Pointer).Elem()
			st := pt.Underlying().(*types.Struct)
			f := shortType(pt) + "." + st.Field(a.Field).Name()
			if firstField == "" {
				firstField = f
			}
			desc = f + " " + desc
			v = a.X
			continue
		case *ssa.IndexAddr:
			desc = "[] " + desc
			v = a.X
			continue
		case *ssa.UnOp:
			if a.Op == token.MUL { // load of a pointer, then store through it
				desc = "* " + desc
				v = a.X
				continue
			}
		case *ssa.Field:
			v = a.X
			continue
		case *ssa.Slice:
			v = a.X
			continue
		case *ssa.ChangeType:
			v = a.X
			continue
		case *ssa.Convert:
			v = a.X
			continue
		case *ssa.Lookup:
			desc = "[map] " + desc
			v = a.X
			continue
		case *ssa.Extract:
			v = a.Tuple
			continue
		case *ssa.Phi:
			// `m, ok := x.f[k]; if !ok { m = make(...); x.f[k] = m }`: a phi of a value found under a field and a
			// fresh one is rooted where its non-fresh edges are rooted, if they agree
			if phiDepth < 4 {
				phiDepth++
				var rt ssa.Value
				ff, dd := "", ""
				agree, nonLocal := true, 0
				for _, e := range a.Edges {
					if e == ssa.Value(a) {
						continue
					}
					r2, d2, f2 := addrRoot(e)
					if localRoot(r2) && f2 == "" {
						continue
					}
					nonLocal++
					if rt == nil {
						rt, dd, ff = r2, d2, f2
					} else if f2 != ff || (f2 == "" && r2 != rt) {
						agree = false
					}
				}
				phiDepth--
				if agree && nonLocal > 0 {
					if firstField == "" {
						firstField = ff
					}
					return rt, dd + desc, firstField
				}
				if nonLocal == 0 && len(a.Edges) > 0 {
					r2, _, _ := addrRoot(a.Edges[0])
					return r2, desc, firstField
				}
			}
			return a, desc, firstField
		}
		return v, desc, firstField
	}
}

// localRoot: the address is rooted in an allocation made in this function whose pointer is only
// used locally as far as this store is concerned (a fresh object under construction).
func localRoot(root ssa.Value) bool {
	switch r := root.(type) {
	case *ssa.Alloc:
		return true
	case *ssa.MakeMap, *ssa.MakeSlice:
		return true
	case *ssa.Call:
		// result of new-style constructors is handled by callers via summaries; be conservative
		_ = r
	}
	return false
}

func (w *World) effectsOf(root *ssa.Function, opt effectOpts) []Effect {
	var out []Effect
	seen := map[*ssa.Function]bool{}
	var visit func(fn *ssa.Function, depth int)
	visit = func(fn *ssa.Function, depth int) {
		if fn == nil || seen[fn] {
			return
		}
		seen[fn] = true
		in := fn.String()
		add := func(kind, what string, pos token.Pos) {
			out = append(out, Effect{kind, what, pos, normPath(in)})
		}
		for _, af := range fn.AnonFuncs {
			visit(af, depth)
		}
		for _, b := range fn.Blocks {
			for _, ins := range b.Instrs {
				switch x := ins.(type) {
				case *ssa.Store:
					rt, desc, first := addrRoot(x.Addr)
					if localRoot(rt) && first == "" {
						continue // plain local variable
					}
					if localRoot(rt) {
						continue // field of an object allocated here (under construction)
					}
					if g, ok := rt.(*ssa.Global); ok {
						add("global", normPath(g.String())+" "+strings.TrimSpace(desc), x.Pos())
						continue
					}
					if first != "" {
						add("store", first, x.Pos())
					} else {
						add("store", "through pointer "+rootDesc(rt), x.Pos())
					}
				case *ssa.MapUpdate:
					rt, _, first := addrRoot(x.Map)
					if localRoot(rt) {
						continue
					}
					if g, ok := rt.(*ssa.Global); ok {
						add("global", "map "+normPath(g.String()), x.Pos())
						continue
					}
					if first != "" {
						add("mapupdate", first, x.Pos())
					} else {
						add("mapupdate", rootDesc(rt), x.Pos())
					}
				case *ssa.Panic:
					add("panic", "explicit panic", x.Pos())
				case *ssa.Go:
					add("go", "goroutine", x.Pos())
				case ssa.CallInstruction:
					c := x.Common()
					if c.IsInvoke() {
						add("invoke", shortType(c.Value.Type())+"."+c.Method.Name(), x.Pos())
						continue
					}
					if bi, ok := c.Value.(*ssa.Builtin); ok {
						if bi.Name() == "copy" || bi.Name() == "delete" || bi.Name() == "clear" {
							rt, _, first := addrRoot(c.Args[0])
							if !localRoot(rt) {
								what := first
								if what == "" {
									what = rootDesc(rt)
								}
								add("store", bi.Name()+" into "+what, x.Pos())
							}
						}
						continue
					}
					callee := c.StaticCallee()
					if callee == nil {
						add("dyncall", rootDesc(c.Value), x.Pos())
						continue
					}
					if callee.Parent() != nil {
						visit(callee, depth)
						continue
					}
					if isForkPkg(callee.Pkg) && callee.Blocks != nil {
						if (opt.opaque != nil && opt.opaque(callee)) || (opt.maxDepth >= 0 && depth >= opt.maxDepth) {
							add("call", normPath(callee.String()), x.Pos())
							continue
						}
						visit(callee, depth+1)
						continue
					}
					add("ext", normPath(callee.String()), x.Pos())
				}
			}
		}
	}
	visit(root, 0)
	return out
}

func rootDesc(v ssa.Value) string {
	switch r := v.(type) {
	case *ssa.Parameter:
		return "parameter " + r.Name() + " " + shortType(r.Type())
	case *ssa.FreeVar:
		return "captured " + r.Name()
	case *ssa.Global:
		return "global " + normPath(r.String())
	case *ssa.Call:
		if f := r.Common().StaticCallee(); f != nil {
			return "result of " + normPath(f.String())
		}
		return "result of call"
	case *ssa.Phi:
		return "phi " + shortType(r.Type())
	case *ssa.Const:
		return "const"
	}
	return fmt.Sprintf("%T %s", v, shortType(v.Type()))
}

func effectKeys(es []Effect) []string {
	m := map[string]bool{}
	for _, e := range es {
		m[e.String()] = true
	}
	var out []string
	for k := range m {
		out = append(out, k)
	}
	sort.Strings(out)
	return out
}

// ---- reviewed vocabularies ---------------------------------------------------------

// stateDBGetters: StateDB methods that read only (interface.go of the reference).
var stateDBGetters = map[string]bool{"GetBalance": true, "GetNonce": true, "GetCodeHash": true, "GetCode": true, "GetCodeSize": true,
	"GetRefund": true, "GetCommittedState": true, "GetState": true, "GetTransientState": true, "HasSuicided": true, "Exist": true, "Empty": true,
	"AddressInAccessList": true, "SlotInAccessList": true}

// pureExtPkgs: external packages whose functions cannot reach EVM state by themselves (they only
// act on their arguments); mutation of arguments is judged separately where it matters (R16.2).
var pureExtPkgs = []string{"github.com/holiman/uint256", "bytes", "errors", "math/big", "github.com/ethereum/go-ethereum/common", "fmt", "strings", "sort", "encoding/json", "encoding/binary", "math", "math/bits",
	"github.com/ethereum/go-ethereum/crypto", "golang.org/x/crypto/sha3", "hash", "github.com/ethereum/go-ethereum/common/hexutil", "github.com/ethereum/go-ethereum/common/math", "github.com/ethereum/go-ethereum/accounts/abi", "sync/atomic"}

func isPureExt(name string) bool {
	n := strings.TrimPrefix(strings.TrimPrefix(name, "("), "*")
	for _, p := range pureExtPkgs {
		if strings.HasPrefix(n, p+".") {
			return true
		}
	}
	return false
}

// tracerFamilyFuncs: all functions whose receiver is one of the recorder types, plus their constructors.
func (w *World) tracerFamilyFuncs() []*ssa.Function {
	var out []*ssa.Function
	ctors := map[string]bool{"NewTracer": true, "NewCallTree": true, "NewStateChanges": true, "NewRootKey": true, "NewBranchKey": true, "newStorageChange": true}
	for _, fn := range w.Funcs(forkPath(pkVM)) {
		if recv := fn.Signature.Recv(); recv != nil {
			if tracerFamily[typeBaseName(recv.Type())] {
				out = append(out, fn)
			}
		} else if ctors[fn.Name()] {
			out = append(out, fn)
		}
	}
	return out
}

func typeBaseName(t types.Type) string {
	if p, ok := t.(*types.Pointer); ok {
		t = p.Elem()
	}
	if nt, ok := t.(*types.Named); ok {
		return nt.Obj().Name()
	}
	return ""
}

// addR14a (R1.4a): the recorder cannot influence execution: no StateDB method outside the getter
// list, no store outside recorder-owned types, no call back into the EVM, no dynamic call except
// TransferWithRecord's transfer parameter (R13.1).
func addR14a(w *World, r *Report, rule, tier string) {
	fam := w.tracerFamilyFuncs()
	for _, fn := range fam {
		key := "vm." + fn.RelString(fn.Pkg.Pkg)
		// calls of other recorder functions are judged on their own; any other fork function (a helper
		// extracted from a recorder method) is followed and its effects count as the caller's
		inFam := map[*ssa.Function]bool{}
		for _, f2 := range fam {
			inFam[f2] = true
		}
		es := w.effectsOf(fn, effectOpts{maxDepth: -1, opaque: func(c *ssa.Function) bool { return inFam[c] }})
		var bad []string
		for _, e := range es {
			switch e.Kind {
			case "store", "mapupdate":
				owner := strings.SplitN(strings.TrimPrefix(e.What, "copy into "), ".", 3)
				ok := false
				if len(owner) >= 2 && owner[0] == "P0" && tracerFamily[strings.SplitN(owner[1], ".", 2)[0]] {
					ok = true
				}
				if !ok {
					bad = append(bad, e.String()+" at "+w.pos(e.Pos))
				}
			case "invoke":
				if strings.HasPrefix(e.What, "P0.StateDB.") {
					if !stateDBGetters[strings.TrimPrefix(e.What, "P0.StateDB.")] {
						bad = append(bad, e.String()+" at "+w.pos(e.Pos))
					}
				} else if e.What != "error.Error" {
					bad = append(bad, e.String()+" at "+w.pos(e.Pos))
				}
			case "call":
				// a fork function at depth>0: must itself be in the family (checked on its own)
				ok := false
				for _, f2 := range fam {
					if normPath(f2.String()) == e.What {
						ok = true
					}
				}
				if !ok {
					bad = append(bad, e.String()+" at "+w.pos(e.Pos))
				}
			case "ext":
				if !isPureExt(e.What) {
					bad = append(bad, e.String()+" at "+w.pos(e.Pos))
				}
			case "dyncall":
				if fn.Name() == "TransferWithRecord" && strings.HasPrefix(e.What, "parameter ") && strings.HasSuffix(e.What, " P0.TransferFunc") {
					continue // R13.1 proves: exactly one call, arguments (db, from, to, amount)
				}
				bad = append(bad, e.String()+" at "+w.pos(e.Pos))
			case "panic", "go", "global":
				bad = append(bad, e.String()+" at "+w.pos(e.Pos))
			}
		}
		if len(bad) > 0 {
			r.violated(rule, key, w.pos(fn.Pos()), "recorder function has an effect outside the recorder: "+strings.Join(bad, "; "))
		} else {
			r.holds(rule, key, w.pos(fn.Pos()), "effects: "+strings.Join(effectKeys(es), ", "))
		}
	}
	r.need(rule, 40)
}
