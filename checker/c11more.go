package main

// Rules added after the second half of the fourth batch of seeded changes.
//
// R11.9 (C11, C16) the query side of the key tree is pure: every method of StorageKey, StateChanges and
//   StorageChanges other than the reviewed mutators (AddChild, JournalChanges, append, addKey, saveKey,
//   saveChange, saveBalance, saveRawStateChange) stores nothing outside its own locals — no derived state
//   (a cached child list, a memo) that a later registration would have to keep in step.
// R11.10 (C11) a look-up by name path answers only for the full path: in FindKeyIndices, whenever a path element
//   is missing (the not-found side of a comma-ok map look-up), every way on leads to `return nil` without
//   another look-up — the deepest existing ancestor is never handed out for a member that was not registered
//   (the look-up by slot has no such node).
// R4.5 (C04) no error obtained inside a frame after its snapshot is dropped: in the five frame entry points every
//   error-typed result of a call flows (through phis and the result cell) into the error operand of a return.
//   A Go `:=` that shadows the frame's error variable makes the validation errors of the inner scope
//   vanish: the frame then reports success and keeps its effects.

import (
	"fmt"
	"go/token"
	"go/types"
	"sort"
	"strings"

	"golang.org/x/tools/go/ssa"
)

var keyTreeMutators = map[string]bool{
	"(*StorageKey).AddChild": true, "(*StorageKey).JournalChanges": true, "(*StorageChanges).append": true,
	"(*StateChanges).addKey": true, "(*StateChanges).saveKey": true, "(*StateChanges).saveChange": true,
	"(*StateChanges).saveBalance": true, "(*StateChanges).saveRawStateChange": true,
}

func addKeyTreeQueryPurityRule(w *World, r *Report, rule string) {
	n := 0
	var names []string
	byName := map[string]*ssa.Function{}
	for _, fn := range w.Funcs(forkPath(pkVM)) {
		if fn.Signature.Recv() == nil {
			continue
		}
		switch typeBaseName(fn.Signature.Recv().Type()) {
		case "StorageKey", "StateChanges", "StorageChanges":
		default:
			continue
		}
		rel := fn.RelString(fn.Pkg.Pkg)
		if keyTreeMutators[rel] {
			continue
		}
		names = append(names, rel)
		byName[rel] = fn
	}
	// an unexported method that is called only from the mutators (or from such helpers) is part of a mutator: a
	// get-or-create step split out of saveBalance, say. What it may write is judged by the who-may-write rule R11.4.
	callersOf := func(target *ssa.Function) (callers []*ssa.Function, asValue bool) {
		for _, f := range w.forkFuncsAll() {
			for _, b := range f.Blocks {
				for _, ins := range b.Instrs {
					if ci, ok := ins.(ssa.CallInstruction); ok && ci.Common().StaticCallee() == target {
						top := f
						for top.Parent() != nil {
							top = top.Parent()
						}
						callers = append(callers, top)
						continue
					}
					var rands []*ssa.Value
					for _, op := range ins.Operands(rands) {
						if *op == ssa.Value(target) {
							asValue = true
						}
					}
				}
			}
		}
		return
	}
	partOfMutator := map[string]bool{}
	for round := 0; round < 3; round++ {
		for _, rel := range names {
			fn := byName[rel]
			if partOfMutator[rel] || fn.Object() == nil || fn.Object().Exported() {
				continue
			}
			cs, asValue := callersOf(fn)
			ok := len(cs) > 0 && !asValue
			for _, c := range cs {
				if c.Pkg == nil || c.Pkg.Pkg.Path() != forkPath(pkVM) {
					ok = false
					break
				}
				crel := c.RelString(c.Pkg.Pkg)
				if !keyTreeMutators[crel] && !partOfMutator[crel] {
					ok = false
				}
			}
			if ok {
				partOfMutator[rel] = true
			}
		}
	}
	{
		var kept []string
		for _, rel := range names {
			if !partOfMutator[rel] {
				kept = append(kept, rel)
			}
		}
		names = kept
	}
	sort.Strings(names)
	for _, rel := range names {
		fn := byName[rel]
		n++
		key := "vm." + rel
		var bad []string
		for _, e := range w.effectsOf(fn, effectOpts{maxDepth: 0}) {
			if e.Kind == "store" || e.Kind == "mapupdate" || e.Kind == "global" {
				bad = append(bad, e.String()+" at "+w.pos(e.Pos))
			}
		}
		if len(bad) > 0 {
			r.violated(rule, key, w.pos(fn.Pos()), "a query of the key tree stores state ("+strings.Join(dedup(bad), "; ")+"): derived state is not kept in step by the registrations, so the answers by name and by slot can drift apart")
		} else {
			r.holds(rule, key, w.pos(fn.Pos()), "stores nothing outside its own locals")
		}
	}
	r.need(rule, 10)
	_ = n
}

func addFullPathLookupRule(w *World, r *Report, rule string) {
	key := "vm.(*StateChanges).FindKeyIndices"
	fn := w.Func(forkPath(pkVM), "(*StateChanges).FindKeyIndices")
	if fn == nil {
		r.undecided(rule, key, "-", "function not found")
		return
	}
	n := 0
	var bad []string
	for _, b := range fn.Blocks {
		iff, ok := b.Instrs[len(b.Instrs)-1].(*ssa.If)
		if !ok || b.Succs[0] == b.Succs[1] {
			continue
		}
		cond, neg := iff.Cond, false
		for {
			u, isU := cond.(*ssa.UnOp)
			if !isU || u.Op != token.NOT {
				break
			}
			cond, neg = u.X, !neg
		}
		miss := (*ssa.BasicBlock)(nil)
		switch c := cond.(type) {
		case *ssa.Extract:
			if lk, isLk := c.Tuple.(*ssa.Lookup); isLk && lk.CommaOk && c.Index == 1 {
				miss = b.Succs[1]
				if neg {
					miss = b.Succs[0]
				}
			}
		case *ssa.BinOp:
			// found == nil / found != nil on the value of a look-up
			var other ssa.Value
			if k, isK := c.Y.(*ssa.Const); isK && k.IsNil() {
				other = c.X
			} else if k, isK := c.X.(*ssa.Const); isK && k.IsNil() {
				other = c.Y
			}
			if ex, isEx := other.(*ssa.Extract); isEx {
				other = ex.Tuple
			}
			if _, isLk := other.(*ssa.Lookup); isLk && (c.Op == token.EQL || c.Op == token.NEQ) {
				isNilEdge := c.Op == token.EQL
				if neg {
					isNilEdge = !isNilEdge
				}
				if isNilEdge {
					miss = b.Succs[0]
				} else {
					miss = b.Succs[1]
				}
			}
		}
		if miss == nil {
			continue
		}
		n++
		// every way on from the not-found side returns nil without another look-up
		seen := map[*ssa.BasicBlock]bool{}
		var dfs func(x *ssa.BasicBlock)
		dfs = func(x *ssa.BasicBlock) {
			if seen[x] {
				return
			}
			seen[x] = true
			for _, ins := range x.Instrs {
				switch y := ins.(type) {
				case *ssa.Lookup:
					bad = append(bad, "after a missing path element at "+w.pos(iff.Pos())+" the walk goes on with another look-up at "+w.pos(y.Pos()))
					return
				case *ssa.Return:
					if k, isK := y.Results[0].(*ssa.Const); !isK || !k.IsNil() {
						bad = append(bad, "after a missing path element at "+w.pos(iff.Pos())+" a node is still returned at "+w.pos(y.Pos())+" (the deepest ancestor that exists)")
					}
					return
				}
			}
			for _, s := range x.Succs {
				dfs(s)
			}
		}
		dfs(miss)
	}
	switch {
	case len(bad) > 0:
		r.violated(rule, key, w.pos(fn.Pos()), strings.Join(dedup(bad), "; ")+": a look-up by name would answer for a member that was never registered, while the look-up by slot has no such node")
	case n < 2:
		r.undecided(rule, key, w.pos(fn.Pos()), fmt.Sprintf("expected the not-found sides of at least 2 map look-ups (root, first name, path elements), found %d: the rule's anchor does not resolve", n))
	default:
		r.holds(rule, key, w.pos(fn.Pos()), fmt.Sprintf("%d not-found sides, each leading to `return nil` without a further look-up", n))
	}
	r.need(rule, 1)
}

func addErrorNotDroppedRule(w *World, r *Report, rule string) {
	isErr := func(t types.Type) bool { return types.Identical(t, types.Universe.Lookup("error").Type()) }
	for _, rel := range []string{"(*EVM).Call", "(*EVM).CallCode", "(*EVM).DelegateCall", "(*EVM).StaticCall", "(*EVM).create"} {
		fn := w.Func(forkPath(pkVM), rel)
		key := "vm." + rel
		if fn == nil {
			r.undecided(rule, key, "-", "function not found")
			continue
		}
		// does v reach the error operand of a return (through phis, and through cells that are loaded and returned)?
		var reaches func(v ssa.Value, seen map[ssa.Value]bool) bool
		reaches = func(v ssa.Value, seen map[ssa.Value]bool) bool {
			if seen[v] || v.Referrers() == nil {
				return false
			}
			seen[v] = true
			for _, ref := range *v.Referrers() {
				switch x := ref.(type) {
				case *ssa.Return:
					if len(x.Results) > 0 && x.Results[len(x.Results)-1] == v {
						return true
					}
				case *ssa.Phi:
					if reaches(x, seen) {
						return true
					}
				case *ssa.Store:
					if x.Val != v {
						continue
					}
					// a cell: some load of it reaches a return (the named result captured by the deferred exit), or it
					// is a field of a join-point result that is returned later
					switch cell := x.Addr.(type) {
					case *ssa.Alloc:
						for _, r2 := range *cell.Referrers() {
							if ld, ok := r2.(*ssa.UnOp); ok && ld.Op == token.MUL && reaches(ld, seen) {
								return true
							}
						}
					case *ssa.FieldAddr:
						for _, b := range fn.Blocks {
							for _, ins := range b.Instrs {
								if fa, ok := ins.(*ssa.FieldAddr); ok && fa.X == cell.X && fa.Field == cell.Field {
									for _, r2 := range *fa.Referrers() {
										if ld, ok := r2.(*ssa.UnOp); ok && ld.Op == token.MUL && reaches(ld, seen) {
											return true
										}
									}
								}
							}
						}
					}
				case *ssa.MakeInterface, *ssa.ChangeInterface:
					if reaches(x.(ssa.Value), seen) {
						return true
					}
				}
			}
			return false
		}
		n := 0
		var bad []string
		for _, f2 := range withAnon(fn) {
			if f2 != fn {
				continue // deferred closures only report; they cannot change what the frame returns
			}
			for _, b := range f2.Blocks {
				for _, ins := range b.Instrs {
					var v ssa.Value
					switch x := ins.(type) {
					case *ssa.Call:
						if isErr(x.Type()) {
							v = x
						}
					case *ssa.Extract:
						if _, isCall := x.Tuple.(*ssa.Call); isCall && isErr(x.Type()) {
							v = x
						}
					}
					if v == nil {
						continue
					}
					n++
					if !reaches(v, map[ssa.Value]bool{}) {
						bad = append(bad, "the error obtained at "+w.pos(ins.Pos())+" never reaches the error the frame returns")
					}
				}
			}
		}
		if len(bad) > 0 {
			r.violated(rule, key, w.pos(fn.Pos()), strings.Join(dedup(bad), "; ")+": a failure inside the frame is not reported (e.g. assigned to a variable that shadows the frame's error), so the frame keeps its effects")
		} else {
			r.holds(rule, key, w.pos(fn.Pos()), fmt.Sprintf("%d error results of calls, each reaching the returned error", n))
		}
	}
	r.need(rule, 5)
}
