package main

// SSA forms of two join-point rules of (*EVM).Call that used to be syntax patterns: the out-of-gas
// normalisation (R6.3) and the provenance of the post-call message's Error text (R5.4). They are stated
// on values, so that they hold for every spelling of the same computation: an `if`, a tagless `switch`,
// a local that holds the join point's error, or a fork helper that performs the comparison / produces
// the text.

import (
	"go/token"
	"go/types"

	"golang.org/x/tools/go/ssa"
)

type jpCallSSA struct {
	kind string // pre | post
	call *ssa.Call
}

func jpCallsSSA(fn *ssa.Function) []jpCallSSA {
	var out []jpCallSSA
	for _, b := range fn.Blocks {
		for _, ins := range b.Instrs {
			c, ok := ins.(*ssa.Call)
			if !ok {
				continue
			}
			name := ""
			if f := c.Call.StaticCallee(); f != nil {
				name = f.Name()
			} else if c.Call.IsInvoke() {
				name = c.Call.Method.Name()
			}
			switch name {
			case "PreContractCall":
				out = append(out, jpCallSSA{"pre", c})
			case "PostContractCall":
				out = append(out, jpCallSSA{"post", c})
			}
		}
	}
	return out
}

// isFieldLoad: v is a load of field `field` of the struct that res points to.
func isFieldLoad(v ssa.Value, res ssa.Value, field string) bool {
	u, ok := v.(*ssa.UnOp)
	if !ok || u.Op != token.MUL {
		return false
	}
	fa, ok := u.X.(*ssa.FieldAddr)
	if !ok || fa.X != res {
		return false
	}
	return fieldNameOf(fa) == field
}

func fieldNameOf(fa *ssa.FieldAddr) string {
	t := fa.X.Type().Underlying()
	if p, ok := t.(*types.Pointer); ok {
		t = p.Elem().Underlying()
	}
	if st, ok := t.(*types.Struct); ok && fa.Field < st.NumFields() {
		return st.Field(fa.Field).Name()
	}
	return ""
}

func isGlobalLoad(v ssa.Value, pkgPath, name string) bool {
	u, ok := v.(*ssa.UnOp)
	if !ok || u.Op != token.MUL {
		return false
	}
	g, ok := u.X.(*ssa.Global)
	return ok && g.Name() == name && g.Pkg != nil && g.Pkg.Pkg.Path() == pkgPath
}

// errorTextOf: v is `E.Error()`; returns E.
func errorTextOf(v ssa.Value) ssa.Value {
	c, ok := v.(*ssa.Call)
	if !ok || !c.Call.IsInvoke() || c.Call.Method.Name() != "Error" || len(c.Call.Args) != 0 {
		return nil
	}
	if !types.Identical(c.Call.Value.Type(), types.Universe.Lookup("error").Type()) {
		return nil
	}
	return c.Call.Value
}

// isOOGTextCompare: cond is true exactly when the text of the error `is(E)` equals ErrOutOfGas's text.
func isOOGTextCompare(cond ssa.Value, is func(ssa.Value) bool, depth int) bool {
	switch c := cond.(type) {
	case *ssa.BinOp:
		if c.Op != token.EQL {
			return false
		}
		x, y := errorTextOf(c.X), errorTextOf(c.Y)
		if x == nil || y == nil {
			return false
		}
		oog := func(v ssa.Value) bool { return isGlobalLoad(v, forkPath(pkVM), "ErrOutOfGas") }
		return is(x) && oog(y) || is(y) && oog(x)
	case *ssa.Call:
		// a fork helper that performs the comparison on one of its parameters
		f := c.Call.StaticCallee()
		if f == nil || !isForkPkg(f.Pkg) || f.Blocks == nil || depth > 2 || len(c.Call.Args) != len(f.Params) {
			return false
		}
		idx := -1
		for i, a := range c.Call.Args {
			if is(a) {
				idx = i
			}
		}
		if idx < 0 {
			return false
		}
		n := 0
		for _, b := range f.Blocks {
			ret, ok := b.Instrs[len(b.Instrs)-1].(*ssa.Return)
			if !ok {
				continue
			}
			n++
			if len(ret.Results) != 1 || !isOOGTextCompare(ret.Results[0], func(v ssa.Value) bool { return v == ssa.Value(f.Params[idx]) }, depth+1) {
				return false
			}
		}
		return n > 0
	}
	return false
}

// resultAlloc: the cell of the named result `name` when it is captured by a closure (heap cell).
func resultAlloc(fn *ssa.Function, name string) *ssa.Alloc {
	if name == "" {
		return nil
	}
	for _, b := range fn.Blocks {
		for _, ins := range b.Instrs {
			if a, ok := ins.(*ssa.Alloc); ok && a.Comment == name {
				return a
			}
		}
	}
	return nil
}

// reachesReturnErr: v flows (through phis) into the last result of a return of fn.
func reachesReturnErr(v ssa.Value, seen map[ssa.Value]bool) bool {
	if seen[v] || v.Referrers() == nil {
		return false
	}
	seen[v] = true
	for _, ins := range *v.Referrers() {
		switch x := ins.(type) {
		case *ssa.Return:
			if len(x.Results) > 0 && x.Results[len(x.Results)-1] == v {
				return true
			}
		case *ssa.Phi:
			if reachesReturnErr(x, seen) {
				return true
			}
		}
	}
	return false
}

// addR63: out-of-gas normalisation. In Call, for each join-point result X there is a branch whose
// condition compares the text of X.Err with the text of ErrOutOfGas, and on its true side the package
// variable ErrOutOfGas is stored into X.Err or into the frame's error result (what the frame then
// returns, by R4.4).
func addR63(w *World, r *Report) {
	fn := w.Func(forkPath(pkVM), "(*EVM).Call")
	fl := w.newFlow(forkPath(pkVM), "(*EVM).Call")
	if fn == nil || fl == nil {
		r.undecided("R6.3", "vm.(*EVM).Call", "-", "function not found")
		return
	}
	errCell := resultAlloc(fn, fl.resultName(0))
	for _, jp := range jpCallsSSA(fn) {
		key := "vm.(*EVM).Call/" + jp.kind
		res := ssa.Value(jp.call)
		isErr := func(v ssa.Value) bool { return isFieldLoad(v, res, "Err") }
		found := false
		for _, b := range fn.Blocks {
			iff, ok := b.Instrs[len(b.Instrs)-1].(*ssa.If)
			if !ok || !isOOGTextCompare(iff.Cond, isErr, 0) {
				continue
			}
			t := b.Succs[0]
			if t == b.Succs[1] || len(t.Preds) != 1 {
				continue
			}
			for _, d := range fn.Blocks {
				if !t.Dominates(d) {
					continue
				}
				for _, ins := range d.Instrs {
					switch x := ins.(type) {
					case *ssa.Store:
						if !isGlobalLoad(x.Val, forkPath(pkVM), "ErrOutOfGas") {
							continue
						}
						if fa, ok := x.Addr.(*ssa.FieldAddr); ok && fa.X == res && fieldNameOf(fa) == "Err" {
							found = true
						}
						if errCell != nil && x.Addr == ssa.Value(errCell) {
							found = true
						}
					case *ssa.UnOp:
						if errCell == nil && isGlobalLoad(x, forkPath(pkVM), "ErrOutOfGas") && reachesReturnErr(x, map[ssa.Value]bool{}) {
							found = true
						}
					}
				}
			}
		}
		if found {
			r.holds("R6.3", key, w.pos(jp.call.Pos()), "the join point's textual out-of-gas is replaced by the package variable ErrOutOfGas before the frame's error is returned")
		} else {
			r.violated("R6.3", key, w.pos(jp.call.Pos()), "no normalisation of the "+jp.kind+"-call join point's out-of-gas error to vm.ErrOutOfGas on its error path")
		}
	}
	r.need("R6.3", 2)
}

// textOfErr: v is the text of the error `is(E)` when E is non-nil and the empty string otherwise
// (a constant "", E.Error(), a phi of those, or a fork helper that computes one from its parameter).
// hasText reports that at least one operand is E.Error().
func textOfErr(v ssa.Value, is func(ssa.Value) bool, depth int, seen map[ssa.Value]bool) (ok, hasText bool) {
	if seen[v] {
		return true, false
	}
	seen[v] = true
	switch x := v.(type) {
	case *ssa.Const:
		if b, isB := x.Type().Underlying().(*types.Basic); isB && b.Info()&types.IsString != 0 && x.Value != nil && x.Value.ExactString() == `""` {
			return true, false
		}
	case *ssa.Phi:
		any := false
		for _, e := range x.Edges {
			o, h := textOfErr(e, is, depth, seen)
			if !o {
				return false, false
			}
			any = any || h
		}
		return true, any
	case *ssa.Call:
		if e := errorTextOf(x); e != nil {
			return is(e), true
		}
		f := x.Call.StaticCallee()
		if f == nil || !isForkPkg(f.Pkg) || f.Blocks == nil || depth > 2 || len(x.Call.Args) != len(f.Params) {
			return false, false
		}
		idx := -1
		for i, a := range x.Call.Args {
			if is(a) {
				idx = i
			}
		}
		if idx < 0 {
			return false, false
		}
		any, n := false, 0
		for _, b := range f.Blocks {
			ret, isRet := b.Instrs[len(b.Instrs)-1].(*ssa.Return)
			if !isRet {
				continue
			}
			n++
			if len(ret.Results) != 1 {
				return false, false
			}
			o, h := textOfErr(ret.Results[0], func(v ssa.Value) bool { return v == ssa.Value(f.Params[idx]) }, depth+1, map[ssa.Value]bool{})
			if !o {
				return false, false
			}
			any = any || h
		}
		return n > 0, any
	}
	return false, false
}

// postErrorTextOK (R5.4): the Error field of the post-call message points at a cell that only ever
// holds "" or the text of the frame's error result.
func postErrorTextOK(w *World, fn *ssa.Function, errName string) (bool, token.Pos, string) {
	errCell := resultAlloc(fn, errName)
	isErr := func(v ssa.Value) bool {
		u, ok := v.(*ssa.UnOp)
		return ok && u.Op == token.MUL && errCell != nil && u.X == ssa.Value(errCell)
	}
	if errCell == nil {
		return false, token.NoPos, "the frame's error result is not a cell (not captured by the deferred exit): the rule's anchor does not resolve"
	}
	var cell *ssa.Alloc
	var pos token.Pos
	for _, b := range fn.Blocks {
		for _, ins := range b.Instrs {
			st, ok := ins.(*ssa.Store)
			if !ok {
				continue
			}
			fa, ok := st.Addr.(*ssa.FieldAddr)
			if !ok || fieldNameOf(fa) != "Error" || typeBaseName(fa.X.Type()) != "PostExecMessageInput" {
				continue
			}
			if cell != nil {
				return false, st.Pos(), "the Error field of the post-call message is set twice"
			}
			a, isAlloc := st.Val.(*ssa.Alloc)
			if !isAlloc {
				return false, st.Pos(), "the Error field of the post-call message is not the address of a local string"
			}
			cell, pos = a, st.Pos()
		}
	}
	if cell == nil {
		return false, token.NoPos, "message field Error is not set"
	}
	any := false
	for _, ins := range *cell.Referrers() {
		switch x := ins.(type) {
		case *ssa.Store:
			if x.Addr != ssa.Value(cell) {
				continue // the cell's address stored into the message
			}
			o, h := textOfErr(x.Val, isErr, 0, map[ssa.Value]bool{})
			if !o {
				return false, x.Pos(), "the string the Error field points at is assigned something that is not the text of the frame's error"
			}
			any = any || h
		case *ssa.UnOp, *ssa.DebugRef:
		default:
			if _, isCall := ins.(ssa.CallInstruction); isCall {
				return false, ins.Pos(), "the string the Error field points at is handed to a call before the join point"
			}
		}
	}
	if !any {
		return false, pos, "the string the Error field points at never receives the text of the frame's error"
	}
	return true, pos, ""
}
