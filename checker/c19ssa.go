package main

// C19 R19.2 on SSA: declared sub-trace count = number of emitted children, as a rule on the values of
// the flattening functions (those that store a frame's Subtraces field), independent of how the loops
// and temporaries are spelled:
//   - the stored count is a sum of len(S) terms, each S the value of a collection field of the input
//     record (a parameter of the function);
//   - every call of a flattening function inside the function (an emission) lies in a loop and is handed
//     an element of such a collection (directly, or a copy of it made in the loop); the collections
//     emitted are exactly the collections counted;
//   - a collection emitted by one loop is emitted unconditionally: no path through the loop body
//     reaches the next iteration, or leaves the loop, without passing the emission (error propagation
//     after the emission excepted);
//   - a collection emitted by two loops is split by one decision per loop over the element, the same
//     condition in both, skipping on opposite outcomes.

import (
	"fmt"
	"go/constant"
	"go/token"
	"go/types"
	"sort"
	"strings"

	"golang.org/x/tools/go/ssa"
)

type natLoop struct {
	header  *ssa.BasicBlock
	blocks  map[*ssa.BasicBlock]bool
	latches []*ssa.BasicBlock
}

// naturalLoops: the natural loops of fn, one per header (back edges with the same header merged).
func naturalLoops(fn *ssa.Function) []*natLoop {
	byHeader := map[*ssa.BasicBlock]*natLoop{}
	var out []*natLoop
	for _, u := range fn.Blocks {
		for _, h := range u.Succs {
			if !h.Dominates(u) {
				continue
			}
			l := byHeader[h]
			if l == nil {
				l = &natLoop{header: h, blocks: map[*ssa.BasicBlock]bool{h: true}}
				byHeader[h] = l
				out = append(out, l)
			}
			l.latches = append(l.latches, u)
			stack := []*ssa.BasicBlock{u}
			for len(stack) > 0 {
				b := stack[len(stack)-1]
				stack = stack[:len(stack)-1]
				if l.blocks[b] {
					continue
				}
				l.blocks[b] = true
				stack = append(stack, b.Preds...)
			}
		}
	}
	return out
}

func innermostLoop(loops []*natLoop, b *ssa.BasicBlock) *natLoop {
	var best *natLoop
	for _, l := range loops {
		if l.blocks[b] && (best == nil || len(l.blocks) < len(best.blocks)) {
			best = l
		}
	}
	return best
}

// flattenFuncs: the functions of tracers/native that store a frame's Subtraces field.
func flattenFuncs(w *World) (fns []*ssa.Function, stores map[*ssa.Function][]*ssa.Store) {
	stores = map[*ssa.Function][]*ssa.Store{}
	for _, fn := range w.Funcs(forkPath(pkNative)) {
		for _, b := range fn.Blocks {
			for _, ins := range b.Instrs {
				if st, ok := ins.(*ssa.Store); ok {
					if fa, ok := st.Addr.(*ssa.FieldAddr); ok && fieldNameOf(fa) == "Subtraces" {
						stores[fn] = append(stores[fn], st)
					}
				}
			}
		}
		if len(stores[fn]) > 0 {
			fns = append(fns, fn)
		}
	}
	sort.Slice(fns, func(i, j int) bool { return fns[i].Name() < fns[j].Name() })
	return
}

// collOf: v is the value of a collection field of a parameter: load(&param.Field) -> "param#i.Field".
func collOf(v ssa.Value) string {
	// a slice parameter of a helper is the collection its caller hands over
	if p, isP := v.(*ssa.Parameter); isP {
		if _, isSlice := p.Type().Underlying().(*types.Slice); isSlice {
			for i, q := range p.Parent().Params {
				if q == p {
					return fmt.Sprintf("param#%d", i)
				}
			}
		}
		return ""
	}
	u, ok := v.(*ssa.UnOp)
	if !ok || u.Op != token.MUL {
		return ""
	}
	fa, ok := u.X.(*ssa.FieldAddr)
	if !ok {
		return ""
	}
	p, ok := fa.X.(*ssa.Parameter)
	if !ok {
		return ""
	}
	for i, q := range p.Parent().Params {
		if q == p {
			return fmt.Sprintf("param#%d.%s", i, fieldNameOf(fa))
		}
	}
	return ""
}

// singleStore: the only value ever stored into the cell a (nil when there are several or none).
func singleStore(a *ssa.Alloc) ssa.Value {
	var val ssa.Value
	for _, r := range *a.Referrers() {
		if st, ok := r.(*ssa.Store); ok && st.Addr == ssa.Value(a) {
			if val != nil {
				return nil
			}
			val = st.Val
		}
	}
	return val
}

// elemOf: v is (the address of, or a copy of) an element of a collection: returns the collection.
func elemOf(v ssa.Value, depth int) string {
	if depth > 4 {
		return ""
	}
	switch x := v.(type) {
	case *ssa.IndexAddr:
		return collOf(x.X)
	case *ssa.UnOp:
		if x.Op == token.MUL {
			return elemOf(x.X, depth+1)
		}
	case *ssa.Alloc:
		if s := singleStore(x); s != nil {
			return elemOf(s, depth+1)
		}
	}
	return ""
}

// canonCond prints a condition over the element of collection coll, the loop's element printed as $elem.
func canonCond(v ssa.Value, coll string, depth int) string {
	if depth > 8 {
		return "…"
	}
	if _, isAddr := v.Type().Underlying().(*types.Pointer); isAddr && elemOf(v, 0) == coll {
		switch v.(type) {
		case *ssa.IndexAddr, *ssa.Alloc:
			return "$elem"
		}
	}
	switch x := v.(type) {
	case *ssa.Const:
		if x.Value == nil {
			return "nil"
		}
		if x.Value.Kind() == constant.String {
			return x.Value.ExactString()
		}
		return x.Value.String()
	case *ssa.Parameter:
		for i, q := range x.Parent().Params {
			if q == x {
				return fmt.Sprintf("param#%d", i)
			}
		}
	case *ssa.Global:
		return normPath(x.String())
	case *ssa.UnOp:
		return x.Op.String() + canonCond(x.X, coll, depth+1)
	case *ssa.BinOp:
		return "(" + canonCond(x.X, coll, depth+1) + " " + x.Op.String() + " " + canonCond(x.Y, coll, depth+1) + ")"
	case *ssa.FieldAddr:
		return canonCond(x.X, coll, depth+1) + "." + fieldNameOf(x)
	case *ssa.Field:
		name := "?"
		if st, ok := x.X.Type().Underlying().(*types.Struct); ok && x.Field < st.NumFields() {
			name = st.Field(x.Field).Name()
		}
		// the field of a loaded struct value prints like the load of the field's address
		s := canonCond(x.X, coll, depth+1)
		if strings.HasPrefix(s, "*") {
			return "*" + s[1:] + "." + name
		}
		return s + "." + name
	case *ssa.IndexAddr:
		return canonCond(x.X, coll, depth+1) + "[" + canonCond(x.Index, coll, depth+1) + "]"
	case *ssa.Call:
		name := ""
		if f := x.Call.StaticCallee(); f != nil {
			name = normPath(f.String())
		} else if x.Call.IsInvoke() {
			name = canonCond(x.Call.Value, coll, depth+1) + "." + x.Call.Method.Name()
		} else if b, ok := x.Call.Value.(*ssa.Builtin); ok {
			name = b.Name()
		} else {
			name = "?" + x.Name()
		}
		var as []string
		for _, a := range x.Call.Args {
			as = append(as, canonCond(a, coll, depth+1))
		}
		return name + "(" + strings.Join(as, ", ") + ")"
	case *ssa.ChangeType:
		return canonCond(x.X, coll, depth+1)
	case *ssa.Convert:
		return canonCond(x.X, coll, depth+1)
	}
	return "?" + v.Name()
}

type emission struct {
	call     *ssa.Call
	coll     string
	loop     *natLoop
	cond     string // "" = unconditional
	skipWhen bool
	bad      string
}

// loopGuardsOK: "" when nothing outside the emitting loop (e.loop) can keep control from reaching it except the
// emptiness test of the same collection or an error return; otherwise the reason.
func loopGuardsOK(e *emission) string {
	// guards around the loop: a decision outside the loop that can keep control from reaching it must be the
	// emptiness test of the same collection or lead to an error return
	l := e.loop
	fn := e.call.Block().Parent()
	reaches := func(from, to *ssa.BasicBlock) bool {
		seen := map[*ssa.BasicBlock]bool{}
		stack := []*ssa.BasicBlock{from}
		for len(stack) > 0 {
			b := stack[len(stack)-1]
			stack = stack[:len(stack)-1]
			if b == to {
				return true
			}
			if seen[b] {
				continue
			}
			seen[b] = true
			stack = append(stack, b.Succs...)
		}
		return false
	}
	for _, d := range fn.Blocks {
		if l.blocks[d] || !d.Dominates(l.header) {
			continue
		}
		iff, isIf := d.Instrs[len(d.Instrs)-1].(*ssa.If)
		if !isIf {
			continue
		}
		for i, s := range d.Succs {
			if reaches(s, l.header) {
				continue
			}
			// s avoids the loop
			okGuard := false
			if bo, ok := iff.Cond.(*ssa.BinOp); ok && bo.Op == token.GTR && i == 1 {
				if c, ok := bo.X.(*ssa.Call); ok {
					if bi, ok := c.Call.Value.(*ssa.Builtin); ok && bi.Name() == "len" && collOf(c.Call.Args[0]) == e.coll {
						if k, ok := bo.Y.(*ssa.Const); ok && k.Value != nil && k.Value.String() == "0" {
							okGuard = true
						}
					}
				}
			}
			if ret, ok := s.Instrs[len(s.Instrs)-1].(*ssa.Return); ok && len(ret.Results) > 0 {
				if k, isConst := ret.Results[len(ret.Results)-1].(*ssa.Const); !isConst || !k.IsNil() {
					okGuard = true // an error return
				}
			}
			if !okGuard {
				return "the emitting loop is itself executed only under a condition (" + canonCond(iff.Cond, e.coll, 0) + ") although its elements are always counted"
			}
		}
	}
	return ""
}

// normBoolCond rewrites a decision compared with a boolean constant into the decision itself:
// skip-when((A != true) = b) is skip-when(A = !b), and so on; a leading negation flips the outcome.
func normBoolCond(cond string, skipWhen bool) (string, bool) {
	for {
		c := strings.TrimSpace(cond)
		switch {
		case strings.HasPrefix(c, "(") && strings.HasSuffix(c, " != true)"):
			cond, skipWhen = c[1:len(c)-len(" != true)")], !skipWhen
		case strings.HasPrefix(c, "(") && strings.HasSuffix(c, " == false)"):
			cond, skipWhen = c[1:len(c)-len(" == false)")], !skipWhen
		case strings.HasPrefix(c, "(") && strings.HasSuffix(c, " != false)"):
			cond = c[1 : len(c)-len(" != false)")]
		case strings.HasPrefix(c, "(") && strings.HasSuffix(c, " == true)"):
			cond = c[1 : len(c)-len(" == true)")]
		case strings.HasPrefix(c, "!"):
			cond, skipWhen = c[1:], !skipWhen
		default:
			return c, skipWhen
		}
	}
}

// analyseEmission decides how the emission in block eb is guarded inside its loop.
func analyseEmission(e *emission) {
	l, eb := e.loop, e.call.Block()
	inBody := func(b *ssa.BasicBlock) bool { return l.blocks[b] && b != l.header }
	// blocks that can still reach the emission in this iteration
	reach := map[*ssa.BasicBlock]bool{eb: true}
	for changed := true; changed; {
		changed = false
		for b := range l.blocks {
			if reach[b] {
				continue
			}
			for _, s := range b.Succs {
				if inBody(s) && reach[s] {
					reach[b] = true
					changed = true
				}
			}
		}
	}
	var deciding []*ssa.BasicBlock
	for b := range l.blocks {
		for _, s := range b.Succs {
			if !l.blocks[s] && b != l.header && !eb.Dominates(b) {
				e.bad = "the loop can be left before the element is emitted (the remaining elements are counted but not emitted)"
				return
			}
		}
		if b == l.header || !reach[b] || eb.Dominates(b) {
			continue
		}
		if _, isIf := b.Instrs[len(b.Instrs)-1].(*ssa.If); !isIf {
			continue
		}
		for _, s := range b.Succs {
			if !(inBody(s) && reach[s]) {
				deciding = append(deciding, b)
				break
			}
		}
	}
	if why := loopGuardsOK(e); why != "" {
		e.bad = why
		return
	}
	// the header decides only whether there is another element; a header that reaches the emission through its
	// body successor is not a guard
	switch len(deciding) {
	case 0:
	case 1:
		b := deciding[0]
		iff := b.Instrs[len(b.Instrs)-1].(*ssa.If)
		skip0 := !(inBody(b.Succs[0]) && reach[b.Succs[0]])
		skip1 := !(inBody(b.Succs[1]) && reach[b.Succs[1]])
		if skip0 && skip1 {
			e.bad = "the emission cannot be reached"
			return
		}
		cond := iff.Cond
		flip := false
		for {
			u, ok := cond.(*ssa.UnOp)
			if !ok || u.Op != token.NOT {
				break
			}
			cond, flip = u.X, !flip
		}
		e.cond = canonCond(cond, e.coll, 0)
		e.skipWhen = skip0 != flip
	default:
		e.bad = "the emission depends on more than one decision"
	}
}

func addSubtraceRule(w *World, r *Report, rule string) {
	fns, stores := flattenFuncs(w)
	isFlatten := map[*ssa.Function]bool{}
	for _, f := range fns {
		isFlatten[f] = true
	}
	for _, fn := range fns {
		key := "tracers/native." + fn.Name()
		pos := stores[fn][0].Pos()
		var bad []string
		// the terms of the count
		var terms []string
		var walk func(v ssa.Value) bool
		walk = func(v ssa.Value) bool {
			switch x := v.(type) {
			case *ssa.BinOp:
				return x.Op == token.ADD && walk(x.X) && walk(x.Y)
			case *ssa.Call:
				if b, ok := x.Call.Value.(*ssa.Builtin); ok && b.Name() == "len" && len(x.Call.Args) == 1 {
					if c := collOf(x.Call.Args[0]); c != "" {
						terms = append(terms, c)
						return true
					}
				}
			}
			return false
		}
		if len(stores[fn]) != 1 {
			bad = append(bad, fmt.Sprintf("the sub-trace count is stored %d times", len(stores[fn])))
		}
		if !walk(stores[fn][0].Val) {
			bad = append(bad, "the sub-trace count is not a sum of len(<collection of the input record>) terms")
		}
		// the emissions
		loops := naturalLoops(fn)
		var ems []*emission
		for _, b := range fn.Blocks {
			for _, ins := range b.Instrs {
				c, ok := ins.(*ssa.Call)
				if !ok || c.Call.StaticCallee() == nil || !isFlatten[c.Call.StaticCallee()] || len(c.Call.Args) == 0 {
					continue
				}
				e := &emission{call: c, coll: elemOf(c.Call.Args[0], 0), loop: innermostLoop(loops, b)}
				switch {
				case e.coll == "":
					e.bad = "a child is emitted that is not an element of a collection of the input record (it is not counted)"
				case e.loop == nil:
					e.bad = "an element of " + e.coll + " is emitted outside a loop"
				default:
					analyseEmission(e)
				}
				ems = append(ems, e)
			}
		}
		// emissions through a fork helper: the helper emits the elements of a collection it is handed (a slice
		// parameter, or a collection field of a record parameter); every call of it in fn is one emission of the
		// collection bound at that call, under the helper's own decision with its parameters replaced by the
		// (constant) arguments
		for _, b := range fn.Blocks {
			for _, ins := range b.Instrs {
				c, ok := ins.(*ssa.Call)
				h := (*ssa.Function)(nil)
				if ok {
					h = c.Call.StaticCallee()
				}
				if h == nil || isFlatten[h] || h.Pkg == nil || h.Pkg.Pkg.Path() != forkPath(pkNative) || h.Blocks == nil || len(c.Call.Args) != len(h.Params) {
					continue
				}
				hloops := naturalLoops(h)
				for _, hb := range h.Blocks {
					for _, hins := range hb.Instrs {
						hc, ok := hins.(*ssa.Call)
						if !ok || hc.Call.StaticCallee() == nil || !isFlatten[hc.Call.StaticCallee()] || len(hc.Call.Args) == 0 {
							continue
						}
						he := &emission{call: hc, coll: elemOf(hc.Call.Args[0], 0), loop: innermostLoop(hloops, hb)}
						e := &emission{call: c, loop: &natLoop{header: hb}} // one emission per call site of the helper
						switch {
						case he.coll == "":
							e.bad = "the helper " + h.Name() + " emits a child that is not an element of a collection it was handed"
						case he.loop == nil:
							e.bad = "the helper " + h.Name() + " emits an element outside a loop"
						default:
							analyseEmission(he)
							e.bad = he.bad
						}
						if e.bad == "" {
							// bind the helper's collection and decision to this call
							var k int
							field := ""
							if _, err := fmt.Sscanf(he.coll, "param#%d.%s", &k, &field); err != nil {
								field = ""
								if _, err2 := fmt.Sscanf(he.coll, "param#%d", &k); err2 != nil {
									k = -1
								}
							}
							switch {
							case k < 0 || k >= len(c.Call.Args):
								e.bad = "the collection the helper " + h.Name() + " emits could not be bound at its call"
							case field == "":
								e.coll = collOf(c.Call.Args[k])
							default:
								if p, isP := c.Call.Args[k].(*ssa.Parameter); isP {
									for i, q := range fn.Params {
										if q == p {
											e.coll = fmt.Sprintf("param#%d.%s", i, field)
										}
									}
								}
							}
							if e.coll == "" && e.bad == "" {
								e.bad = "the collection handed to " + h.Name() + " is not a collection of the input record"
							}
							cond := he.cond
							for i := len(c.Call.Args) - 1; i >= 0; i-- {
								if kc, isConst := c.Call.Args[i].(*ssa.Const); isConst {
									cond = strings.ReplaceAll(cond, fmt.Sprintf("param#%d", i), canonCond(kc, "", 0))
								}
							}
							e.cond, e.skipWhen = normBoolCond(cond, he.skipWhen)
							// the call of the helper itself must not be conditional
							if e.bad == "" {
								probe := &emission{call: c, coll: e.coll, loop: &natLoop{header: b, blocks: map[*ssa.BasicBlock]bool{b: true}}}
								if why := loopGuardsOK(probe); why != "" {
									e.bad = why
								}
							}
						}
						ems = append(ems, e)
					}
				}
			}
		}
		byColl := map[string][]*emission{}
		for _, e := range ems {
			if e.bad != "" {
				bad = append(bad, e.bad+" at "+w.pos(e.call.Pos()))
				continue
			}
			byColl[e.coll] = append(byColl[e.coll], e)
		}
		var colls []string
		for k := range byColl {
			colls = append(colls, k)
		}
		sort.Strings(colls)
		sort.Strings(terms)
		if strings.Join(colls, ",") != strings.Join(dedup(terms), ",") || len(dedup(terms)) != len(terms) {
			bad = append(bad, fmt.Sprintf("collections counted in Subtraces {%s} differ from the collections emitted recursively {%s}", strings.Join(terms, ", "), strings.Join(colls, ", ")))
		}
		for _, k := range colls {
			es := byColl[k]
			switch len(es) {
			case 1:
				if es[0].cond != "" {
					bad = append(bad, "elements of "+k+" are emitted only under a condition ("+es[0].cond+") but all of them are counted")
				}
			case 2:
				if es[0].loop == es[1].loop {
					bad = append(bad, k+" is emitted twice in one loop")
				} else if es[0].cond == "" || es[0].cond != es[1].cond || es[0].skipWhen == es[1].skipWhen {
					bad = append(bad, fmt.Sprintf("%s is emitted by two loops whose skip conditions `%s`=%v and `%s`=%v are not complementary: an element may be emitted twice or not at all", k, es[0].cond, es[0].skipWhen, es[1].cond, es[1].skipWhen))
				}
			default:
				bad = append(bad, fmt.Sprintf("%s is emitted by %d call sites", k, len(es)))
			}
		}
		if len(bad) > 0 {
			r.violated(rule, key, w.pos(pos), strings.Join(bad, "; "))
		} else {
			r.holds(rule, key, w.pos(pos), fmt.Sprintf("Subtraces = sum of len over {%s}; each of these collections is emitted element by element exactly once (%d emitting loops)", strings.Join(terms, ", "), len(ems)))
		}
	}
	if len(fns) < 2 {
		r.violated(rule, "instance-count", "-", fmt.Sprintf("expected at least 2 flattening functions storing Subtraces, found %d: the rule's anchors no longer resolve", len(fns)))
	}
	r.need(rule, 2)
}
