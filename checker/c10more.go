package main

// Rules added after the fourth batch of seeded changes.
//
// R10.9 (C10, C09) every journal instruction records on every successful path: each return with a nil error
//   of the eight journal instructions is preceded, on every path, by the call of the recorder
//   (Tracer.SaveStateChange / SaveStateKey). An early `return nil, nil` — e.g. "storage cannot change in a
//   static context" — silently drops the entries of that frame.
// R10.10 (C10, C09) the value handed to the recorder is not a view of interpreter state: none of its may-alias
//   roots is a field (a scratch buffer of the interpreter re-used by the next journal instruction would
//   rewrite the values already recorded, across calls and accounts).
// R12.6 (C12, C11) the registration path refuses only for the reviewed reasons: every condition that decides
//   an error return of StateChanges.saveKey is a test of the offset operand, a nil test of one of its own
//   parameters, a nil test of the parent found by findKey, or the error of a callee — in particular not the
//   absence of the account's root (a well-formed key journal in a frame whose account has no record yet,
//   e.g. one reached by STATICCALL only, would halt the frame).

import (
	"fmt"
	"go/token"
	"strings"

	"golang.org/x/tools/go/ssa"
)

func isRecorderCall(c ssa.CallInstruction) bool {
	cal := c.Common().StaticCallee()
	if cal == nil || cal.Signature.Recv() == nil || typeBaseName(cal.Signature.Recv().Type()) != "Tracer" {
		return false
	}
	return cal.Name() == "SaveStateChange" || cal.Name() == "SaveStateKey"
}

func addMustRecordRule(w *World, r *Report, rule string) {
	slots := w.journalSlots()
	for _, js := range slots {
		key := fmt.Sprintf("slot 0x%02x %s/records-on-success", js.slot, js.execute)
		fn := w.Func(forkPath(pkVM), js.execute)
		if fn == nil {
			r.undecided(rule, key, w.pos(js.pos), "execute function not resolved")
			continue
		}
		leak := mustCallBeforeReturn(fn, isRecorderCall, nilErrorReturn)
		if leak != nil {
			r.violated(rule, key, w.pos(leak.Pos()), "a path returns successfully without having called the recorder: the journal entry of this execution is dropped")
		} else {
			r.holds(rule, key, w.pos(fn.Pos()), "every successful return is preceded by the recorder call on every path")
		}
	}
	r.need(rule, 8)
}

func addRecordedValueFreshRule(w *World, r *Report, rule string) {
	eng := w.aliasEngine()
	n := 0
	for _, js := range w.journalSlots() {
		fn := w.Func(forkPath(pkVM), js.execute)
		if fn == nil {
			continue
		}
		for _, f2 := range journalFamilyFuncs(fn) {
			for _, b := range f2.Blocks {
				for _, ins := range b.Instrs {
					ci, ok := ins.(ssa.CallInstruction)
					if !ok || !isRecorderCall(ci) || ci.Common().StaticCallee().Name() != "SaveStateChange" {
						continue
					}
					args := ci.Common().Args
					val := args[len(args)-1]
					n++
					key := fmt.Sprintf("slot 0x%02x %s/recorded-value", js.slot, js.execute)
					var bad []string
					for _, rt := range eng.rootsOf(val, map[ssa.Value]bool{}) {
						if rt.field != "" {
							bad = append(bad, "field "+rt.field)
						}
						if rt.free != nil {
							bad = append(bad, "captured variable "+rt.free.Name())
						}
					}
					if len(bad) > 0 {
						r.violated(rule, key, w.pos(ins.Pos()), "the value handed to the recorder may share storage with "+strings.Join(dedup(bad), ", ")+": the recorder keeps the slice, so a later instruction re-using that storage rewrites entries already recorded")
					} else {
						r.holds(rule, key, w.pos(ins.Pos()), "the recorded value has no field or captured variable among its may-alias roots")
					}
				}
			}
		}
	}
	r.need(rule, 2)
	_ = n
}

func addRegistrationRefusalRule(w *World, r *Report, rule string) {
	key := "vm.(*StateChanges).saveKey/refusals"
	fn := w.Func(forkPath(pkVM), "(*StateChanges).saveKey")
	if fn == nil {
		r.undecided(rule, key, "-", "function not found")
		return
	}
	var offset ssa.Value
	for _, p := range fn.Params {
		if p.Name() == "offset" || (offset == nil && isBignumPtr(p.Type()) && strings.Contains(strings.ToLower(p.Name()), "off")) {
			offset = p
		}
	}
	classify := func(cond ssa.Value) string {
		for {
			u, ok := cond.(*ssa.UnOp)
			if !ok || u.Op != token.NOT {
				break
			}
			cond = u.X
		}
		if offset != nil && dependsOnValue(cond, offset, 8) {
			return "offset"
		}
		if bo, ok := cond.(*ssa.BinOp); ok && (bo.Op == token.EQL || bo.Op == token.NEQ) {
			other := bo.X
			if k, isK := bo.X.(*ssa.Const); isK && k.IsNil() {
				other = bo.Y
			} else if k, isK := bo.Y.(*ssa.Const); !isK || !k.IsNil() {
				other = nil
			}
			switch o := other.(type) {
			case *ssa.Parameter:
				return "param-nil"
			case *ssa.Call:
				if cal := o.Call.StaticCallee(); cal != nil && cal.Name() == "findKey" {
					return "parent-missing"
				}
				if isErrorT(o.Type()) {
					return "callee-error"
				}
			case *ssa.Extract:
				if isErrorT(o.Type()) {
					if _, isCall := o.Tuple.(*ssa.Call); isCall {
						return "callee-error"
					}
				}
			case *ssa.Phi:
				if isErrorT(o.Type()) {
					return "callee-error"
				}
			}
		}
		return "other: " + cond.String()
	}
	var bad []string
	n := 0
	for _, b := range fn.Blocks {
		ret, ok := b.Instrs[len(b.Instrs)-1].(*ssa.Return)
		if !ok || nilErrorReturn(ret) {
			continue
		}
		for d := b; d != nil; d = d.Idom() {
			p := d.Idom()
			if p == nil {
				break
			}
			iff, ok := p.Instrs[len(p.Instrs)-1].(*ssa.If)
			if !ok || len(p.Succs) != 2 || p.Succs[0] == p.Succs[1] {
				continue
			}
			if (p.Succs[0] == d || p.Succs[0].Dominates(d)) == (p.Succs[1] == d || p.Succs[1].Dominates(d)) {
				continue
			}
			n++
			if cl := classify(iff.Cond); strings.HasPrefix(cl, "other") {
				bad = append(bad, "the return at "+w.pos(ret.Pos())+" is decided by `"+iff.Cond.String()+"`")
			}
		}
	}
	if len(bad) > 0 {
		r.violated(rule, key, w.pos(fn.Pos()), "the registration of a key can be refused for a reason outside the reviewed ones (offset operand, missing parent, error of a callee): "+strings.Join(dedup(bad), "; ")+" — a well-formed key journal then halts the frame depending on what was recorded before")
	} else {
		r.holds(rule, key, w.pos(fn.Pos()), fmt.Sprintf("%d deciding conditions on the way to an error return: offset operand, nil tests of parameters, missing parent, callee errors", n))
	}
	r.need(rule, 1)
}

func isErrorT(t interface{ String() string }) bool { return t.String() == "error" }

// dependsOnValue: v is computed from target (through operands and phis).
func dependsOnValue(v, target ssa.Value, depth int) bool {
	if v == target {
		return true
	}
	if depth == 0 {
		return false
	}
	ins, ok := v.(ssa.Instruction)
	if !ok {
		return false
	}
	var rands []*ssa.Value
	for _, op := range ins.Operands(rands) {
		if *op != nil && dependsOnValue(*op, target, depth-1) {
			return true
		}
	}
	return false
}
