package main

// E1 (part 5): package-level declarations of the fork agree with the reference:
// constants by value, named types structurally, variables by initialiser (keyed composite
// literals as key->element maps so that extra fork-only keys are visible as such).

import (
	"fmt"
	"go/ast"
	"go/token"
	"go/types"
	"sort"
	"strings"

	"golang.org/x/tools/go/packages"
)

// constChanges: reviewed constants whose value differs from the reference.
var constChanges = map[string]string{
	"P0.TLOAD":  "92", // 0x5c (EIP-1153 final numbering; the reference still has 0xb3)
	"P0.TSTORE": "93", // 0x5d
}

// varExtraKeys: reviewed extra keys in package-level keyed literals (variable -> canonical key -> reason).
var varExtraKeys = map[string]map[string]string{
	"P0.PrecompiledContractsBerlin": {
		"github.com/ethereum/go-ethereum/common.BytesToAddress([]byte{100})": "Artela context-read precompile 0x64",
		"github.com/ethereum/go-ethereum/common.BytesToAddress([]byte{101})": "Artela user-op-sender precompile 0x65",
		"github.com/ethereum/go-ethereum/common.BytesToAddress([]byte{102})": "Artela context-write precompile 0x66",
	},
	"P0.activators": {"5656": "EIP-5656 activator (extra EIP, not part of any fork <= Shanghai)"},
}

// declMissingOK: pairs for which reference objects absent from the fork are expected (partial ports).
var declMissingOK = map[int]bool{pkTracers: true, pkCore: true}

type declIndex struct {
	vars map[string]ast.Expr // name -> initialiser (nil: zero / multi-value)
	multi map[string]bool
	info *types.Info
}

func indexVars(p *packages.Package) *declIndex {
	d := &declIndex{vars: map[string]ast.Expr{}, multi: map[string]bool{}, info: p.TypesInfo}
	for _, f := range p.Syntax {
		for _, dc := range f.Decls {
			gd, ok := dc.(*ast.GenDecl)
			if !ok || gd.Tok != token.VAR {
				continue
			}
			for _, s := range gd.Specs {
				vs := s.(*ast.ValueSpec)
				for i, nm := range vs.Names {
					switch {
					case len(vs.Values) == len(vs.Names):
						d.vars[nm.Name] = vs.Values[i]
					case len(vs.Values) == 0:
						d.vars[nm.Name] = nil
					default:
						d.vars[nm.Name] = vs.Values[0]
						d.multi[nm.Name] = true
					}
				}
			}
		}
	}
	return d
}

func structTagged(st *types.Struct) []string {
	var out []string
	for i := 0; i < st.NumFields(); i++ {
		f := st.Field(i)
		emb := ""
		if f.Embedded() {
			emb = "embedded "
		}
		out = append(out, fmt.Sprintf("%s%s %s `%s`", emb, f.Name(), normType(f.Type()), st.Tag(i)))
	}
	return out
}

// declRule adds the declaration obligations of one package pair under the given rule id.
func (s *e1State) declRule(r *Report, rule string, pair int) {
	w := s.w
	fp, rp := w.Pkgs[forkPath(pair)], w.Pkgs[refPath(pair)]
	short := pkgShort(pair)
	P := fmt.Sprintf("P%d.", pair)
	fs, rs := fp.Types.Scope(), rp.Types.Scope()
	fvars, rvars := indexVars(fp), indexVars(rp)
	nConst, nType, nVar := 0, 0, 0
	var bad []string
	fail := func(key, pos, msg string) {
		bad = append(bad, key)
		r.violated(rule, short+"."+key, pos, msg)
	}
	for _, name := range rs.Names() {
		ro := rs.Lookup(name)
		fo := fs.Lookup(name)
		if fo == nil {
			if _, isFunc := ro.(*types.Func); isFunc {
				continue // functions are handled by the clone rule (missing list)
			}
			if !declMissingOK[pair] {
				fail("decl:"+name, "-", fmt.Sprintf("reference %T %s has no counterpart in the fork", ro, name))
			}
			continue
		}
		pos := w.pos(fo.Pos())
		switch ro := ro.(type) {
		case *types.Const:
			nConst++
			fc, ok := fo.(*types.Const)
			if !ok {
				fail("const:"+name, pos, "is a constant in the reference but not in the fork")
				continue
			}
			rv, fv := ro.Val().ExactString(), fc.Val().ExactString()
			if want, changed := constChanges[P+name]; changed {
				if fv != want {
					fail("const:"+name, pos, fmt.Sprintf("reviewed renumbered constant has value %s, expected %s", fv, want))
				} else {
					r.holds(rule, short+".const:"+name, pos, "reviewed renumbering "+rv+" -> "+fv)
				}
				continue
			}
			if rv != fv || normType(ro.Type()) != normType(fc.Type()) {
				fail("const:"+name, pos, fmt.Sprintf("constant value/type differs from the reference: fork %s (%s), reference %s (%s)", fv, normType(fc.Type()), rv, normType(ro.Type())))
			}
		case *types.TypeName:
			nType++
			ft, ok := fo.(*types.TypeName)
			if !ok {
				fail("type:"+name, pos, "is a type in the reference but not in the fork")
				continue
			}
			if ro.IsAlias() != ft.IsAlias() {
				fail("type:"+name, pos, "alias-ness differs from the reference")
				continue
			}
			ru, fu := ro.Type().Underlying(), ft.Type().Underlying()
			rst, rok := ru.(*types.Struct)
			fst, fok := fu.(*types.Struct)
			if rok && fok {
				// reference fields must be an ordered subsequence of the fork's, with equal types and tags
				rf, ff := structTagged(rst), structTagged(fst)
				j := 0
				for _, want := range rf {
					found := false
					for ; j < len(ff); j++ {
						if ff[j] == want {
							found = true
							j++
							break
						}
					}
					if !found {
						fail("type:"+name, pos, "struct field `"+want+"` of the reference is missing, changed or reordered in the fork")
						break
					}
				}
				continue
			}
			if normType(ru) != normType(fu) {
				fail("type:"+name, pos, fmt.Sprintf("underlying type differs from the reference: fork %s, reference %s", clip(normType(fu), 120), clip(normType(ru), 120)))
			}
		case *types.Var:
			nVar++
			fv, ok := fo.(*types.Var)
			if !ok {
				fail("var:"+name, pos, "is a variable in the reference but not in the fork")
				continue
			}
			if normType(ro.Type()) != normType(fv.Type()) {
				fail("var:"+name, pos, fmt.Sprintf("variable type differs: fork %s, reference %s", normType(fv.Type()), normType(ro.Type())))
				continue
			}
			rInit, rHas := rvars.vars[name]
			fInit, fHas := fvars.vars[name]
			if !rHas || !fHas {
				continue
			}
			if msg := s.compareInit(P+name, rvars.info, fvars.info, rInit, fInit); msg != "" {
				fail("var:"+name, pos, "initialiser differs from the reference: "+msg)
			}
		}
	}
	r.Analysed["reference_constants_compared"] += nConst
	r.Analysed["reference_types_compared"] += nType
	r.Analysed["reference_vars_compared"] += nVar
	if len(bad) == 0 {
		r.holds(rule, short+".declarations", "-", fmt.Sprintf("%d constants, %d types, %d variables of the reference agree (modulo the reviewed renumbering and extra keys)", nConst, nType, nVar))
	}
}

// compareInit compares two initialiser expressions canonically; keyed composite literals are
// compared as maps with the fork allowed to carry reviewed extra keys.
func (s *e1State) compareInit(qname string, rinfo, finfo *types.Info, re, fe ast.Expr) string {
	if re == nil || fe == nil {
		if (re == nil) != (fe == nil) {
			return "one side has no initialiser"
		}
		return ""
	}
	rc := &astCanon{info: rinfo}
	fc := &astCanon{info: finfo}
	rl, rok := ast.Unparen(re).(*ast.CompositeLit)
	fl, fok := ast.Unparen(fe).(*ast.CompositeLit)
	if rok && fok && keyed(rl) && keyed(fl) {
		if rc.expr(rl.Type) != fc.expr(fl.Type) {
			return "literal type differs"
		}
		rm := map[string]string{}
		for _, el := range rl.Elts {
			kv := el.(*ast.KeyValueExpr)
			rm[rc.expr(kv.Key)] = rc.expr(kv.Value)
		}
		fm := map[string]string{}
		for _, el := range fl.Elts {
			kv := el.(*ast.KeyValueExpr)
			fm[fc.expr(kv.Key)] = fc.expr(kv.Value)
		}
		var msgs []string
		for k, v := range rm {
			fv, ok := fm[k]
			if !ok {
				msgs = append(msgs, "key "+clip(k, 60)+" of the reference is missing")
			} else if fv != v {
				msgs = append(msgs, "element at key "+clip(k, 60)+" differs: fork "+clip(fv, 80)+" vs reference "+clip(v, 80))
			}
		}
		for _, el := range fl.Elts {
			kv := el.(*ast.KeyValueExpr)
			k := fc.expr(kv.Key)
			if _, ok := rm[k]; ok {
				continue
			}
			if varExtraKeys[qname][k] != "" {
				continue
			}
			if s.mentionsForkOnly(finfo, kv) {
				continue
			}
			msgs = append(msgs, "extra key "+clip(k, 70)+" is neither reviewed nor built from fork-only constants/functions")
		}
		sort.Strings(msgs)
		return strings.Join(msgs, "; ")
	}
	a, b := rc.expr(re), fc.expr(fe)
	if a != b {
		return "fork `" + clip(b, 100) + "` vs reference `" + clip(a, 100) + "`"
	}
	return ""
}

func keyed(l *ast.CompositeLit) bool {
	if len(l.Elts) == 0 {
		return false
	}
	for _, e := range l.Elts {
		if _, ok := e.(*ast.KeyValueExpr); !ok {
			return false
		}
	}
	return true
}

// mentionsForkOnly: the key or the value of an extra element refers to a fork-only constant, function or type.
func (s *e1State) mentionsForkOnly(info *types.Info, n ast.Node) bool {
	found := false
	ast.Inspect(n, func(x ast.Node) bool {
		id, ok := x.(*ast.Ident)
		if !ok {
			return true
		}
		switch o := info.Uses[id].(type) {
		case *types.Const:
			if s.fo.Consts[o] {
				found = true
			}
		case *types.TypeName:
			if s.fo.Types[o] {
				found = true
			}
		case *types.Func:
			if o.Pkg() != nil && s.fo.Funcs[normPath(o.Pkg().Path())+"."+o.Name()] {
				found = true
			}
		}
		return !found
	})
	return found
}
