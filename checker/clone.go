package main

// E1 (part 1): SSA isomorphism between a fork function and its reference counterpart.

import (
	"fmt"
	"go/types"
	"sort"
	"strings"

	"golang.org/x/tools/go/ssa"
)

var pathReplacer *strings.Replacer

func init() {
	var args []string
	// longer paths first so that ".../vm/runtime" is replaced before ".../vm"
	idx := []int{pkRuntime, pkNative, pkLogger, pkTracers, pkVM, pkCore}
	for _, i := range idx {
		args = append(args, pkgPairs[i][1]+".", fmt.Sprintf("P%d.", i))
		args = append(args, pkgPairs[i][0]+".", fmt.Sprintf("P%d.", i))
	}
	for _, i := range idx {
		args = append(args, pkgPairs[i][1], fmt.Sprintf("P%d", i))
		args = append(args, pkgPairs[i][0], fmt.Sprintf("P%d", i))
	}
	pathReplacer = strings.NewReplacer(args...)
}

func normPath(s string) string { return pathReplacer.Replace(s) }

func isCtxType(t types.Type) bool {
	return t != nil && t.String() == "context.Context"
}

func normType(t types.Type) string {
	if t == nil {
		return "<nil>"
	}
	s := types.TypeString(t, nil)
	s = strings.ReplaceAll(s, "ctx context.Context, ", "")
	s = strings.ReplaceAll(s, "ctx context.Context", "")
	s = strings.ReplaceAll(s, "context.Context, ", "")
	s = strings.ReplaceAll(s, "(context.Context)", "()")
	return normPath(s)
}

type canon struct {
	n   int
	ids map[ssa.Value]int
	out []string // one line per instruction / block header
	pos []ssa.Instruction
}

func (c *canon) emit(ins ssa.Instruction, format string, a ...any) {
	c.out = append(c.out, fmt.Sprintf(format, a...))
	c.pos = append(c.pos, ins)
}

func (c *canon) ref(v ssa.Value) string {
	switch v := v.(type) {
	case nil:
		return "nil"
	case *ssa.Const:
		if v.Value == nil {
			return "const(nil:" + normType(v.Type()) + ")"
		}
		return "const(" + v.Value.ExactString() + ":" + normType(v.Type()) + ")"
	case *ssa.Function:
		if v.Parent() != nil {
			sub := canonFunc(v)
			return "anon{" + strings.Join(sub.out, "\n") + "}"
		}
		return "func(" + normPath(v.String()) + ")"
	case *ssa.Global:
		return "global(" + normPath(v.String()) + ")"
	case *ssa.Builtin:
		return "builtin(" + v.Name() + ")"
	}
	id, ok := c.ids[v]
	if !ok {
		id = c.n
		c.n++
		c.ids[v] = id
	}
	return fmt.Sprintf("v%d", id)
}

// canonFunc prints a function in canonical form: DFS block order, values numbered at first
// use, fields by name, context.Context parameters and arguments dropped, package paths of
// fork and reference mapped onto one name. Positions, local names and comments are invisible.
func canonFunc(fn *ssa.Function) *canon {
	c := &canon{ids: map[ssa.Value]int{}}
	for _, p := range fn.Params {
		if isCtxType(p.Type()) {
			c.ids[p] = -1
			continue
		}
		c.ref(p)
		c.emit(nil, "param %s", normType(p.Type()))
	}
	for _, fv := range fn.FreeVars {
		if isCtxType(fv.Type()) || isPtrToCtx(fv.Type()) {
			c.ids[fv] = -1
			continue
		}
		c.ref(fv)
		c.emit(nil, "freevar %s", normType(fv.Type()))
	}
	if len(fn.Blocks) == 0 {
		return c
	}
	var order []*ssa.BasicBlock
	seen := map[*ssa.BasicBlock]int{}
	var dfs func(b *ssa.BasicBlock)
	dfs = func(b *ssa.BasicBlock) {
		if _, ok := seen[b]; ok {
			return
		}
		seen[b] = len(order)
		order = append(order, b)
		for _, s := range b.Succs {
			dfs(s)
		}
	}
	dfs(fn.Blocks[0])
	if fn.Recover != nil {
		dfs(fn.Recover)
	}
	for _, b := range order {
		c.emit(nil, "B%d:", seen[b])
		for _, ins := range b.Instrs {
			c.instr(ins, seen)
		}
		s := " succs"
		for _, sc := range b.Succs {
			s += fmt.Sprintf(" B%d", seen[sc])
		}
		c.emit(nil, "%s", s)
	}
	return c
}

func isPtrToCtx(t types.Type) bool {
	if p, ok := t.(*types.Pointer); ok {
		return isCtxType(p.Elem())
	}
	return false
}

func (c *canon) instr(ins ssa.Instruction, seen map[*ssa.BasicBlock]int) {
	if _, ok := ins.(*ssa.DebugRef); ok {
		return
	}
	var ops []string
	switch x := ins.(type) {
	case *ssa.Phi:
		type e struct {
			p int
			v string
		}
		var es []e
		for i, v := range x.Edges {
			es = append(es, e{seen[x.Block().Preds[i]], c.ref(v)})
		}
		sort.Slice(es, func(i, j int) bool { return es[i].p < es[j].p })
		for _, e := range es {
			ops = append(ops, fmt.Sprintf("B%d:%s", e.p, e.v))
		}
		c.emit(ins, " %s = phi %s : %s", c.ref(x), strings.Join(ops, ","), normType(x.Type()))
		return
	case ssa.CallInstruction:
		cc := x.Common()
		var s string
		if cc.IsInvoke() {
			s = "invoke " + c.ref(cc.Value) + "." + cc.Method.Name()
		} else {
			s = "call " + c.ref(cc.Value)
		}
		for _, a := range cc.Args {
			if isCtxType(a.Type()) {
				continue
			}
			ops = append(ops, c.ref(a))
		}
		kind := fmt.Sprintf("%T", ins)
		name := ""
		if v, ok := ins.(ssa.Value); ok {
			name = c.ref(v) + " = "
		}
		c.emit(ins, " %s%s %s(%s)", name, kind, s, strings.Join(ops, ","))
		return
	case *ssa.FieldAddr:
		st := x.X.Type().Underlying().(*types.Pointer).Elem().Underlying().(*types.Struct)
		c.emit(ins, " %s = fieldaddr %s.%s", c.ref(x), c.ref(x.X), st.Field(x.Field).Name())
		return
	case *ssa.Field:
		st := x.X.Type().Underlying().(*types.Struct)
		c.emit(ins, " %s = field %s.%s", c.ref(x), c.ref(x.X), st.Field(x.Field).Name())
		return
	case *ssa.MakeClosure:
		for _, b := range x.Bindings {
			if isCtxType(b.Type()) || isPtrToCtx(b.Type()) {
				continue
			}
			ops = append(ops, c.ref(b))
		}
		c.emit(ins, " %s = closure %s [%s]", c.ref(x), c.ref(x.Fn), strings.Join(ops, ","))
		return
	case *ssa.Alloc:
		if isCtxType(x.Type().(*types.Pointer).Elem()) {
			c.ids[x] = -1
			return
		}
	case *ssa.Store:
		if id, ok := c.ids[x.Addr]; ok && id == -1 {
			return
		}
	}
	var rands []*ssa.Value
	rands = ins.Operands(rands)
	for _, r := range rands {
		if *r == nil {
			ops = append(ops, "nil")
			continue
		}
		ops = append(ops, c.ref(*r))
	}
	extra := ""
	switch x := ins.(type) {
	case *ssa.BinOp:
		extra = x.Op.String()
	case *ssa.UnOp:
		extra = x.Op.String()
		if x.CommaOk {
			extra += ",ok"
		}
	case *ssa.Extract:
		extra = fmt.Sprint(x.Index)
	case *ssa.TypeAssert:
		extra = normType(x.AssertedType) + fmt.Sprint(x.CommaOk)
	}
	name, ty := "", ""
	if v, ok := ins.(ssa.Value); ok {
		name = c.ref(v) + " = "
		ty = " : " + normType(v.Type())
	}
	c.emit(ins, " %s%T %s(%s)%s", name, ins, extra, strings.Join(ops, ","), ty)
}

type FuncClass int

const (
	ClsClone FuncClass = iota
	ClsDelta
	ClsNew
)

func (c FuncClass) String() string { return [...]string{"CLONE", "DELTA", "NEW"}[c] }

type PairResult struct {
	Name     string
	Class    FuncClass
	Fork     *ssa.Function
	Ref      *ssa.Function
	FirstDif string // for DELTA: first differing canonical line (fork vs ref) and its position
	DifPos   string
}

// Classification of one package pair.
type Classification struct {
	Pair    int
	Results map[string]*PairResult
	Missing []string // functions of the reference with no fork counterpart
}

func (w *World) classify(pair int) *Classification {
	fp, rp := forkPath(pair), refPath(pair)
	cl := &Classification{Pair: pair, Results: map[string]*PairResult{}}
	for name, fn := range w.funcIdx[fp] {
		pr := &PairResult{Name: name, Fork: fn}
		rf := w.funcIdx[rp][name]
		if rf == nil {
			pr.Class = ClsNew
			cl.Results[name] = pr
			continue
		}
		pr.Ref = rf
		a, b := canonFunc(fn), canonFunc(rf)
		same := len(a.out) == len(b.out)
		first := -1
		for i := 0; i < len(a.out) && i < len(b.out); i++ {
			if a.out[i] != b.out[i] {
				same = false
				first = i
				break
			}
		}
		if same {
			pr.Class = ClsClone
		} else {
			pr.Class = ClsDelta
			if first < 0 {
				first = min(len(a.out), len(b.out)) - 1
				pr.FirstDif = fmt.Sprintf("bodies differ in length (%d vs %d canonical lines)", len(a.out), len(b.out))
			} else {
				pr.FirstDif = fmt.Sprintf("fork `%s` vs reference `%s`", clip(a.out[first], 160), clip(b.out[first], 160))
			}
			// nearest instruction with a position at or after the first difference
			pr.DifPos = w.pos(fn.Pos())
			for i := first; i >= 0 && i < len(a.pos); i++ {
				if a.pos[i] != nil && a.pos[i].Pos().IsValid() {
					pr.DifPos = w.pos(a.pos[i].Pos())
					break
				}
			}
		}
		cl.Results[name] = pr
	}
	for name := range w.funcIdx[rp] {
		if w.funcIdx[fp][name] == nil {
			cl.Missing = append(cl.Missing, name)
		}
	}
	sort.Strings(cl.Missing)
	return cl
}

func clip(s string, n int) string {
	s = strings.TrimSpace(s)
	if len(s) > n {
		return s[:n] + "…"
	}
	return s
}

func (cl *Classification) names(c FuncClass) []string {
	var out []string
	for n, r := range cl.Results {
		if r.Class == c {
			out = append(out, n)
		}
	}
	sort.Strings(out)
	return out
}
