package main

// E1 (part 1): SSA isomorphism between a fork function and its reference counterpart.
//
// Canonical form of a function: blocks in DFS order; inside a block only the *barriers*
// (stores, calls, map updates, control transfers, …) are listed, in order; every operand is
// printed as the hash of its expression tree, where pure instructions are inlined, loads are
// tagged with the barrier epoch they execute in (so two loads of one address with no barrier in
// between are one value, and re-ordering pure computations or introducing/removing
// single-assignment temporaries is invisible), allocations and phis are numbered at first use,
// parameters by position. Package paths of fork and reference are mapped onto one name,
// context.Context parameters/arguments are dropped, struct fields go by name.
// Equal canonical texts imply equal behaviour up to the position of a run-time panic of a pure
// operation relative to neighbouring side effects.

import (
	"crypto/sha1"
	"encoding/hex"
	"fmt"
	"go/token"
	"go/types"
	"sort"
	"strings"

	"golang.org/x/tools/go/ssa"
)

var pathReplacer *strings.Replacer

func init() {
	var args []string
	// longer paths first so that ".../vm/runtime" is replaced before ".../vm"
	idx := []int{pkRuntime, pkNative, pkLogger, pkTracers, pkVM, pkCore}
	for _, i := range idx {
		args = append(args, pkgPairs[i][1]+".", fmt.Sprintf("P%d.", i))
		args = append(args, pkgPairs[i][0]+".", fmt.Sprintf("P%d.", i))
	}
	for _, i := range idx {
		args = append(args, pkgPairs[i][1], fmt.Sprintf("P%d", i))
		args = append(args, pkgPairs[i][0], fmt.Sprintf("P%d", i))
	}
	pathReplacer = strings.NewReplacer(args...)
}

func normPath(s string) string { return pathReplacer.Replace(s) }

func isCtxType(t types.Type) bool {
	return t != nil && t.String() == "context.Context"
}

func isPtrToCtx(t types.Type) bool {
	if p, ok := t.(*types.Pointer); ok {
		return isCtxType(p.Elem())
	}
	return false
}

func normType(t types.Type) string {
	if t == nil {
		return "<nil>"
	}
	s := types.TypeString(t, nil)
	s = strings.ReplaceAll(s, "ctx context.Context, ", "")
	s = strings.ReplaceAll(s, "ctx context.Context", "")
	s = strings.ReplaceAll(s, "context.Context, ", "")
	s = strings.ReplaceAll(s, "(context.Context)", "()")
	return normPath(s)
}

type canon struct {
	fn      *ssa.Function
	out     []string          // canonical lines
	pos     []ssa.Instruction // instruction behind each line (nil for headers)
	memo    map[ssa.Value]string
	ids     map[ssa.Value]int // identity-bearing values (allocs, phis, barrier results) numbered at first use
	n       int
	epoch   map[ssa.Instruction]string
	blockNo map[*ssa.BasicBlock]int
	dropped map[ssa.Value]bool // context values
}

func h(s string) string {
	if len(s) <= 40 {
		return s
	}
	sum := sha1.Sum([]byte(s))
	return "#" + hex.EncodeToString(sum[:8])
}

func (c *canon) emit(ins ssa.Instruction, format string, a ...any) {
	c.out = append(c.out, fmt.Sprintf(format, a...))
	c.pos = append(c.pos, ins)
}

func (c *canon) id(v ssa.Value, prefix string) string {
	id, ok := c.ids[v]
	if !ok {
		id = c.n
		c.n++
		c.ids[v] = id
	}
	return fmt.Sprintf("%s%d", prefix, id)
}

func isBarrier(ins ssa.Instruction) bool {
	switch x := ins.(type) {
	case *ssa.Store, *ssa.MapUpdate, *ssa.Send, *ssa.Panic, *ssa.Return, *ssa.If, *ssa.Jump, *ssa.RunDefers, *ssa.Go, *ssa.Defer, *ssa.Call, *ssa.Select, *ssa.Next:
		return true
	case *ssa.UnOp:
		return x.Op == token.ARROW
	}
	return false
}

// expr returns the canonical expression (hash) of a value.
func (c *canon) expr(v ssa.Value) string {
	if v == nil {
		return "nil"
	}
	if s, ok := c.memo[v]; ok {
		return s
	}
	if c.dropped[v] {
		return "ctx"
	}
	var s string
	switch x := v.(type) {
	case *ssa.Const:
		if x.Value == nil {
			s = "const(nil:" + normType(x.Type()) + ")"
		} else {
			s = "const(" + x.Value.ExactString() + ":" + normType(x.Type()) + ")"
		}
	case *ssa.Function:
		if x.Parent() != nil {
			sub := canonFunc(x)
			s = "anon{" + h(strings.Join(sub.out, "\n")) + "}"
		} else {
			s = "func(" + normPath(x.String()) + ")"
		}
	case *ssa.Global:
		s = "global(" + normPath(x.String()) + ")"
	case *ssa.Builtin:
		s = "builtin(" + x.Name() + ")"
	case *ssa.Parameter:
		s = c.id(x, "param") // pre-numbered by position
	case *ssa.FreeVar:
		s = c.id(x, "free")
	case *ssa.Alloc:
		s = c.id(x, "alloc:"+normType(x.Type())+":")
	case *ssa.MakeMap, *ssa.MakeSlice, *ssa.MakeChan:
		var ops []string
		var rands []*ssa.Value
		for _, r := range x.(ssa.Instruction).Operands(rands) {
			ops = append(ops, c.expr(*r))
		}
		s = c.id(x, fmt.Sprintf("%T:%s(%s):", x, normType(x.Type()), strings.Join(ops, ",")))
	case *ssa.Phi:
		s = c.id(x, "phi:"+normType(x.Type())+":")
	case *ssa.Call:
		s = c.id(x, "call")
	case *ssa.Range:
		// the collection ranged over is part of the value (a loop over another map or string is another loop)
		s = c.id(x, "Range("+c.expr(x.X)+"):")
	case *ssa.Next:
		s = c.id(x, fmt.Sprintf("Next(%s,%v):", c.expr(x.Iter), x.IsString))
	case *ssa.Select:
		var ops []string
		for _, st := range x.States {
			op := fmt.Sprintf("%d:%s", st.Dir, c.expr(st.Chan))
			if st.Send != nil {
				op += "<-" + c.expr(st.Send)
			}
			ops = append(ops, op)
		}
		s = c.id(x, fmt.Sprintf("Select[%v](%s):", x.Blocking, strings.Join(ops, ",")))
	case *ssa.FieldAddr:
		st := x.X.Type().Underlying().(*types.Pointer).Elem().Underlying().(*types.Struct)
		s = "&(" + c.expr(x.X) + ")." + st.Field(x.Field).Name()
	case *ssa.Field:
		st := x.X.Type().Underlying().(*types.Struct)
		s = "(" + c.expr(x.X) + ")." + st.Field(x.Field).Name()
	case *ssa.UnOp:
		switch {
		case x.Op == token.MUL:
			s = "load@" + c.epoch[x] + "(" + c.expr(x.X) + ")"
		case x.Op == token.ARROW:
			s = c.id(x, "recv")
		default:
			s = x.Op.String() + "(" + c.expr(x.X) + "):" + normType(x.Type())
		}
	case *ssa.Lookup:
		ok := ""
		if x.CommaOk {
			ok = ",ok"
		}
		s = "lookup" + ok + "@" + c.epoch[x] + "(" + c.expr(x.X) + "," + c.expr(x.Index) + ")"
	case *ssa.MakeClosure:
		var ops []string
		for _, b := range x.Bindings {
			if c.dropped[b] || isCtxType(b.Type()) || isPtrToCtx(b.Type()) {
				continue
			}
			ops = append(ops, c.expr(b))
		}
		s = "closure(" + c.expr(x.Fn) + ")[" + strings.Join(ops, ",") + "]"
	case *ssa.BinOp:
		s = "(" + c.expr(x.X) + ")" + x.Op.String() + "(" + c.expr(x.Y) + "):" + normType(x.Type())
	case *ssa.Extract:
		s = fmt.Sprintf("extract%d(%s)", x.Index, c.expr(x.Tuple))
	case *ssa.TypeAssert:
		s = fmt.Sprintf("assert[%s,%v](%s)", normType(x.AssertedType), x.CommaOk, c.expr(x.X))
	default:
		// generic pure instruction: kind, type, operands
		ins, ok := v.(ssa.Instruction)
		if !ok {
			s = fmt.Sprintf("%T:%s", v, normType(v.Type()))
			break
		}
		var ops []string
		var rands []*ssa.Value
		for _, r := range ins.Operands(rands) {
			if *r == nil {
				ops = append(ops, "nil")
			} else {
				ops = append(ops, c.expr(*r))
			}
		}
		s = fmt.Sprintf("%T[%s](%s)", v, normType(v.Type()), strings.Join(ops, ","))
	}
	s = h(s)
	c.memo[v] = s
	return s
}

func canonFunc(fn *ssa.Function) *canon {
	c := &canon{fn: fn, memo: map[ssa.Value]string{}, ids: map[ssa.Value]int{}, epoch: map[ssa.Instruction]string{}, blockNo: map[*ssa.BasicBlock]int{}, dropped: map[ssa.Value]bool{}}
	k := 0
	for _, p := range fn.Params {
		if isCtxType(p.Type()) {
			c.dropped[p] = true
			continue
		}
		c.ids[p] = k
		k++
		c.emit(nil, "param %s", normType(p.Type()))
	}
	k = 0
	for _, fv := range fn.FreeVars {
		if isCtxType(fv.Type()) || isPtrToCtx(fv.Type()) {
			c.dropped[fv] = true
			continue
		}
		c.ids[fv] = k
		k++
		c.emit(nil, "freevar %s", normType(fv.Type()))
	}
	c.n = 0
	// ids for params/freevars live in the same map but use distinct prefixes; restart the shared counter
	if len(fn.Blocks) == 0 {
		return c
	}
	var order []*ssa.BasicBlock
	var dfs func(b *ssa.BasicBlock)
	dfs = func(b *ssa.BasicBlock) {
		if _, ok := c.blockNo[b]; ok {
			return
		}
		c.blockNo[b] = len(order)
		order = append(order, b)
		for _, s := range b.Succs {
			dfs(s)
		}
	}
	dfs(fn.Blocks[0])
	if fn.Recover != nil {
		dfs(fn.Recover)
	}
	// epochs: (block, number of barriers before the instruction)
	for _, b := range order {
		nb := 0
		for _, ins := range b.Instrs {
			c.epoch[ins] = fmt.Sprintf("%d.%d", c.blockNo[b], nb)
			if isBarrier(ins) {
				nb++
			}
			// allocations of context cells and stores into them are dropped
			if a, ok := ins.(*ssa.Alloc); ok && isPtrToCtx(a.Type()) {
				c.dropped[a] = true
			}
		}
	}
	for _, b := range order {
		c.emit(nil, "B%d:", c.blockNo[b])
		for _, ins := range b.Instrs {
			if phi, ok := ins.(*ssa.Phi); ok {
				type e struct {
					p int
					v string
				}
				var es []e
				for i, v := range phi.Edges {
					es = append(es, e{c.blockNo[b.Preds[i]], c.expr(v)})
				}
				sort.Slice(es, func(i, j int) bool { return es[i].p < es[j].p })
				var ops []string
				for _, x := range es {
					ops = append(ops, fmt.Sprintf("B%d:%s", x.p, x.v))
				}
				c.emit(ins, " %s = phi %s", c.expr(phi), strings.Join(ops, ","))
				continue
			}
			if !isBarrier(ins) {
				continue
			}
			c.barrier(ins)
		}
	}
	return c
}

func (c *canon) barrier(ins ssa.Instruction) {
	switch x := ins.(type) {
	case *ssa.Store:
		if c.dropped[x.Addr] {
			return
		}
		c.emit(ins, " store %s <- %s", c.expr(x.Addr), c.expr(x.Val))
	case ssa.CallInstruction:
		cc := x.Common()
		var s string
		if cc.IsInvoke() {
			s = "invoke " + c.expr(cc.Value) + "." + cc.Method.Name()
		} else {
			s = "call " + c.expr(cc.Value)
		}
		var ops []string
		for _, a := range cc.Args {
			if isCtxType(a.Type()) {
				continue
			}
			ops = append(ops, c.expr(a))
		}
		name := ""
		if v, ok := ins.(ssa.Value); ok {
			name = c.expr(v) + " = "
		}
		c.emit(ins, " %s%T %s(%s)", name, ins, s, strings.Join(ops, ","))
	case *ssa.If:
		c.emit(ins, " if %s -> B%d B%d", c.expr(x.Cond), c.blockNo[x.Block().Succs[0]], c.blockNo[x.Block().Succs[1]])
	case *ssa.Jump:
		c.emit(ins, " jump B%d", c.blockNo[x.Block().Succs[0]])
	case *ssa.Return:
		var ops []string
		for _, r := range x.Results {
			ops = append(ops, c.expr(r))
		}
		c.emit(ins, " return %s", strings.Join(ops, ","))
	case *ssa.MapUpdate:
		c.emit(ins, " mapupdate %s[%s] <- %s", c.expr(x.Map), c.expr(x.Key), c.expr(x.Value))
	case *ssa.Panic:
		c.emit(ins, " panic %s", c.expr(x.X))
	case *ssa.RunDefers:
		c.emit(ins, " rundefers")
	case *ssa.Send:
		c.emit(ins, " send %s <- %s", c.expr(x.Chan), c.expr(x.X))
	default:
		var ops []string
		var rands []*ssa.Value
		for _, r := range ins.Operands(rands) {
			if *r != nil {
				ops = append(ops, c.expr(*r))
			}
		}
		name := ""
		if v, ok := ins.(ssa.Value); ok {
			name = c.expr(v) + " = "
		}
		c.emit(ins, " %s%T(%s)", name, ins, strings.Join(ops, ","))
	}
}

type FuncClass int

const (
	ClsClone FuncClass = iota
	ClsDelta
	ClsNew
)

func (c FuncClass) String() string { return [...]string{"CLONE", "DELTA", "NEW"}[c] }

type PairResult struct {
	Name     string
	Class    FuncClass
	Fork     *ssa.Function
	Ref      *ssa.Function
	FirstDif string // for DELTA: first differing canonical line (fork vs ref) and its position
	DifPos   string
}

// Classification of one package pair.
type Classification struct {
	Pair    int
	Results map[string]*PairResult
	Missing []string // functions of the reference with no fork counterpart
}

func (w *World) classify(pair int) *Classification {
	fp, rp := forkPath(pair), refPath(pair)
	cl := &Classification{Pair: pair, Results: map[string]*PairResult{}}
	for name, fn := range w.funcIdx[fp] {
		pr := &PairResult{Name: name, Fork: fn}
		rf := w.funcIdx[rp][name]
		if rf == nil {
			pr.Class = ClsNew
			cl.Results[name] = pr
			continue
		}
		pr.Ref = rf
		a, b := canonFunc(fn), canonFunc(rf)
		same := len(a.out) == len(b.out)
		first := -1
		for i := 0; i < len(a.out) && i < len(b.out); i++ {
			if a.out[i] != b.out[i] {
				same = false
				first = i
				break
			}
		}
		if same {
			pr.Class = ClsClone
		} else {
			pr.Class = ClsDelta
			if first < 0 {
				first = min(len(a.out), len(b.out)) - 1
				pr.FirstDif = fmt.Sprintf("bodies differ in length (%d vs %d canonical lines)", len(a.out), len(b.out))
			} else {
				pr.FirstDif = fmt.Sprintf("first differing effect: fork `%s` vs reference `%s`", describeInstr(a.pos[first], a.out[first]), describeInstr(b.pos[first], b.out[first]))
			}
			pr.DifPos = w.pos(fn.Pos())
			for i := first; i >= 0 && i < len(a.pos); i++ {
				if a.pos[i] != nil && a.pos[i].Pos().IsValid() {
					pr.DifPos = w.pos(a.pos[i].Pos())
					break
				}
			}
		}
		cl.Results[name] = pr
	}
	for name := range w.funcIdx[rp] {
		if w.funcIdx[fp][name] == nil {
			cl.Missing = append(cl.Missing, name)
		}
	}
	sort.Strings(cl.Missing)
	return cl
}

// describeInstr renders the SSA instruction itself (readable) next to its canonical hash line.
func describeInstr(ins ssa.Instruction, canonLine string) string {
	if ins == nil {
		return clip(canonLine, 120)
	}
	s := ins.String()
	if v, ok := ins.(ssa.Value); ok {
		s = v.Name() + " = " + s
	}
	return clip(normPath(s), 140)
}

func clip(s string, n int) string {
	s = strings.TrimSpace(s)
	if len(s) > n {
		return s[:n] + "…"
	}
	return s
}

func (cl *Classification) names(c FuncClass) []string {
	var out []string
	for n, r := range cl.Results {
		if r.Class == c {
			out = append(out, n)
		}
	}
	sort.Strings(out)
	return out
}
