package main

import (
	"fmt"
	"go/ast"
	"go/constant"
	"go/token"
	"go/types"
	"os"
	"sort"
	"strings"

	"golang.org/x/tools/go/ssa"
)

// rangeTargets: the functions whose bounds obligations are not covered by the clone rule — every
// NEW or DELTA function (with closures) of the given package pairs.
func (w *World) rangeTargets(pairs ...int) []*ssa.Function {
	s := w.e1()
	var out []*ssa.Function
	for _, pair := range pairs {
		cl := s.cls[pair]
		var names []string
		for n, pr := range cl.Results {
			if pr.Class != ClsClone {
				names = append(names, n)
			}
		}
		sort.Strings(names)
		for _, n := range names {
			out = append(out, withAnon(cl.Results[n].Fork)...)
		}
	}
	return out
}

// rangeScope: which source positions of fn carry obligations of their own. NEW functions: all.
// DELTA functions: only the fork's insertions (the matched statements are the reference's, C01 R1.1/R1.3).
func (w *World) rangeScope(fn *ssa.Function) func(p token.Pos) bool {
	top := fn
	for top.Parent() != nil {
		top = top.Parent()
	}
	s := w.e1()
	for pair := range pkgPairs {
		for name, pr := range s.cls[pair].Results {
			if pr.Fork != top || pr.Class != ClsDelta {
				continue
			}
			d, err := s.delta(pair, name)
			if err != nil {
				return func(token.Pos) bool { return true }
			}
			// a function whose difference from the reference is not a reviewed, classified delta (a
			// reference statement changed or lost) is no longer "the reference's": its whole body carries
			// obligations, as if it were fork code
			scratch := newReport("scope")
			s.deltaRule(scratch, "scope", pair, name, pr)
			for _, o := range scratch.Obls {
				if o.Status != Holds {
					return func(token.Pos) bool { return true }
				}
			}
			var spans [][2]token.Pos
			for _, in := range d.Ins {
				if in.Stmt != nil {
					spans = append(spans, [2]token.Pos{in.Stmt.Pos(), in.Stmt.End()})
				}
				if in.Case != nil {
					spans = append(spans, [2]token.Pos{in.Case.Pos(), in.Case.End()})
				}
			}
			for _, in := range d.Strips {
				for _, e := range in.Stripped {
					spans = append(spans, [2]token.Pos{e.Pos(), e.End()})
				}
			}
			return func(p token.Pos) bool {
				for _, sp := range spans {
					if sp[0] <= p && p < sp[1] {
						return true
					}
				}
				return false
			}
		}
	}
	return func(token.Pos) bool { return true }
}

func init() {
	debugCmds["ranges"] = func() {
		w, err := loadWorld(true, true)
		if err != nil {
			fmt.Fprintln(os.Stderr, err)
			os.Exit(2)
		}
		env := w.rangeEnv()
		tot, ok := 0, 0
		for _, fn := range w.rangeTargets(pkVM, pkNative) {
			if len(os.Args) > 2 && !strings.Contains(relName(fn), os.Args[2]) {
				continue
			}
			a := env.analyse(fn)
			obs := a.obligations()
			a.discharge(obs)
			inScope := w.rangeScope(fn)
			for _, o := range obs {
				if !inScope(o.Pos) {
					continue
				}
				tot++
				if o.Status == Holds {
					ok++
					continue
				}
				fmt.Printf("%s %s %s: %s  [%s refuted=%v]\n", w.pos(o.Pos), o.Status, o.Key, o.What, o.Kind, o.Refuted)
			}
		}
		fmt.Printf("obligations %d, discharged %d\n", tot, ok)
	}
}

// ---- shared: emitting range obligations into a report -------------------------------------------------

// addRangeRule generates and discharges the bounds obligations of the selected target functions.
func addRangeRule(w *World, r *Report, rule string, fns []*ssa.Function, sel func(fn *ssa.Function) bool) int {
	env := w.rangeEnv()
	n := 0
	for _, fn := range fns {
		if sel != nil && !sel(fn) {
			continue
		}
		a := env.analyse(fn)
		obs := a.obligations()
		a.discharge(obs)
		inScope := w.rangeScope(fn)
		r.Analysed["functions_with_bounds_obligations"]++
		for _, o := range obs {
			if !inScope(o.Pos) {
				continue
			}
			n++
			switch o.Status {
			case Holds:
				r.add(rule, o.Key, Holds, w.pos(o.Pos), fmt.Sprintf("%s — entailed by %d dominating guard/intrinsic facts", o.What, o.Facts), o.Facts > 0)
			case Undecided:
				r.undecided(rule, o.Key, w.pos(o.Pos), o.What+" — elimination cut off")
			default:
				what := "not entailed by the guards that dominate it (machine arithmetic respected: a wrapped sum or difference is unconstrained)"
				if o.Refuted {
					what = "refuted: the dominating facts entail the opposite"
				}
				r.violated(rule, o.Key, w.pos(o.Pos), o.What+" — "+what)
			}
		}
	}
	return n
}

// forkHelperClosure: the named functions of package vm plus the fork-only (NEW) plain functions of the
// package they call statically, transitively: a decoder split into helpers is still judged as a whole.
func forkHelperClosure(w *World, roots []string) []string {
	seen := map[string]bool{}
	var out []string
	var visit func(rel string)
	visit = func(rel string) {
		if seen[rel] {
			return
		}
		seen[rel] = true
		out = append(out, rel)
		fn := w.Func(forkPath(pkVM), strings.TrimPrefix(rel, "vm."))
		if fn == nil {
			return
		}
		for _, f := range withAnon(fn) {
			for _, b := range f.Blocks {
				for _, ins := range b.Instrs {
					ci, ok := ins.(ssa.CallInstruction)
					if !ok {
						continue
					}
					c := ci.Common().StaticCallee()
					if c == nil || c.Pkg == nil || c.Pkg.Pkg.Path() != forkPath(pkVM) || c.Signature.Recv() != nil || c.Parent() != nil {
						continue
					}
					if w.funcIdx[refPath(pkVM)][c.Name()] != nil {
						continue // inherited: covered by the clone rules
					}
					visit("vm." + c.Name())
				}
			}
		}
	}
	for _, r := range roots {
		visit(r)
	}
	return out
}

func fnIn(names ...string) func(fn *ssa.Function) bool {
	return func(fn *ssa.Function) bool {
		top := fn
		for top.Parent() != nil {
			top = top.Parent()
		}
		rn := relName(top)
		for _, n := range names {
			if rn == n {
				return true
			}
		}
		return false
	}
}

// ---- C03 -------------------------------------------------------------------------------------------------

func init() {
	register("C03", true, true, checkC03)
	register("C09", true, true, checkC09)
	register("C14", true, true, checkC14)
	register("C19", true, true, checkC19)
	register("C20", true, true, checkC20)
}

func checkC03(w *World, tier string) *Report {
	r := newReport("C03")
	r.Explanation = "Inherited code: a function that is an SSA clone of go-ethereum v1.12.0 has the reference's panic behaviour and is not re-analysed (that agreement itself is C01 R1.1 and is not repeated here, so a semantic change to inherited code that cannot crash does not alarm this check); a modified inherited function is analysed inside its changed statements. Fork code: " +
		"R3.1 (go/ssa + guard entailment by Fourier-Motzkin, wrap-around aware) every index, slice, make, integer division and Memory.GetCopy/GetPtr precondition in every fork-only function of vm and in every fork insertion of a modified function is entailed by the guards that dominate it; " +
		"R3.2 a pointer field of a precompile instance that the shared table leaves nil (contextWriter.ctx) is dereferenced only under a dominating non-nil test; " +
		"R3.3 fork-only code contains no explicit panic and no single-result type assertion; " +
		"R3.4 bookkeeping is closed on every path: deferred ExitCall (C07 R7.1), depth restored by the clone of Run; " +
		"R3.5 (forward must-analysis on the SSA CFG, load-numbered field cells) a pointer, interface or map field that some construction in the fork leaves unset, or into which nil is stored (EVMInterpreter.hasher, CallTree.current/root, Call.Parent, StorageKey.changes …), is dereferenced in fork-only code only where every path has tested it non-nil or assigned it a non-nil value with no possible re-assignment in between; the same analysis covers nil *results* (keys …/nilresult#n): the result of a fork function that can return the nil constant or a plain map read (findKey, FindKeyIndices …; a nil announced by an accompanying error is usable on the err == nil side), and a pointer or map read from a map cell (absent key → nil), are dereferenced, or written into as a map, only after a non-nil test, a presence-flag test, or a store of a non-nil value into that very cell (map cells are named by map shape + key shape, `m[a][b]` depends on `m[a]`; delete/clear, a nil store, or a callee that may do either forget all cells). R3.6 code identity at every frame construction: the code hash and the code handed to SetCallCode are read from the StateDB for the same address — the JUMPDEST analysis is cached per code hash and shared between frames, so a hash that belongs to other code makes a later JUMP index a bitmap of the wrong length. Memory.Copy's bounds rest on a stated interpreter-contract assumption tied to a who-may-call obligation. Host callbacks, StateDB and the Aspect runtime are outside the analysed program."
	targets := w.rangeTargets(pkVM)
	n := addRangeRule(w, r, "R3.1", targets, func(fn *ssa.Function) bool { return !fnIn("vm.(*bls12381G2MultiExp).Run")(fn) })
	r.Analysed["bounds_obligations"] = n
	r.need("R3.1", 40)
	whoMayCall(w, r, "R3.1", "Memory.Copy (assumed precondition: "+assumedPre["(*P0.Memory).Copy"].why+")", funcIs("Memory", "Copy"), map[string]bool{"vm.opMcopy": true}, false)
	addNilCtxRule(w, r, "R3.2")
	addNoPanicRule(w, r, "R3.3", targets)
	addR71(w, r, "R3.4")
	addNilFieldRule(w, r, "R3.5", targets, nil)
	r.need("R3.5", 20)
	addCodeIdentityRule(w, r, "R3.6")
	addNoUnsafeRule(w, r, "R3.7")
	r.Assumptions = append(r.Assumptions, "initialised host: BlockContext.BlockNumber non-nil, Aspect provider and context callbacks set (stated in the property)", "values handed to EVM.Call/Create by the host fit 256 bits (uint256.MustFromBig)", assumedPre["(*P0.Memory).Copy"].why)
	// the interpreter loop keeps the call depth and the read-only flag balanced on every exit (its deferred clean-ups are
	// the reference's): a depth that leaks makes later frames fail or be announced at the wrong level
	w.e1().cloneRule(r, "R3.8", pkVM, func(name string, pr *PairResult) bool { return name == "(*EVMInterpreter).Run" })
	r.need("R3.8", 1)
	r.Explanation += " R3.8 (*EVMInterpreter).Run is an SSA clone of the reference (depth and read-only bookkeeping restored on every exit)."
	return r
}

// addNoUnsafeRule: no file of the fork packages that contains fork-only or modified functions uses package
// unsafe (the reference's own files that do are the reference's). unsafe.String / unsafe.Slice views of
// interpreter memory would hand the host or the recorder a value that later writes by the program change.
func addNoUnsafeRule(w *World, r *Report, rule string) {
	n := 0
	var bad []string
	refImports := map[string]bool{} // base names of reference files importing unsafe
	for i := range pkgPairs {
		if rp := w.Pkgs[refPath(i)]; rp != nil {
			for _, f := range rp.Syntax {
				for _, im := range f.Imports {
					if im.Path.Value == `"unsafe"` {
						fn := w.Fset.Position(f.Pos()).Filename
						refImports[fn[strings.LastIndex(fn, "/")+1:]] = true
					}
				}
			}
		}
	}
	for path, p := range w.Pkgs {
		if !strings.HasPrefix(path, forkMod) {
			continue
		}
		for _, f := range p.Syntax {
			n++
			for _, im := range f.Imports {
				if im.Path.Value == `"unsafe"` {
					fn := w.Fset.Position(f.Pos()).Filename
					if !refImports[fn[strings.LastIndex(fn, "/")+1:]] {
						bad = append(bad, w.pos(im.Pos()))
					}
				}
			}
		}
	}
	sort.Strings(bad)
	if len(bad) > 0 {
		r.violated(rule, "no-unsafe", bad[0], "package unsafe is imported by fork files ("+strings.Join(bad, ", ")+"): unsafe views of live interpreter memory defeat the copy discipline the recorder and the host interface rely on")
	} else {
		r.holds(rule, "no-unsafe", "-", fmt.Sprintf("%d files of the fork packages scanned: none imports unsafe (beyond files that do so in the reference)", n))
	}
	r.need(rule, 1)
}

// addCodeIdentityRule: in every call of Contract.SetCallCode the hash argument is GetCodeHash(a) and the
// code argument is GetCode(a) for one and the same address value a.
func addCodeIdentityRule(w *World, r *Report, rule string) {
	resolve := func(v ssa.Value) ssa.Value {
		for i := 0; i < 6; i++ {
			u, ok := v.(*ssa.UnOp)
			if !ok || u.Op != token.MUL {
				return v
			}
			a, ok := u.X.(*ssa.Alloc)
			if !ok {
				return v
			}
			var stored ssa.Value
			n := 0
			for _, rf := range *a.Referrers() {
				if st, ok := rf.(*ssa.Store); ok && st.Addr == ssa.Value(a) {
					stored = st.Val
					n++
				}
			}
			if n != 1 {
				return v
			}
			v = stored
		}
		return v
	}
	stateRead := func(v ssa.Value, method string) (ssa.Value, bool) {
		v = resolve(v)
		c, ok := v.(*ssa.Call)
		if !ok || !c.Call.IsInvoke() || c.Call.Method.Name() != method || len(c.Call.Args) != 1 {
			return nil, false
		}
		return resolve(c.Call.Args[0]), true
	}
	n := 0
	for _, fn := range w.Funcs(forkPath(pkVM)) {
		ord := 0
		for _, b := range fn.Blocks {
			for _, ins := range b.Instrs {
				c, ok := ins.(*ssa.Call)
				if !ok {
					continue
				}
				cal := c.Call.StaticCallee()
				if cal == nil || cal.Name() != "SetCallCode" || len(c.Call.Args) != 4 {
					continue
				}
				ord++
				n++
				key := fmt.Sprintf("%s/SetCallCode#%d", relName(fn), ord)
				ha, okH := stateRead(c.Call.Args[2], "GetCodeHash")
				ca, okC := stateRead(c.Call.Args[3], "GetCode")
				switch {
				case !okH || !okC:
					r.undecided(rule, key, w.pos(c.Pos()), "the hash / code arguments are not direct StateDB.GetCodeHash / GetCode reads; their agreement cannot be read off")
				case ha != ca:
					r.violated(rule, key, w.pos(c.Pos()), "the code hash is read for "+ha.String()+" but the code for "+ca.String()+": the per-hash JUMPDEST bitmap cached for one piece of code would be used to validate jumps in another (index out of range on a longer code)")
				default:
					r.holds(rule, key, w.pos(c.Pos()), "hash and code are read for the same address value")
				}
			}
		}
	}
	r.need(rule, 4)
	_ = n
}

// addNilCtxRule: methods of types implementing ContextfulPrecompiledContract dereference a pointer
// field of the receiver only under a dominating non-nil test of that field.
func addNilCtxRule(w *World, r *Report, rule string) {
	vm := w.Pkgs[forkPath(pkVM)]
	var iface *types.Interface
	if o := vm.Types.Scope().Lookup("ContextfulPrecompiledContract"); o != nil {
		iface, _ = o.Type().Underlying().(*types.Interface)
	}
	if iface == nil {
		r.undecided(rule, "ContextfulPrecompiledContract", "-", "interface not found")
		return
	}
	n := 0
	for _, fn := range w.Funcs(forkPath(pkVM)) {
		rv := fn.Signature.Recv()
		if rv == nil || !types.Implements(rv.Type(), iface) || len(fn.Params) == 0 {
			continue
		}
		recv := fn.Params[0]
		for _, f2 := range withAnon(fn) {
			for _, b := range f2.Blocks {
				for _, ins := range b.Instrs {
					fa, ok := ins.(*ssa.FieldAddr)
					if !ok {
						continue
					}
					ld, ok := fa.X.(*ssa.UnOp)
					if !ok || ld.Op != token.MUL {
						continue
					}
					src, ok := ld.X.(*ssa.FieldAddr)
					if !ok || src.X != ssa.Value(recv) {
						continue
					}
					n++
					key := fmt.Sprintf("%s/deref:%s.%s", relName(fn), fieldID(src), fa.X.Type().Underlying().(*types.Pointer).Elem().Underlying().(*types.Struct).Field(fa.Field).Name())
					if nonNilDominates(b, fieldID(src), recv) {
						r.holds(rule, key, w.pos(fa.Pos()), "dominated by a non-nil test of the receiver's field")
					} else {
						r.violated(rule, key, w.pos(fa.Pos()), "the receiver's pointer field is nil in the instance stored in the shared precompile table (only EVM.Call clones it with a context); this dereference is reachable through CALLCODE/DELEGATECALL/STATICCALL without a dominating non-nil test")
					}
				}
			}
		}
	}
	if n == 0 {
		r.violated(rule, "instance-count", "-", "no dereference of a context field found: the rule's anchors no longer resolve")
	}
	r.need(rule, 1)
}

// nonNilDominates: b is dominated by the non-nil edge of a test `load(recv.field) != nil` / `== nil`.
func nonNilDominates(b *ssa.BasicBlock, field string, recv ssa.Value) bool {
	for d := b; d != nil && d.Idom() != nil; d = d.Idom() {
		id := d.Idom()
		iff, ok := id.Instrs[len(id.Instrs)-1].(*ssa.If)
		if !ok || len(d.Preds) != 1 {
			continue
		}
		bo, ok := iff.Cond.(*ssa.BinOp)
		if !ok || (bo.Op != token.EQL && bo.Op != token.NEQ) {
			continue
		}
		isFieldLoad := func(v ssa.Value) bool {
			ld, ok := v.(*ssa.UnOp)
			if !ok || ld.Op != token.MUL {
				return false
			}
			fa, ok := ld.X.(*ssa.FieldAddr)
			return ok && fieldID(fa) == field && fa.X == recv
		}
		isNil := func(v ssa.Value) bool { c, ok := v.(*ssa.Const); return ok && c.Value == nil }
		if !(isFieldLoad(bo.X) && isNil(bo.Y) || isFieldLoad(bo.Y) && isNil(bo.X)) {
			continue
		}
		nonNil := id.Succs[0]
		if bo.Op == token.EQL {
			nonNil = id.Succs[1]
		}
		if nonNil == d {
			return true
		}
	}
	return false
}

func addNoPanicRule(w *World, r *Report, rule string, targets []*ssa.Function) {
	nf := 0
	var bad []string
	pos := "-"
	for _, fn := range targets {
		if fnIn("vm.(*bls12381G2MultiExp).Run")(fn) {
			continue
		}
		inScope := w.rangeScope(fn)
		nf++
		for _, b := range fn.Blocks {
			for _, ins := range b.Instrs {
				if !inScope(ins.Pos()) {
					continue
				}
				switch x := ins.(type) {
				case *ssa.Panic:
					bad = append(bad, "explicit panic in "+relName(fn)+" at "+w.pos(x.Pos()))
					pos = w.pos(x.Pos())
				case *ssa.TypeAssert:
					if !x.CommaOk {
						bad = append(bad, "single-result type assertion in "+relName(fn)+" at "+w.pos(x.Pos()))
						pos = w.pos(x.Pos())
					}
				}
			}
		}
	}
	sort.Strings(bad)
	if len(bad) > 0 {
		r.violated(rule, "no-panic:fork-only-code", pos, strings.Join(bad, "; "))
	} else {
		r.holds(rule, "no-panic:fork-only-code", "-", fmt.Sprintf("%d fork-only functions / insertions scanned: no explicit panic, no single-result type assertion", nf))
	}
	if nf < 60 {
		r.violated(rule, "instance-count", "-", fmt.Sprintf("only %d fork-only functions found", nf))
	}
	r.need(rule, 1)
}

// ---- C09 -------------------------------------------------------------------------------------------------

func checkC09(w *World, tier string) *Report {
	r := newReport("C09")
	r.Explanation = "Structural necessary conditions only (the decoded bytes themselves are value-level and not decided): " +
		"R9.1 (E3) every slice/index obligation of the value- and reference-journal instructions and their closures is entailed by the validation guards — operands that do not denote a packed field (offset + width > 32) or a decodable string never reach a slice expression; " +
		"R9.2 the recorder is called at most once per path, after all validation returns: no error return is reachable after it other than its own result; " +
		"R9.3 (positional-bytes lint) no zero-stripping Int.Bytes() is used inside the journal instructions where byte position matters (storage words, slot numbers); the fixed-width forms are used instead (positive control: the lint must see the stripped form used for balances in the recorder); " +
		"R9.4 (provenance) the storage word journaled is read with the same slot operand and the same account that the entry is filed under, and the offset passed to the recorder is the operand the slice bounds were computed from. " +
		"R9.8 storage is read through the EVM's current StateDB field; R9.9 (justified refusals, the dual of R9.1) every edge into an error return of the value journal entails that the operand pair is invalid — the offset is 32 or more, the field would start before byte 0 of the word, or a 256-bit operand does not fit 64 bits — so no valid (offset, width) is rejected. " +
		"R9.10 (abstract interpretation of the string-header decoder over a bit-slice domain (W >> s) & m, all paths) the encoding flag tested is bit 0 of the word; on the in-place path the returned length is (W >> 1) & m with m within bits 1..7 of the word (the length byte) and covering lengths up to 31; on the out-of-place path it is the whole word shifted right by one. " +
		"Not decided: that word[32-o-w:32-o] is the right field; that the long-string loop reads slots keccak(slot)+0..n-1 and truncates to the length (read: it pre-increments and does not truncate — value-level, recorded in DESIGN section 6)."
	fam := fnIn("vm.opValueChangeJournal", "vm.opReferenceChangeJournal")
	targets := w.rangeTargets(pkVM)
	addRangeRule(w, r, "R9.1", targets, fam)
	r.need("R9.1", 3)
	// R9.2 + R9.4
	for _, name := range []string{"opValueChangeJournal", "opReferenceChangeJournal"} {
		fn := w.Func(forkPath(pkVM), name)
		key := "vm." + name
		if fn == nil {
			r.undecided("R9.2", key, "-", "function not found")
			continue
		}
		var save *ssa.Call
		nSave := 0
		var gets []*ssa.Call
		for _, f2 := range withAnon(fn) {
			for _, b := range f2.Blocks {
				for _, ins := range b.Instrs {
					c, ok := ins.(*ssa.Call)
					if !ok {
						continue
					}
					if c.Call.IsInvoke() && c.Call.Method.Name() == "GetState" {
						gets = append(gets, c)
					}
					if cal := c.Call.StaticCallee(); cal != nil && cal.Name() == "SaveStateChange" {
						save = c
						nSave++
					}
				}
			}
		}
		if nSave != 1 || save.Parent() != fn {
			r.violated("R9.2", key, w.pos(fn.Pos()), fmt.Sprintf("expected exactly one recorder call in the instruction body, found %d", nSave))
			continue
		}
		// every return reachable from the save block returns the save's own error
		bad := ""
		for _, b := range fn.Blocks {
			if !(b == save.Block() || blockReaches(save.Block(), b)) {
				continue
			}
			if ret, ok := b.Instrs[len(b.Instrs)-1].(*ssa.Return); ok && len(ret.Results) == 2 {
				if ret.Results[1] != ssa.Value(save) {
					bad = "a return after the recorder call at " + w.pos(ret.Pos()) + " does not hand back the recorder's own result"
				}
			}
		}
		// and no loop leads back to the save
		if blockReaches(save.Block(), save.Block()) {
			bad = "the recorder call sits in a loop"
		}
		if bad != "" {
			r.violated("R9.2", key, w.pos(save.Pos()), bad)
		} else {
			r.holds("R9.2", key, w.pos(save.Pos()), "one recorder call, outside loops, after which only its own result is returned")
		}
		// R9.4: GetState(account, Bytes32(slotAlloc)); SaveStateChange(tr, account, slotAlloc, ...)
		acct, slot := save.Call.Args[1], save.Call.Args[2]
		bad = ""
		first := true
		for _, g := range gets {
			if g.Call.Args[0] != acct {
				bad = "a storage read at " + w.pos(g.Pos()) + " uses an account other than the one the entry is filed under"
			}
			if first && g.Parent() == fn {
				first = false
				okSlot := isBytes32Of(g.Call.Args[1], slot, 0)
				if !okSlot {
					bad = "the storage word is not read at the 32-byte form of the slot operand the entry is filed under"
				}
			}
		}
		if len(gets) == 0 {
			bad = "no storage read found"
		}
		if name == "opValueChangeJournal" && bad == "" {
			// the offset handed to the recorder is the operand whose Uint64 bounds the slice
			off := save.Call.Args[3]
			found := false
			sl, isSlice := save.Call.Args[5].(*ssa.Slice)
			for _, b := range fn.Blocks {
				for _, ins := range b.Instrs {
					if c, ok := ins.(*ssa.Call); ok && isSlice && sl.High != nil {
						if cal := c.Call.StaticCallee(); cal != nil && cal.Name() == "Uint64WithOverflow" && len(c.Call.Args) == 1 && c.Call.Args[0] == off {
							// the upper slice bound must be computed from this very operand
							if dependsOn(sl.High, c, 6) {
								found = true
							}
						}
					}
				}
			}
			if !found {
				bad = "the offset passed to the recorder is not the operand that was range-checked and used for the slice bounds"
			}
		}
		if bad != "" {
			r.violated("R9.4", key, w.pos(save.Pos()), bad)
		} else {
			r.holds("R9.4", key, w.pos(save.Pos()), fmt.Sprintf("%d storage reads under the filing account; first read at Bytes32(slot operand)", len(gets)))
		}
	}
	r.need("R9.2", 2)
	r.need("R9.4", 2)
	addPositionalBytesRule(w, r, "R9.3")
	addLayoutRule(w, r, "R9.5")
	addLengthAgreementRule(w, r, "R9.6")
	addSlotProgressionRule(w, r, "R9.7")
	addStateSourceRule(w, r, "R9.8")
	addHeaderBitsRule(w, r, "R9.10")
	addSaveChangeLookupRule(w, r, "R10.7") // the entry is filed under the key found for this instruction's own account/slot/offset/type (shared with C10)
	addJustifiedRefusalRule(w, r, "R9.9", []string{"opValueChangeJournal"}, func(a *ranger) []negGoal {
		// domain constraint of the instruction: a byte offset inside a 32-byte word is at most 31
		var out []negGoal
		if save, n, _ := journalSave(a.fn); n == 1 && len(save.Call.Args) >= 4 {
			for _, o := range u64Of(a.fn, save.Call.Args[3]) {
				out = append(out, negGoal{"the offset operand is 32 or more (not a position inside a storage word)", konst64(32).minus(a.lin(o, save.Block()))})
			}
		}
		return out
	})
	r.need("R9.9", 2)
	r.need("R9.5", 3)
	r.need("R9.6", 1)
	r.need("R9.7", 2)
	// shared rules (fourth batch of seeded changes): a value is recorded on every successful path and is not a view of
	// interpreter scratch state; the per-call list drops a value only as an immediate repeat; the 256-bit constants
	// the decoders compute with are never written
	addMustRecordRule(w, r, "R10.9")
	addRecordedValueFreshRule(w, r, "R10.10")
	addR105(w, r, "R10.5")
	addSharedConstRule(w, r, "R16.2")
	addFreshTracerRule(w, r, "R16.4")
	r.Explanation += " R16.4 (shared with C16) the recorder the journal instructions write to is the one the EVM was constructed with and is never replaced (a Reset that re-creates it would leave the interpreter journaling into a discarded recorder)."
	r.Explanation += " R10.9 (shared with C10) every return with a nil error of the eight journal instructions is preceded on every path by the recorder call; R10.10 the value handed to the recorder has no field or captured variable among its may-alias roots (no scratch buffer that a later instruction rewrites); R10.5 (shared) a value is dropped from the per-call list only as an immediate repeat; R16.2 (shared with C16) the package-level 256-bit constants the decoders compute with are never written."
	return r
}

// addPositionalBytesRule: Int.Bytes() strips leading zeros; inside the journal instructions every
// byte string is positional (storage word, slot number, key word).
func addPositionalBytesRule(w *World, r *Report, rule string) {
	isStripping := func(c *ssa.Call) bool {
		cal := c.Call.StaticCallee()
		return cal != nil && cal.Name() == "Bytes" && cal.Signature.Recv() != nil && isBignumPtr(cal.Signature.Recv().Type())
	}
	control := 0
	for _, fn := range w.tracerFamilyFuncs() {
		for _, b := range fn.Blocks {
			for _, ins := range b.Instrs {
				if c, ok := ins.(*ssa.Call); ok && isStripping(c) {
					control++
				}
			}
		}
	}
	for _, js := range w.journalSlots() {
		fn := w.Func(forkPath(pkVM), js.execute)
		key := fmt.Sprintf("slot 0x%02x %s", js.slot, js.execute)
		if fn == nil {
			r.undecided(rule, key, "-", "execute function not resolved")
			continue
		}
		var bad []string
		for _, f2 := range journalFamilyFuncs(fn) {
			for _, b := range f2.Blocks {
				for _, ins := range b.Instrs {
					if c, ok := ins.(*ssa.Call); ok && isStripping(c) {
						bad = append(bad, "zero-stripping Int.Bytes() at "+w.pos(c.Pos()))
					}
				}
			}
		}
		if len(bad) > 0 {
			r.violated(rule, key, w.pos(fn.Pos()), "byte position matters for storage words, slot numbers and key words: "+strings.Join(bad, "; "))
		} else {
			r.holds(rule, key, w.pos(fn.Pos()), "only fixed-width conversions (Bytes32, Hash.Bytes) are used")
		}
	}
	if control == 0 {
		r.violated(rule, "positive-control", "-", "the lint no longer recognises the stripped form used by the recorder for balances: its matcher is broken")
	} else {
		r.trivial(rule, "positive-control", "-", fmt.Sprintf("the matcher sees %d stripped conversions in the recorder (balances, value-level)", control))
	}
	r.need(rule, 9)
}

// ---- C14 -------------------------------------------------------------------------------------------------

func checkC14(w *World, tier string) *Report {
	r := newReport("C14")
	r.Explanation = "The three Artela precompiles are resolved from the table (keys 100-102 of the Berlin map). " +
		"R14.1 those keys occur in the Berlin map only and precompile() is a clone of the reference selector; " +
		"R14.2 (E3) every slice/index obligation of loadParamBytes and the three Run methods is entailed by the dominating guards, with uint64 wrap-around respected; " +
		"R14.3 the context writer dereferences its execution context only under a non-nil test (the shared table instance has none; only EVM.Call clones it with the caller's context); " +
		"R14.4 success implies the host was consulted: every return with a nil error is dominated by the call into the Aspect runtime, and the readers' output is data-dependent on that call's result; " +
		"R14.5 the address given to SetAspectContext is ctx.from, and the only ExecutionContext constructed in the fork sets from = caller.Address() of EVM.Call; " +
		"R14.6 RequiredGas of each returns one compile-time constant; " +
		"R14.8 (justified refusals, the dual of R14.2) every edge into an error return of the ABI decoder loadParamBytes entails that a slice of the payload would end beyond it, or that a 256-bit head/length word does not fit 64 bits — a well-formed payload whose data ends exactly at the end of the input is not rejected; " +
		"R14.7 the caller context never reaches the shared table instance: CloneWithCtx of a context-carrying precompile returns a fresh allocation holding the context it was given, and no method of such a type stores through its receiver — otherwise the context of one CALL would stay in the package-level table and later DELEGATECALL/CALLCODE/STATICCALLs (which pass no context) would write under that earlier caller's address. Not decided: that ABI decoding extracts the right bytes of well-formed payloads, the exact-length policy of the hash payload, behaviour of the Aspect runtime."
	vm := w.Pkgs[forkPath(pkVM)]
	info := vm.TypesInfo
	// R14.1: resolve types from the map literals
	typeAt := map[int64]string{}
	where := map[int64][]string{}
	for _, f := range vm.Syntax {
		for _, d := range f.Decls {
			gd, ok := d.(*ast.GenDecl)
			if !ok || gd.Tok != token.VAR {
				continue
			}
			for _, sp := range gd.Specs {
				vs := sp.(*ast.ValueSpec)
				for i, v := range vs.Values {
					lit, ok := v.(*ast.CompositeLit)
					if !ok || i >= len(vs.Names) {
						continue
					}
					if _, isMap := info.TypeOf(lit).Underlying().(*types.Map); !isMap {
						continue
					}
					for _, el := range lit.Elts {
						kv, ok := el.(*ast.KeyValueExpr)
						if !ok {
							continue
						}
						k, ok := precompileKey(info, kv.Key)
						if !ok || k < 100 || k > 102 {
							continue
						}
						where[k] = append(where[k], vs.Names[i].Name)
						if u, ok := kv.Value.(*ast.UnaryExpr); ok {
							if cl, ok := u.X.(*ast.CompositeLit); ok {
								if id, ok := cl.Type.(*ast.Ident); ok {
									typeAt[k] = id.Name
								}
							}
						}
					}
				}
			}
		}
	}
	for k := int64(100); k <= 102; k++ {
		key := fmt.Sprintf("address 0x%02x", k)
		if len(where[k]) == 1 && where[k][0] == "PrecompiledContractsBerlin" && typeAt[k] != "" {
			r.holds("R14.1", key, "-", typeAt[k]+" installed in PrecompiledContractsBerlin only")
		} else {
			r.violated("R14.1", key, "-", fmt.Sprintf("expected exactly one installation, in PrecompiledContractsBerlin; found %v", where[k]))
		}
	}
	s := w.e1()
	s.cloneRule(r, "R14.1", pkVM, func(name string, pr *PairResult) bool {
		return name == "(*EVM).precompile" || name == "RunPrecompiledContract" || name == "ActivePrecompiles" || name == "(*EVM).CallCode" || name == "(*EVM).DelegateCall" || name == "(*EVM).StaticCall"
	})
	r.need("R14.1", 8)
	var runNames []string
	for k := int64(100); k <= 102; k++ {
		if typeAt[k] != "" {
			runNames = append(runNames, "vm.(*"+typeAt[k]+").Run")
		}
	}
	targets := w.rangeTargets(pkVM)
	addRangeRule(w, r, "R14.2", targets, fnIn(forkHelperClosure(w, append(runNames, "vm.loadParamBytes"))...))
	r.need("R14.2", 6)
	addNilCtxRule(w, r, "R14.3")
	// R14.4 / R14.5 / R14.6
	for k := int64(100); k <= 102; k++ {
		t := typeAt[k]
		if t == "" {
			continue
		}
		key := fmt.Sprintf("address 0x%02x %s", k, t)
		fn := w.Func(forkPath(pkVM), "(*"+t+").Run")
		if fn == nil {
			r.undecided("R14.4", key, "-", "Run not found")
			continue
		}
		var host []*ssa.Call
		for _, b := range fn.Blocks {
			for _, ins := range b.Instrs {
				if c, ok := ins.(*ssa.Call); ok && isHostCall(c) {
					host = append(host, c)
				}
			}
		}
		var bad []string
		if len(host) != 1 {
			bad = append(bad, fmt.Sprintf("expected exactly one call into the Aspect runtime, found %d", len(host)))
		} else {
			h := host[0]
			for _, b := range fn.Blocks {
				ret, ok := b.Instrs[len(b.Instrs)-1].(*ssa.Return)
				if !ok || len(ret.Results) != 2 {
					continue
				}
				if c, isK := ret.Results[1].(*ssa.Const); !isK || c.Value != nil {
					continue // error return
				}
				if !(h.Block() == b || h.Block().Dominates(b)) {
					bad = append(bad, "the success return at "+w.pos(ret.Pos())+" is reachable without consulting the host")
					continue
				}
				if k != 102 && !dependsOn(ret.Results[0], h, 8) {
					bad = append(bad, "the data returned at "+w.pos(ret.Pos())+" does not derive from the host's answer")
				}
			}
		}
		if len(bad) > 0 {
			r.violated("R14.4", key, w.pos(fn.Pos()), strings.Join(bad, "; "))
		} else {
			r.holds("R14.4", key, w.pos(fn.Pos()), "every success return is dominated by the single host call "+hostName(host[0]))
		}
		// R14.6
		gas := w.Func(forkPath(pkVM), "(*"+t+").RequiredGas")
		if kv, why := flatGas(gas); kv == nil {
			r.violated("R14.6", key, "-", "RequiredGas is not one compile-time constant: "+why)
		} else {
			r.holds("R14.6", key, w.pos(gas.Pos()), "RequiredGas = "+kv.ExactString()+" for every input")
		}
		// R14.5
		if k == 102 && len(host) == 1 {
			h := host[0]
			okFrom := false
			if len(h.Call.Args) >= 2 {
				if ld, ok := h.Call.Args[1].(*ssa.UnOp); ok {
					if fa, ok := ld.X.(*ssa.FieldAddr); ok && fieldID(fa) == "P0.ExecutionContext.from" {
						if l2, ok := fa.X.(*ssa.UnOp); ok {
							if f2, ok := l2.X.(*ssa.FieldAddr); ok && f2.X == ssa.Value(fn.Params[0]) {
								okFrom = true
							}
						}
					}
				}
			}
			if okFrom {
				r.holds("R14.5", key+"/address", w.pos(h.Pos()), "the write is filed under c.ctx.from")
			} else {
				r.violated("R14.5", key+"/address", w.pos(h.Pos()), "the address passed to the host is not the execution context's `from`")
			}
		}
	}
	addExecCtxRule(w, r, "R14.5")
	addCtxCloneRule(w, r, "R14.7")
	{
		// the decoder and the fork helpers it is split into
		var names []string
		for _, n := range forkHelperClosure(w, []string{"vm.loadParamBytes"}) {
			names = append(names, strings.TrimPrefix(n, "vm."))
		}
		addJustifiedRefusalRule(w, r, "R14.8", names, nil)
	}
	addNoUnsafeRule(w, r, "R3.7") // keys and values handed to the host are copies: no unsafe string/slice views of the caller's memory
	r.need("R14.8", 4)
	r.need("R14.4", 3)
	r.need("R14.5", 2)
	r.need("R14.6", 3)
	r.Assumptions = append(r.Assumptions, "the Aspect runtime functions (GetAspectContext, JITSenderAspectByContext, SetAspectContext) pass on exactly their arguments (external)")
	addPayloadFloorRule(w, r, "R14.9")
	r.Explanation += " R14.9 a precompile that decodes n dynamic parameters with loadParamBytes refuses, before any decoding call, every input shorter than 64·n bytes: loadParamBytes alone accepts overlapping heads and tails, so a truncated but self-consistent payload would decode."
	addErrorNotDroppedRule(w, r, "R4.5")
	r.Explanation += " R4.5 (shared with C04) every error result of a call inside the frame entry points — the error of RunPrecompiledContract in particular — reaches the error the frame returns: a payload the precompile rejects makes the call fail."
	return r
}

// isHostCall: a call into the Aspect runtime — a function of aspect-core or one of its package-level
// callback variables (types.GetAspectContext, types.SetAspectContext, types.JITSenderAspectByContext).
func isHostCall(c *ssa.Call) bool { return hostName(c) != "" }

func hostName(c *ssa.Call) string {
	const pfx = "github.com/artela-network/aspect-core/"
	if cal := c.Call.StaticCallee(); cal != nil {
		if cal.Pkg != nil && strings.HasPrefix(cal.Pkg.Pkg.Path(), pfx) && cal.Signature.Recv() == nil {
			return normPath(cal.String())
		}
		return ""
	}
	if ld, ok := c.Call.Value.(*ssa.UnOp); ok && ld.Op == token.MUL {
		if g, ok := ld.X.(*ssa.Global); ok && g.Pkg != nil && strings.HasPrefix(g.Pkg.Pkg.Path(), pfx) {
			return g.Pkg.Pkg.Path() + "." + g.Name()
		}
	}
	return ""
}

func precompileKey(info *types.Info, e ast.Expr) (int64, bool) {
	// common.BytesToAddress([]byte{K})
	c, ok := e.(*ast.CallExpr)
	if !ok || len(c.Args) != 1 {
		return 0, false
	}
	lit, ok := c.Args[0].(*ast.CompositeLit)
	if !ok || len(lit.Elts) != 1 {
		return 0, false
	}
	tv, ok := info.Types[lit.Elts[0]]
	if !ok || tv.Value == nil {
		return 0, false
	}
	return constant.Int64Val(tv.Value)
}

// dependsOn: v is computed from the result of call h (bounded backwards walk over operands).
func dependsOn(v ssa.Value, h *ssa.Call, depth int) bool {
	if v == ssa.Value(h) {
		return true
	}
	if depth == 0 {
		return false
	}
	ins, ok := v.(ssa.Instruction)
	if !ok {
		return false
	}
	var rands []*ssa.Value
	for _, op := range ins.Operands(rands) {
		if *op != nil && dependsOn(*op, h, depth-1) {
			return true
		}
	}
	// loads of locals (and slices of local arrays): follow stores
	var cell ssa.Value
	if u, ok := v.(*ssa.UnOp); ok && u.Op == token.MUL {
		cell = u.X
	} else if al, ok := v.(*ssa.Alloc); ok {
		cell = al
	}
	if cell != nil {
		if a, ok := cell.(*ssa.Alloc); ok {
			for _, r := range *a.Referrers() {
				if st, ok := r.(*ssa.Store); ok && st.Addr == ssa.Value(a) && dependsOn(st.Val, h, depth-1) {
					return true
				}
			}
		}
	}
	return false
}

func flatGas(fn *ssa.Function) (constant.Value, string) {
	if fn == nil || fn.Blocks == nil {
		return nil, "function not found"
	}
	var k constant.Value
	for _, b := range fn.Blocks {
		for _, ins := range b.Instrs {
			ret, ok := ins.(*ssa.Return)
			if !ok {
				continue
			}
			c, ok := ret.Results[0].(*ssa.Const)
			if !ok || c.Value == nil {
				return nil, "a return is not a constant"
			}
			if k != nil && !constant.Compare(k, token.EQL, c.Value) {
				return nil, "different constants on different paths"
			}
			k = c.Value
		}
	}
	if k == nil {
		return nil, "no return"
	}
	return k, ""
}

// addExecCtxRule: ExecutionContext values are constructed only in EVM.Call with from = caller.Address().
func addExecCtxRule(w *World, r *Report, rule string) {
	n := 0
	var bad []string
	pos := "-"
	for _, fn := range w.forkFuncsAll() {
		for _, b := range fn.Blocks {
			for _, ins := range b.Instrs {
				st, ok := ins.(*ssa.Store)
				if !ok {
					continue
				}
				fa, ok := st.Addr.(*ssa.FieldAddr)
				if !ok || fieldID(fa) != "P0.ExecutionContext.from" {
					continue
				}
				n++
				pos = w.pos(st.Pos())
				c, ok := st.Val.(*ssa.Call)
				okv := false
				if ok && c.Call.IsInvoke() && c.Call.Method.Name() == "Address" {
					if p, isP := c.Call.Value.(*ssa.Parameter); isP && typeBaseName(p.Type()) == "ContractRef" {
						okv = true
						if relName(fn) != "vm.(*EVM).Call" {
							// a helper of EVM.Call: every call site lies in EVM.Call and binds the parameter to Call's own caller
							sites, addrTaken := staticCallSitesOf(w, fn)
							idx := paramIndex(fn, p)
							if addrTaken || len(sites) == 0 || idx < 0 {
								okv = false
							}
							for _, cs := range sites {
								arg, isP := cs.Common().Args[idx].(*ssa.Parameter)
								if relName(cs.Parent()) != "vm.(*EVM).Call" || !isP || typeBaseName(arg.Type()) != "ContractRef" {
									okv = false
								}
							}
							if !okv {
								bad = append(bad, "ExecutionContext.from is written in "+relName(fn)+", which is not (a helper called only by) EVM.Call with Call's own caller")
								continue
							}
						}
					}
				}
				if !okv && relName(fn) != "vm.(*EVM).Call" {
					bad = append(bad, "ExecutionContext.from is written in "+relName(fn))
					continue
				}
				if !okv {
					bad = append(bad, "ExecutionContext.from is not caller.Address() of this call at "+w.pos(st.Pos()))
				}
			}
		}
	}
	if n != 1 {
		bad = append(bad, fmt.Sprintf("expected exactly one construction site of ExecutionContext.from, found %d", n))
	}
	if len(bad) > 0 {
		r.violated(rule, "ExecutionContext.from", pos, strings.Join(bad, "; "))
	} else {
		r.holds(rule, "ExecutionContext.from", pos, "set once, in EVM.Call, to caller.Address() — the contract whose call reached the precompile")
	}
}

// isBytes32Of: v is slot.Bytes32(), possibly converted to common.Hash or kept in a local that is assigned once.
func isBytes32Of(v, slot ssa.Value, depth int) bool {
	if depth > 4 {
		return false
	}
	switch x := v.(type) {
	case *ssa.ChangeType:
		return isBytes32Of(x.X, slot, depth+1)
	case *ssa.Convert:
		return isBytes32Of(x.X, slot, depth+1)
	case *ssa.Call:
		cal := x.Call.StaticCallee()
		return cal != nil && cal.Name() == "Bytes32" && len(x.Call.Args) == 1 && x.Call.Args[0] == slot
	case *ssa.UnOp:
		if a, ok := x.X.(*ssa.Alloc); ok && x.Op == token.MUL {
			if s := singleStore(a); s != nil {
				return isBytes32Of(s, slot, depth+1)
			}
		}
	}
	return false
}

// staticCallSitesOf: the static call sites of fn in the fork packages; addrTaken when fn is also used as a value.
func staticCallSitesOf(w *World, fn *ssa.Function) (sites []ssa.CallInstruction, addrTaken bool) {
	for _, f := range w.forkFuncsAll() {
		for _, b := range f.Blocks {
			for _, ins := range b.Instrs {
				if ci, ok := ins.(ssa.CallInstruction); ok && ci.Common().StaticCallee() == fn {
					sites = append(sites, ci)
					for _, a := range ci.Common().Args {
						if a == ssa.Value(fn) {
							addrTaken = true
						}
					}
					continue
				}
				for _, op := range ins.Operands(nil) {
					if op != nil && *op == ssa.Value(fn) {
						addrTaken = true
					}
				}
			}
		}
	}
	return
}

func paramIndex(fn *ssa.Function, p *ssa.Parameter) int {
	for i, q := range fn.Params {
		if q == p {
			return i
		}
	}
	return -1
}

// addCtxCloneRule: types with a CloneWithCtx method (context-carrying precompiles).
func addCtxCloneRule(w *World, r *Report, rule string) {
	n := 0
	for _, fn := range w.Funcs(forkPath(pkVM)) {
		if fn.Name() != "CloneWithCtx" || fn.Signature.Recv() == nil {
			continue
		}
		n++
		tname := typeBaseName(fn.Signature.Recv().Type())
		key := "vm." + tname
		var bad []string
		if !returnsFreshAlloc(fn) {
			bad = append(bad, "CloneWithCtx does not return a fresh allocation on every path (the shared table instance is handed out)")
		} else {
			// the fresh instance carries the context parameter
			carries := false
			for _, b := range fn.Blocks {
				for _, ins := range b.Instrs {
					if st, ok := ins.(*ssa.Store); ok && len(fn.Params) == 2 && st.Val == ssa.Value(fn.Params[1]) {
						if fa, ok := st.Addr.(*ssa.FieldAddr); ok {
							if _, isAlloc := fa.X.(*ssa.Alloc); isAlloc {
								carries = true
							}
						}
					}
				}
			}
			if !carries {
				bad = append(bad, "the instance returned by CloneWithCtx does not hold the context it was given")
			}
		}
		for _, m := range w.Funcs(forkPath(pkVM)) {
			if m.Signature.Recv() == nil || typeBaseName(m.Signature.Recv().Type()) != tname || len(m.Params) == 0 {
				continue
			}
			for _, g := range withAnon(m) {
				for _, b := range g.Blocks {
					for _, ins := range b.Instrs {
						st, ok := ins.(*ssa.Store)
						if !ok {
							continue
						}
						root, _, _ := addrRoot(st.Addr)
						if root == ssa.Value(m.Params[0]) {
							bad = append(bad, m.Name()+" stores through its receiver at "+w.pos(st.Pos())+" (the receiver may be the instance shared through the package-level precompile table)")
						}
					}
				}
			}
		}
		if len(bad) > 0 {
			r.violated(rule, key, w.pos(fn.Pos()), strings.Join(bad, "; "))
		} else {
			r.holds(rule, key, w.pos(fn.Pos()), "CloneWithCtx returns a fresh instance holding its argument; no method stores through the receiver")
		}
	}
	if n == 0 {
		r.undecided(rule, "vm.CloneWithCtx", "-", "no context-carrying precompile found: the rule's anchor does not resolve")
	}
	r.need(rule, 1)
}

// ---- C19 -------------------------------------------------------------------------------------------------

// extraRangeTargets: inherited functions whose safety rested on a callee postcondition that the fork
// changed; they are analysed as if they were fork code (one line of reason each).
var extraRangeTargets = map[string]string{
	"tracers/native.(*flatCallTracer).CaptureExit": "indexes parent.Calls[len-1] relying on callTracer.CaptureExit having appended the call to parent.Calls; the fork appends it to the Aspect frame's Calls instead when the call was made by an Aspect",
}

func checkC19(w *World, tier string) *Report {
	r := newReport("C19")
	r.Explanation = "Structural necessary condition 'finish without panic' only: R19.1 (E3) every index/slice obligation in the fork-only functions of tracers/native and in the fork insertions of its modified functions (CaptureAspectEnter/Exit, CaptureExit, clearFailedLogs, flatFromNested, flatAspectNested, newFlatJoinPoint …) is entailed by the dominating guards, given the reviewed field invariant len(callTracer.callstack) >= 1 (R19.0, checked inductively: the constructor makes one frame and the only shrinking store keeps size-1 >= 1 elements); plus the inherited flatCallTracer.CaptureExit, whose safety rested on a callee postcondition the fork changed. Inherited tracer code that is a clone of the reference is the reference's (C18) and is not re-analysed. " +
		"R19.2 (SSA of the flattening functions and the fork helpers they emit through: natural loops, dominance, element-of-collection tracing) the collections summed into a frame's Subtraces are exactly the collections whose elements are emitted recursively, a collection ranged over once is emitted unconditionally and one ranged over twice is split by complementary skip conditions — so the declared sub-trace count equals the number of children emitted by that step and no child is emitted twice or dropped; R19.3 nil-field must-analysis (as C03 R3.5) on the same functions; R19.4 (may-alias roots through result summaries) the trace address handed to every recursive emission in the flattening functions is a fresh slice — it shares storage neither with the parent's address nor with a sibling's, so addresses stored in emitted frames cannot be overwritten by later appends; R19.5 state that is set when an Aspect execution is entered and reset when it is left (the 'an Aspect is running' marker consulted by CaptureExit) is stored in the frame record (an element of the call stack), never in the tracer itself: Aspect executions of different open frames interleave, so a tracer-wide marker is cleared by an inner Aspect's exit while the outer one still runs. " +
		"R19.10 in callTracer.CaptureExit (or the helper it uses) exactly one of the two appends of a finished call executes, the one under the Aspect execution only while the frame's marker is set and the one to the parent frame whenever it is not (guards compared as truth tables over their atomic tests); R19.6 in the flattening functions the address operator is never applied to a range variable (one variable per loop under the module's language version: frames built from it would all point at the last element); R19.7 the sibling flattening functions discard a frame's Result under the same guard, a condition over the input record only. " +
		"R19.8 (E3 entailment) every write CaptureAspectExit makes into an element of a frame's JoinPoints addresses the element opened last (index len-1) — Aspect executions of one call frame do not nest, so that is the execution the exit event completes. " +
		"R19.9 a call frame on the tracer's stack is never overwritten wholesale and its JoinPoints list is only appended to by CaptureAspectEnter: Aspect executions recorded before CaptureStart (pre-transaction join points) or before a later event survive. " +
		"Not decided: exactly-once emission, sub-trace counts and trace-address uniqueness — properties of event histories, outside static reach."
	targets := w.rangeTargets(pkNative)
	ownTargets := append([]*ssa.Function{}, targets...) // the nil-field rule is for fork code only; the inherited extra target keeps the reference's own invariants (a CALL frame always has a destination)
	for name := range extraRangeTargets {
		for _, fn := range w.Funcs(forkPath(pkNative)) {
			if relName(fn) == name {
				targets = append(targets, withAnon(fn)...)
			}
		}
	}
	addRangeRule(w, r, "R19.1", targets, nil)
	r.need("R19.1", 30)
	addCallstackInvariant(w, r, "R19.0")
	addNilFieldRule(w, r, "R19.3", ownTargets, nil)
	addSubtraceRule(w, r, "R19.2")
	addTraceAddressRule(w, r, "R19.4")
	addLoopVarAddressRule(w, r, "R19.6")
	addSiblingGuardRule(w, r, "R19.7")
	addAttachRule(w, r, "R19.10")
	addAspectFrameRules(w, r, "R19.11", "R19.12")
	r.need("R19.11", 1)
	r.need("R19.12", 1)
	r.Explanation += " R19.11 callTracer.CaptureAspectEnter reads no frame value out of the trace built so far: the frame it appends consists of the event's own arguments (a frame copied from the previous Aspect would carry its calls, error and output). R19.12 (all paths of aspectCallFrame.processOutput) the output is stored unless found empty, the error text unless the error is nil — no other condition drops what the Aspect reported."
	addExitClosesLastRule(w, r, "R19.8")
	addNoFrameOverwriteRule(w, r, "R19.9")
	addFrameScopedMarkerRule(w, r, "R19.5")
	r.Assumptions = append(r.Assumptions, "the EVM emits well-nested event streams (C18 R18.2 capture balance)")
	return r
}

// addTraceAddressRule: trace addresses passed down the flattening recursion are fresh slices.
func addTraceAddressRule(w *World, r *Report, rule string) {
	eng := w.aliasEngine()
	n := 0
	isFlat := map[*ssa.Function]bool{}
	ffs, _ := flattenFuncs(w)
	for _, f := range ffs {
		isFlat[f] = true
	}
	for _, fn := range w.Funcs(forkPath(pkNative)) {
		// flattening functions and their helpers: take a []int and return (…, error)
		var addrParam *ssa.Parameter
		for _, p := range fn.Params {
			if sl, ok := p.Type().Underlying().(*types.Slice); ok {
				if b, ok := sl.Elem().Underlying().(*types.Basic); ok && b.Kind() == types.Int {
					addrParam = p
				}
			}
		}
		if addrParam == nil || fn.Signature.Results().Len() < 2 {
			continue
		}
		ord := 0
		for _, b := range fn.Blocks {
			for _, ins := range b.Instrs {
				c, ok := ins.(*ssa.Call)
				if !ok {
					continue
				}
				cal := c.Call.StaticCallee()
				// the callees that keep the address they are given: the flattening functions (they store it into the
				// frame they emit); a helper that only derives child addresses from it is analysed as a function of its own
				if cal == nil || !isForkPkg(cal.Pkg) || !isFlat[cal] {
					continue
				}
				for i, arg := range c.Call.Args {
					sl, ok := arg.Type().Underlying().(*types.Slice)
					if !ok {
						continue
					}
					if bt, ok := sl.Elem().Underlying().(*types.Basic); !ok || bt.Kind() != types.Int {
						continue
					}
					if i >= len(cal.Params) {
						continue
					}
					ord++
					n++
					key := fmt.Sprintf("%s/child-address#%d", relName(fn), ord)
					var bad []string
					for _, rt := range eng.rootsOf(arg, map[ssa.Value]bool{}) {
						switch {
						case rt.param != nil:
							bad = append(bad, "parameter "+rt.param.Name()+" of "+relName(rt.param.Parent()))
						case rt.field != "":
							bad = append(bad, "field "+rt.field)
						case rt.free != nil:
							bad = append(bad, "captured variable "+rt.free.Name())
						}
					}
					if len(bad) > 0 {
						r.violated(rule, key, w.pos(c.Pos()), "the trace address handed to "+cal.Name()+" may share its backing array with "+strings.Join(dedup(bad), ", ")+": a sibling's append can overwrite the address already stored in an emitted frame (addresses are then neither unique nor prefix-closed)")
					} else {
						r.holds(rule, key, w.pos(c.Pos()), "fresh slice: no parameter, field or captured variable among its may-alias roots")
					}
				}
			}
		}
	}
	r.need(rule, 3) // pre-call, sub-call and post-call emission of a call frame (the two join-point passes may share one helper) and the sub-call emission of an Aspect frame
	_ = n
}

// addFrameScopedMarkerRule: fields stored both by CaptureAspectEnter and by CaptureAspectExit of the
// call tracer are elements of the call stack (per-frame), not fields of the tracer.
func addFrameScopedMarkerRule(w *World, r *Report, rule string) {
	enter := w.Func(forkPath(pkNative), "(*callTracer).CaptureAspectEnter")
	exit := w.Func(forkPath(pkNative), "(*callTracer).CaptureAspectExit")
	if enter == nil || exit == nil {
		r.undecided(rule, "tracers/native.(*callTracer).CaptureAspectEnter/Exit", "-", "functions not found: the rule's anchor does not resolve")
		return
	}
	type wr struct {
		perFrame bool
		pos      token.Pos
	}
	collect := func(fn *ssa.Function) map[string][]wr {
		out := map[string][]wr{}
		for _, b := range fn.Blocks {
			for _, ins := range b.Instrs {
				st, ok := ins.(*ssa.Store)
				if !ok {
					continue
				}
				fa, ok := st.Addr.(*ssa.FieldAddr)
				if !ok {
					continue
				}
				// per-frame: the address chain passes an element of a slice
				per := false
				v := fa.X
				for d := 0; d < 8; d++ {
					switch x := v.(type) {
					case *ssa.IndexAddr:
						per = true
					case *ssa.FieldAddr:
						v = x.X
						continue
					case *ssa.UnOp:
						v = x.X
						continue
					}
					break
				}
				out[fieldID(fa)] = append(out[fieldID(fa)], wr{per, st.Pos()})
			}
		}
		return out
	}
	we, wx := collect(enter), collect(exit)
	n := 0
	var ids []string
	for id := range we {
		if _, both := wx[id]; both {
			ids = append(ids, id)
		}
	}
	sort.Strings(ids)
	for _, id := range ids {
		n++
		bad := token.NoPos
		for _, x := range append(we[id], wx[id]...) {
			if !x.perFrame {
				bad = x.pos
			}
		}
		if bad.IsValid() {
			r.violated(rule, "marker:"+id, w.pos(bad), id+" is set on entering an Aspect execution and reset on leaving it, but lives in the tracer rather than in the frame record: an Aspect started by a nested frame clears it while the outer Aspect is still running, and the outer Aspect's later calls are attached to the wrong parent")
		} else {
			r.holds(rule, "marker:"+id, w.pos(enter.Pos()), "set/reset state of Aspect executions is an element of the call stack (per frame)")
		}
	}
	if n == 0 {
		r.undecided(rule, "marker", w.pos(enter.Pos()), "no state written by both CaptureAspectEnter and CaptureAspectExit found: the rule's anchor does not resolve")
	}
	r.need(rule, 1)
}

// addNoFrameOverwriteRule: no store of a whole callFrame into an element of callTracer.callstack, and
// JoinPoints is assigned only by appending to itself.
func addNoFrameOverwriteRule(w *World, r *Report, rule string) {
	var bad []string
	nApp := 0
	for _, top := range w.Funcs(forkPath(pkNative)) {
		// the tracers' event handlers (methods of the call tracers), not the JSON codecs of the frame types
		if top.Signature.Recv() == nil || !strings.HasSuffix(strings.ToLower(typeBaseName(top.Signature.Recv().Type())), "calltracer") {
			continue
		}
		for _, fn := range withAnon(top) {
			for _, b := range fn.Blocks {
				for _, ins := range b.Instrs {
					st, ok := ins.(*ssa.Store)
					if !ok {
						continue
					}
					switch a := st.Addr.(type) {
					case *ssa.IndexAddr:
						if typeBaseName(st.Val.Type()) == "callFrame" {
							if u, ok := a.X.(*ssa.UnOp); ok && u.Op == token.MUL {
								if fa, ok := u.X.(*ssa.FieldAddr); ok && strings.HasSuffix(fieldID(fa), "callTracer.callstack") {
									bad = append(bad, relName(fn)+" overwrites a whole frame of the call stack at "+w.pos(st.Pos())+" (Aspect executions already attached to it are lost)")
								}
							}
						}
					case *ssa.FieldAddr:
						if strings.HasSuffix(fieldID(a), "callFrame.JoinPoints") {
							okApp := false
							switch v := st.Val.(type) {
							case *ssa.Call:
								if bi, isB := v.Call.Value.(*ssa.Builtin); isB && bi.Name() == "append" {
									okApp = true
									nApp++
								}
							case *ssa.MakeSlice:
								okApp = true // initial empty list
							case *ssa.Slice:
								if _, fresh := v.X.(*ssa.Alloc); fresh {
									okApp = true // make with constant sizes: a slice of a fresh array
								}
							}
							if _, isAlloc := a.X.(*ssa.Alloc); isAlloc {
								okApp = true // a frame under construction / a local copy
							}
							if !okApp {
								bad = append(bad, relName(fn)+" assigns a frame's JoinPoints something other than an append to it at "+w.pos(st.Pos()))
							}
						}
					}
				}
			}
		}
	}
	sort.Strings(bad)
	if len(bad) > 0 {
		r.violated(rule, "frame-overwrite", "-", strings.Join(bad, "; "))
	} else {
		r.holds(rule, "frame-overwrite", "-", fmt.Sprintf("no whole-frame store into the call stack; JoinPoints only grows by append (%d sites)", nApp))
	}
	if nApp == 0 {
		r.undecided(rule, "frame-overwrite/anchor", "-", "no append to a frame's JoinPoints found: the rule's anchor does not resolve")
	}
	r.need(rule, 1)
}

// addCallstackInvariant: len(callTracer.callstack) >= 1 is established by the constructor and kept by every store.
func addCallstackInvariant(w *World, r *Report, rule string) {
	env := w.rangeEnv()
	n := 0
	for _, fn := range w.forkFuncsAll() {
		if fn.Pkg == nil || fn.Pkg.Pkg.Path() != forkPath(pkNative) {
			continue
		}
		var a *ranger
		for _, b := range fn.Blocks {
			for _, ins := range b.Instrs {
				st, ok := ins.(*ssa.Store)
				if !ok {
					continue
				}
				fa, ok := st.Addr.(*ssa.FieldAddr)
				if !ok || fieldID(fa) != "P3.callTracer.callstack" {
					continue
				}
				n++
				if a == nil {
					a = env.analyse(fn)
				}
				key := fmt.Sprintf("%s/store:callstack#%d", relName(fn), n)
				ln := a.lenOf(st.Val, b)
				if a.proves(b, le(konst64(1), ln)) {
					r.holds(rule, key, w.pos(st.Pos()), "the stored slice has length "+ln.String()+" >= 1")
				} else {
					r.violated(rule, key, w.pos(st.Pos()), "cannot show that the call stack keeps at least its root frame (stored length "+ln.String()+"): every callstack[len-1] relies on it")
				}
			}
		}
	}
	r.need(rule, 3)
}

// ---- C20 -------------------------------------------------------------------------------------------------

func checkC20(w *World, tier string) *Report {
	r := newReport("C20")
	r.Explanation = "E3 resource obligations on everything reachable through static fork callees from a journal instruction (slots 0xe0-0xe7, resolved from the table) or an Artela precompile's Run (addresses 100-102): " +
		"R20.1 every loop's exit test compares an induction variable with a bound that is a constant or entailed to be at most the length of an existing buffer/collection (ranges over existing maps/slices are bounded by construction); " +
		"R20.2 every make size and every Memory.GetCopy size is a constant or entailed to be at most the length of an existing buffer — so no instruction copies, hashes or allocates an attacker-chosen amount for its flat fee; " +
		"R20.4 a fork instruction that declares a memorySize (making the interpreter allocate up to an operand-chosen size before it runs) has a dynamicGas function that reads that size; calls of the padding helpers getData / common.RightPadBytes / LeftPadBytes count as allocations of their size argument under R20.2; " +
		"R20.3 the flat fee itself is C12 R12.3; the metering of inherited instructions and precompiles is the reference's: every gas and memory-size function, every RequiredGas, RunPrecompiledContract, UseGas, Memory.Resize and the interpreter loop (which charges before it resizes memory) is an SSA clone of go-ethereum v1.12.0. Constants of proportionality and work done inside host callbacks are not decided."
	var roots []*ssa.Function
	for _, js := range w.journalSlots() {
		if fn := w.Func(forkPath(pkVM), js.execute); fn != nil {
			roots = append(roots, fn)
		}
	}
	for _, t := range []string{"aspcontext", "userOpSender", "contextWriter"} {
		if fn := w.Func(forkPath(pkVM), "(*"+t+").Run"); fn != nil {
			roots = append(roots, fn)
		}
	}
	if len(roots) != 11 {
		r.violated("R20.1", "roots", "-", fmt.Sprintf("expected 8 journal instructions and 3 precompiles, resolved %d", len(roots)))
	}
	seen := map[*ssa.Function]bool{}
	var order []*ssa.Function
	var visit func(f *ssa.Function)
	visit = func(f *ssa.Function) {
		if f == nil || seen[f] || f.Blocks == nil || !isForkPkg(f.Pkg) && f.Parent() == nil {
			return
		}
		seen[f] = true
		order = append(order, f)
		for _, a := range f.AnonFuncs {
			visit(a)
		}
		for _, b := range f.Blocks {
			for _, ins := range b.Instrs {
				if ci, ok := ins.(ssa.CallInstruction); ok {
					if c := ci.Common().StaticCallee(); c != nil {
						visit(c)
					}
				}
			}
		}
	}
	for _, f := range roots {
		visit(f)
	}
	classOf := w.funcClasses()
	env := w.rangeEnv()
	nf := 0
	// resource obligations are keyed by the root they are reachable from (instruction / precompile) and
	// numbered in visiting order, so that moving a loop into a helper of the same instruction keeps its key
	rootOf := map[*ssa.Function]*ssa.Function{}
	for _, root := range roots {
		var mark func(f *ssa.Function)
		mark = func(f *ssa.Function) {
			if f == nil || f.Blocks == nil || rootOf[f] != nil || !isForkPkg(f.Pkg) && f.Parent() == nil {
				return
			}
			rootOf[f] = root
			for _, a := range f.AnonFuncs {
				mark(a)
			}
			for _, b := range f.Blocks {
				for _, ins := range b.Instrs {
					if ci, ok := ins.(ssa.CallInstruction); ok {
						mark(ci.Common().StaticCallee())
					}
				}
			}
		}
		mark(root)
	}
	ordByRoot := map[string]int{}
	for _, fn := range order {
		top := fn
		for top.Parent() != nil {
			top = top.Parent()
		}
		if c, ok := classOf[top]; ok && c == ClsClone {
			continue // inherited helper (Stack.pop, Memory.GetCopy, Contract.Address …): the reference's
		}
		nf++
		a := env.analyse(fn)
		for _, o := range a.resourceObligations() {
			rule := "R20.2"
			if strings.Contains(o.Key, "/loop#") {
				rule = "R20.1"
			}
			if rt := rootOf[fn]; rt != nil {
				kind := o.Key[strings.LastIndex(o.Key, "/")+1:]
				if i := strings.Index(kind, "#"); i >= 0 {
					kind = kind[:i]
				}
				ordByRoot[relName(rt)+"/"+kind]++
				o.Key = fmt.Sprintf("%s/%s#%d", relName(rt), kind, ordByRoot[relName(rt)+"/"+kind])
				if fn != rt {
					o.What += " (in " + relName(fn) + ")"
				}
			}
			if o.Status == Holds {
				r.holds(rule, o.Key, w.pos(o.Pos), o.What+" — "+o.By)
			} else {
				r.violated(rule, o.Key, w.pos(o.Pos), o.What+" — not entailed: an operand, memory or storage value chooses the amount of work for a flat fee")
			}
		}
	}
	r.Analysed["functions_reachable_from_fork_instructions_and_precompiles"] = nf
	r.need("R20.1", 1)
	r.need("R20.2", 1)
	// R20.4: a fork slot that makes the interpreter resize memory must pay for the size
	info := w.Pkgs[forkPath(pkVM)].TypesInfo
	slots := append(w.journalSlots(), w.slotLits(0x5e, 0x5e)...)
	for _, js := range slots {
		key := fmt.Sprintf("slot-0x%02x", js.slot)
		if _, has := js.fields["memorySize"]; !has {
			r.holds("R20.4", key, w.pos(js.pos), "declares no memorySize: the interpreter never resizes memory for this instruction")
			continue
		}
		var gfn *ssa.Function
		dgE := js.fields["dynamicGas"]
		// a package-level variable initialised with a constructor call (gasMcopy = memoryCopierGas(2))
		if id, ok := dgE.(*ast.Ident); ok {
			if v, ok := info.Uses[id].(*types.Var); ok && v.Parent() == w.Pkgs[forkPath(pkVM)].Types.Scope() {
				for _, f := range w.Pkgs[forkPath(pkVM)].Syntax {
					ast.Inspect(f, func(n ast.Node) bool {
						vs, ok := n.(*ast.ValueSpec)
						if !ok {
							return true
						}
						for i, nm := range vs.Names {
							if info.Defs[nm] == types.Object(v) && i < len(vs.Values) {
								dgE = vs.Values[i]
							}
						}
						return true
					})
				}
			}
		}
		switch dg := dgE.(type) {
		case *ast.CallExpr:
			if id, ok := dg.Fun.(*ast.Ident); ok {
				if fo, ok := info.Uses[id].(*types.Func); ok {
					if ctor := w.Func(forkPath(pkVM), fo.Name()); ctor != nil && len(ctor.AnonFuncs) == 1 && returnsOnlyClosure(ctor) {
						gfn = ctor.AnonFuncs[0]
					}
				}
			}
		case *ast.Ident:
			if fo, ok := info.Uses[dg].(*types.Func); ok {
				gfn = w.Func(forkPath(pkVM), fo.Name())
			}
		}
		switch {
		case gfn == nil:
			r.violated("R20.4", key, w.pos(js.pos), "the slot declares a memorySize (the interpreter resizes memory to an operand-chosen size) but has no resolvable dynamicGas function that could charge for it")
		case len(gfn.Params) == 0 || gfn.Params[len(gfn.Params)-1].Referrers() == nil || len(*gfn.Params[len(gfn.Params)-1].Referrers()) == 0:
			r.violated("R20.4", key, w.pos(js.pos), "the slot declares a memorySize, so the interpreter resizes memory to an operand-chosen size before the instruction runs, but its dynamicGas function "+relName(gfn)+" never reads its memorySize argument: the expansion is free")
		default:
			r.holds("R20.4", key, w.pos(js.pos), "memorySize declared and read by the dynamicGas function "+relName(gfn))
		}
	}
	r.need("R20.4", 9)
	// R20.3: the metering of inherited instructions and precompiles is the reference's
	s := w.e1()
	meterFiles := map[string]bool{"gas_table.go": true, "gas.go": true, "operations_acl.go": true, "memory_table.go": true, "common.go": true,
		"analysis.go": true, "contract.go": true} // the JUMPDEST analysis and its per-frame caching bound the work of every JUMP
	s.cloneRule(r, "R20.3", pkVM, func(name string, pr *PairResult) bool {
		f := w.Fset.Position(pr.Fork.Pos()).Filename
		if meterFiles[f[strings.LastIndex(f, "/")+1:]] {
			return true
		}
		// ... and the work a precompile does for the price RequiredGas asks: the Run methods of the inherited precompiles
		if strings.HasSuffix(name, ".Run") && name != "(*EVMInterpreter).Run" && !strings.HasPrefix(name, "(*aspcontext)") && !strings.HasPrefix(name, "(*userOpSender)") && !strings.HasPrefix(name, "(*contextWriter)") {
			return true
		}
		// seventh batch: instructions whose host-side work is bounded by an operand window the instruction itself
		// enforces (BLOCKHASH: the provider walks the ancestors down to the requested number, so the 256-block window
		// is what bounds the walk), and the table constructors that bind each instruction to its gas function
		// (CREATE2 bound to gasCreate hashes the init code without the per-word charge)
		if name == "opBlockhash" || strings.HasPrefix(name, "new") && strings.HasSuffix(name, "InstructionSet") || strings.HasPrefix(name, "enable") || name == "validate" || name == "copyJumpTable" {
			return true
		}
		return strings.HasSuffix(name, ".RequiredGas") || name == "(*EVMInterpreter).Run" || name == "RunPrecompiledContract" || name == "(*Contract).UseGas" || name == "(*Memory).Resize"
	})
	r.need("R20.3", 60)
	s.cloneRule(r, "R16.6", pkCore, func(name string, pr *PairResult) bool { return name == "GetHashFn" || strings.HasPrefix(name, "GetHashFn$") })
	r.need("R16.6", 1)
	addGasMcopyRule(w, r, "R15.2")
	r.Explanation += " R20.3 also covers opBlockhash (its 256-block window bounds the ancestor walk of the hash provider, core.GetHashFn — R16.6 shared with C16) and the instruction-set constructors (which gas function each instruction is bound to)."
	r.Explanation += " R20.3 also covers the Run methods of the inherited precompiles (the work done for the price RequiredGas asks); R15.2 (shared with C15) the gas function of MCOPY is memoryCopierGas(2): per-word copy gas on the length operand."
	return r
}
