package main

import (
	"encoding/json"
	"fmt"
	"os"
	"path/filepath"
	"sort"
	"strings"
	"time"
)

type Status int

const (
	Holds Status = iota
	Violated
	Undecided
)

func (s Status) String() string { return [...]string{"holds", "violated", "undecided"}[s] }

// Obligation is one rule instance: rule + construct, never a line number.
type Obligation struct {
	Rule   string `json:"rule"`
	Key    string `json:"key"` // construct: function / callee / field / ordinal
	Status Status `json:"-"`
	St     string `json:"status"`
	Pos    string `json:"pos,omitempty"`
	Detail string `json:"detail,omitempty"` // facts used / what is missing
	// Nontrivial: needed at least one non-intrinsic fact / a path split / a cross-function argument.
	Nontrivial bool `json:"nontrivial,omitempty"`
}

// Report collects the obligations of one property on one run.
type Report struct {
	Prop        string
	Obls        []*Obligation
	MinCount    map[string]int // rule -> minimum instance count confirmed by hand
	Explanation string
	Assumptions []string
	Extra       map[string]any
	Analysed    map[string]int // what was analysed: functions, cfgs, paths ...
}

func newReport(prop string) *Report {
	return &Report{Prop: prop, MinCount: map[string]int{}, Extra: map[string]any{}, Analysed: map[string]int{}}
}

func (r *Report) add(rule, key string, st Status, pos, detail string, nontrivial bool) *Obligation {
	o := &Obligation{Rule: rule, Key: key, Status: st, St: st.String(), Pos: pos, Detail: detail, Nontrivial: nontrivial}
	r.Obls = append(r.Obls, o)
	return o
}
func (r *Report) holds(rule, key, pos, detail string) *Obligation {
	return r.add(rule, key, Holds, pos, detail, true)
}
func (r *Report) trivial(rule, key, pos, detail string) *Obligation {
	return r.add(rule, key, Holds, pos, detail, false)
}
func (r *Report) violated(rule, key, pos, detail string) *Obligation {
	return r.add(rule, key, Violated, pos, detail, true)
}
func (r *Report) undecided(rule, key, pos, detail string) *Obligation {
	return r.add(rule, key, Undecided, pos, detail, true)
}
func (r *Report) need(rule string, n int) { r.MinCount[rule] = n }
func (r *Report) count(rule string) int {
	n := 0
	for _, o := range r.Obls {
		if o.Rule == rule {
			n++
		}
	}
	return n
}

// merge copies the obligations of a sub-report in (used when one property reuses another's rules).
func (r *Report) merge(o *Report) {
	r.Obls = append(r.Obls, o.Obls...)
	for k, v := range o.MinCount {
		if r.MinCount[k] < v {
			r.MinCount[k] = v
		}
	}
	for k, v := range o.Analysed {
		r.Analysed[k] += v
	}
	r.Assumptions = append(r.Assumptions, o.Assumptions...)
}

// ---- known findings -------------------------------------------------------

type KnownFinding struct {
	Property  string `json:"property"`
	Rule      string `json:"rule"`
	Construct string `json:"construct"`
	What      string `json:"what"`
}
type FixedEntry struct {
	Property string `json:"property"`
	Commit   string `json:"commit"`
	What     string `json:"what"`
}
type KnownFile struct {
	Known []KnownFinding `json:"known_findings"`
	Fixed []string       `json:"fixed"`
}

func verifDir() string {
	if d := os.Getenv("VERIF_DIR"); d != "" {
		return d
	}
	return "/verif"
}

func loadKnown() (*KnownFile, error) {
	b, err := os.ReadFile(filepath.Join(verifDir(), "known_findings.json"))
	if err != nil {
		if os.IsNotExist(err) {
			return &KnownFile{}, nil
		}
		return nil, err
	}
	var k KnownFile
	if err := json.Unmarshal(b, &k); err != nil {
		return nil, err
	}
	return &k, nil
}

// ---- finishing a run ---------------------------------------------------------

type evidenceFile struct {
	PropertyID  string         `json:"property_id"`
	Tier        string         `json:"tier"`
	Seed        int            `json:"seed"`
	Level       string         `json:"level"`
	Coverage    map[string]any `json:"coverage"`
	Assumptions []string       `json:"assumptions"`
	WallS       float64        `json:"wall_s"`
	Violations  int            `json:"violations"`
}

// finish prints diagnostics, writes evidence and returns the exit code.
func finish(r *Report, tier string, seed int, start time.Time, known *KnownFile, runErr error) int {
	evPath := filepath.Join(verifDir(), "evidence", r.Prop+".json")
	// instance-count discipline: a rule that matches nothing would pass vacuously.
	var rules []string
	for rule := range r.MinCount {
		rules = append(rules, rule)
	}
	sort.Strings(rules)
	for _, rule := range rules {
		if got := r.count(rule); got < r.MinCount[rule] {
			r.violated(rule, "instance-count", "", fmt.Sprintf("rule matched %d instances, at least %d were confirmed by hand on the pinned tree: the rule's anchors no longer resolve", got, r.MinCount[rule]))
		}
	}
	if runErr != nil {
		r.violated("R0.load", "analysis", "", "analysis could not complete: "+runErr.Error())
	}
	sort.SliceStable(r.Obls, func(i, j int) bool {
		if r.Obls[i].Rule != r.Obls[j].Rule {
			return r.Obls[i].Rule < r.Obls[j].Rule
		}
		return r.Obls[i].Key < r.Obls[j].Key
	})
	viol, knownN, holdsN, nontriv := 0, 0, 0, 0
	distinct := map[string]bool{}
	var samples []any
	perRule := map[string]map[string]int{}
	var violSamples []any
	for _, o := range r.Obls {
		if perRule[o.Rule] == nil {
			perRule[o.Rule] = map[string]int{}
		}
		perRule[o.Rule][o.Status.String()]++
		id := o.Rule + "|" + o.Key
		if o.Nontrivial && !distinct[id] {
			distinct[id] = true
			nontriv++
		}
		if o.Status == Holds {
			holdsN++
			if perRule[o.Rule]["holds"] <= 2 && len(samples) < 60 {
				samples = append(samples, o)
			}
			continue
		}
		isKnown := false
		for _, k := range known.Known {
			if k.Property == r.Prop && k.Rule == o.Rule && k.Construct == o.Key {
				isKnown = true
				fmt.Printf("KNOWN-FINDING: property=%s [%s] %s: %s\n", r.Prop, o.Rule, o.Key, k.What)
				break
			}
		}
		if isKnown {
			knownN++
			o.St = "known-finding"
			violSamples = append(violSamples, o)
			continue
		}
		viol++
		violSamples = append(violSamples, o)
		fmt.Printf("%s: [%s] %s: %s — %s\n", o.Pos, o.Rule, o.Key, o.Status, o.Detail)
	}
	samples = append(violSamples, samples...)
	if len(samples) == 0 {
		samples = append(samples, "no obligations were generated")
	}
	cov := map[string]any{
		"explanation":         r.Explanation,
		"evaluations":         len(r.Obls),
		"distinct_nontrivial": nontriv,
		"rule":                "one evaluation = one rule instance (rule + construct) generated from the current source of the repository; non-trivial = needed a path split, a non-intrinsic fact, a cross-function summary or a comparison with the reference source; distinct = distinct (rule, construct) keys",
		"obligations":         len(r.Obls),
		"discharged":          holdsN,
		"known_findings":      knownN,
		"undischarged":        viol,
		"per_rule":            perRule,
		"min_instances":       r.MinCount,
		"analysed":            r.Analysed,
		"samples":             samples,
		"exhaustive":          true,
		"checker_cmd":         "/verif/check.sh " + r.Prop + " " + tier,
	}
	for k, v := range r.Extra {
		cov[k] = v
	}
	ev := evidenceFile{PropertyID: r.Prop, Tier: tier, Seed: seed, Level: "other", Coverage: cov,
		Assumptions: dedup(r.Assumptions), WallS: time.Since(start).Seconds(), Violations: viol}
	if ev.Assumptions == nil {
		ev.Assumptions = []string{}
	}
	b, _ := json.MarshalIndent(ev, "", " ")
	os.MkdirAll(filepath.Dir(evPath), 0o755)
	if err := os.WriteFile(evPath, append(b, '\n'), 0o644); err != nil {
		fmt.Fprintf(os.Stderr, "cannot write evidence: %v\n", err)
		return 2
	}
	fmt.Printf("%s %s: %d rule instances, %d hold, %d known findings, %d violations (%.1fs)\n", r.Prop, tier, len(r.Obls), holdsN, knownN, viol, time.Since(start).Seconds())
	if viol > 0 {
		fmt.Printf("VIOLATION property=%s replay=%s\n", r.Prop, evPath)
		return 1
	}
	return 0
}

func dedup(in []string) []string {
	seen := map[string]bool{}
	var out []string
	for _, s := range in {
		s = strings.TrimSpace(s)
		if s != "" && !seen[s] {
			seen[s] = true
			out = append(out, s)
		}
	}
	return out
}
