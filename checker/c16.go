package main

// C16 (determinism) and C17 (no shared mutable state): E6 map-order lint, E4 shared-constant,
// global-write and receiver-write inventories, type facts.

import (
	"fmt"
	"go/ast"
	"go/token"
	"go/types"
	"sort"
	"strings"

	"golang.org/x/tools/go/ssa"
	"golang.org/x/tools/go/types/typeutil"
)

func init() {
	register("C16", true, true, checkC16)
	register("C17", true, true, checkC17)
}

func checkC16(w *World, tier string) *Report {
	r := newReport("C16")
	r.Explanation = "R16.1 (map-order lint over every `range` on a map in the fork packages): a site inside a function that is an SSA clone of go-ethereum v1.12.0 is the reference's behaviour; a site in fork-only or modified code must have an order-insensitive body (only map stores keyed by the range key, deletes, integer accumulation, continue) or follow the collect-then-sort idiom (the body only appends to a local slice and the first later statement mentioning that slice sorts it with a total order) — otherwise Go's randomised iteration order reaches a result; " +
		"R16.2 (SSA use inventory of every package-level *uint256.Int / *big.Int of vm): a value loaded from a shared constant is used only as a read-only operand — never as the receiver of a mutating method, as an out-parameter, stored, returned or passed to other code; " +
		"R16.3 (SSA store inventory over all fork functions): no store or map update rooted in a package-level variable outside package initialisation, no fork method with a receiver store is invoked on a package-level variable outside initialisation, and the precompile types whose instances sit in the shared tables never store through their receiver; " +
		"R16.4 NewEVM stores the result of a NewTracer() call made in that invocation into the new EVM's tracer field; NewTracer/NewStateChanges/NewCallTree return allocations made in that call; nothing else writes EVM.tracer, EVMInterpreter.tracer, Tracer.states or Tracer.callTree. Inherited code is covered by the clone rule of C01. Determinism of StateDB, the Aspect runtime and crypto is not decided."
	addMapOrderRule(w, r, "R16.1")
	addSharedConstRule(w, r, "R16.2")
	addGlobalWriteRule(w, r, "R16.3")
	addFreshTracerRule(w, r, "R16.4")
	{
		// the per-EVM copy of the shared instruction table (copyJumpTable before EnableEIP) is the reference's:
		// an extra EIP enabled in place would change what every later EVM of that fork executes
		s := w.e1()
		want := map[string]bool{"NewEVMInterpreter": true, "copyJumpTable": true, "EnableEIP": true, "newstack": true, "returnStack": true}
		s.cloneRule(r, "R17.2", pkVM, func(name string, pr *PairResult) bool { return want[name] })
	}
	addMutableGlobalRule(w, r, "R16.5")
	addSharedClosureStateRule(w, r, "R17.5")
	addR84(w, r, "R8.4") // recycled frame memory would let one execution overwrite what another still refers to
	r.Assumptions = append(r.Assumptions, "StateDB, Aspect runtime and crypto are deterministic (external)", "sort.Strings/sort.Ints/slices.Sort and bytes.Compare order whole elements totally")
	// the host-side helpers that executions of one block share (the BLOCKHASH provider keeps a cache of ancestors across
	// calls): clones of the reference, so that what one execution reads does not depend on which executions came before
	w.e1().cloneRule(r, "R16.6", pkCore, func(name string, pr *PairResult) bool {
		return name == "GetHashFn" || strings.HasPrefix(name, "GetHashFn$") || name == "NewEVMBlockContext" || name == "CanTransfer" || name == "Transfer"
	})
	r.need("R16.6", 3)
	// seventh batch: what the constructor does to the contexts it is given. BlockContext is passed by value but its
	// big numbers are shared by every EVM built for the block: NewEVM and the context setters embed the reference's
	// (which only store them) with reviewed insertions — an insertion that writes through such a pointer
	// (`blockCtx.BaseFee.SetUint64(0)`) changes what every later EVM of the block reads
	w.e1().cloneRule(r, "R16.7", pkVM, func(name string, pr *PairResult) bool {
		return name == "NewEVM" || name == "(*EVM).Reset" || name == "(*EVM).SetBlockContext" || name == "(*Contract).isCode" || name == "(*Contract).validJumpdest" || name == "ActivePrecompiles"
	})
	r.need("R16.7", 4)
	r.Explanation += " R16.7 (shared with C01) NewEVM, Reset, SetBlockContext, Contract.isCode/validJumpdest (the JUMPDEST analysis cache) and ActivePrecompiles are the reference's, with reviewed insertions only: they write nothing that outlives the execution or is shared with other EVMs. R16.5 also covers fork-added package-level sync.Map/sync.Pool values."
	r.Explanation += " R16.6 core.GetHashFn (the BLOCKHASH provider shared by the executions of a block, with its ancestor cache), NewEVMBlockContext, CanTransfer and Transfer are SSA clones of the reference."
	return r
}

func checkC17(w *World, tier string) *Report {
	r := newReport("C17")
	r.Explanation = "Ownership argument instead of schedule exploration — a data race needs shared mutable state: " +
		"R17.1 = R16.2 + R16.3 (shared 256-bit constants are never written; no store rooted in a package-level variable outside initialisation; shared precompile instances never write their receiver; CloneWithCtx returns a new allocation); " +
		"R17.2 everything that touches the shared instruction tables, the stack pool and the abort flag is an SSA clone of go-ethereum v1.12.0 or embeds it with reviewed insertions (NewEVMInterpreter incl. copyJumpTable before EnableEIP, copyJumpTable, newstack/returnStack, opJump/opJumpi, Cancel/Cancelled, the interpreter loop); " +
		"R17.3 type facts: EVM.abort has type sync/atomic.Bool and its address is used only as the receiver of sync/atomic methods; stackPool is a sync.Pool used only through Get/Put; " +
		"R17.5 closures returned by their constructor (the instruction and gas-function makers whose results live in the tables shared by all EVMs) only read what they capture; R16.5 the fork adds no package-level slice/map that is written or handed to a call; R17.4 per-EVM recorder: R16.4 (fresh tracer per EVM; the interpreter's tracer is the EVM's). Races inside StateDB / Aspect runtime and promptness of cancellation (timing) are not decided."
	addSharedConstRule(w, r, "R17.1")
	addGlobalWriteRule(w, r, "R17.1")
	s := w.e1()
	want := map[string]bool{"NewEVMInterpreter": true, "copyJumpTable": true, "newstack": true, "returnStack": true, "opJump": true, "opJumpi": true,
		"(*EVM).Cancel": true, "(*EVM).Cancelled": true, "(*EVMInterpreter).Run": true, "(*EVM).Reset": true, "validate": true}
	s.cloneRule(r, "R17.2", pkVM, func(name string, pr *PairResult) bool { return want[name] })
	r.need("R17.2", 8)
	addAtomicRule(w, r, "R17.3")
	addFreshTracerRule(w, r, "R17.4")
	r.Assumptions = append(r.Assumptions, "StateDB instances are not shared between concurrently running EVMs (stated in the property)", "sync.Pool and sync/atomic are safe for concurrent use")
	addSharedClosureStateRule(w, r, "R17.5")
	addMutableGlobalRule(w, r, "R16.5")
	// seventh batch: the inherited package-level lists and tables that every EVM of the process reads (the
	// PrecompiledAddresses* slices handed out by ActivePrecompiles, the precompile maps) are only read: the functions
	// that hand them out are the reference's (an in-place sort "for a stable order" makes concurrent set-ups race)
	w.e1().cloneRule(r, "R17.6", pkVM, func(name string, pr *PairResult) bool {
		return name == "ActivePrecompiles" || name == "(*EVM).precompile" || name == "NewEVMInterpreter"
	})
	r.need("R17.6", 2)
	r.Explanation += " R17.6 (shared with C01) ActivePrecompiles, EVM.precompile and NewEVMInterpreter — the functions through which every EVM reads the process-wide precompile lists and instruction tables — are the reference's with reviewed insertions only: they do not write what they hand out."
	addCaptureBalance(w, r, "R18.2")
	r.Explanation += " R18.2 (shared with C18) every CaptureStart/CaptureEnter of Call and create is matched by its CaptureEnd/CaptureExit on every path, also on the paths an abort takes: a cancelled execution does not leave frame bookkeeping open."
	return r
}

// ---- R16.1 map-order ---------------------------------------------------------------------

var totalSortFuncs = map[string]bool{"sort.Strings": true, "sort.Ints": true, "sort.Float64s": true, "slices.Sort": true}
var cmpSortFuncs = map[string]bool{"sort.Slice": true, "sort.SliceStable": true, "slices.SortFunc": true, "slices.SortStableFunc": true}

func addMapOrderRule(w *World, r *Report, rule string) {
	s := w.e1()
	n := 0
	for pair := range pkgPairs {
		p := w.Pkgs[forkPath(pair)]
		cl := s.cls[pair]
		for _, f := range p.Syntax {
			for _, d := range f.Decls {
				fd, ok := d.(*ast.FuncDecl)
				if !ok || fd.Body == nil {
					continue
				}
				name := declRelName(fd)
				cls := ClsNew
				for rn, pr := range cl.Results {
					if pr.Fork != nil && pr.Fork.Pos() == fd.Name.Pos() {
						cls, name = pr.Class, rn
					}
				}
				ord := 0
				c := &astCanon{info: p.TypesInfo}
				var stack []ast.Node
				ast.Inspect(fd.Body, func(nd ast.Node) bool {
					if nd == nil {
						stack = stack[:len(stack)-1]
						return true
					}
					stack = append(stack, nd)
					rs, ok := nd.(*ast.RangeStmt)
					if !ok {
						return true
					}
					t := p.TypesInfo.TypeOf(rs.X)
					if t == nil {
						return true
					}
					if _, ok := t.Underlying().(*types.Map); !ok {
						return true
					}
					ord++
					n++
					key := fmt.Sprintf("%s.%s/maprange#%d:%s", pkgShort(pair), name, ord, c.expr(rs.X))
					if cls == ClsClone {
						r.trivial(rule, key, w.pos(rs.Pos()), "inside an SSA clone of the reference function: the iteration is go-ethereum v1.12.0's (C01 R1.1)")
						return true
					}
					ok2, why := mapRangeOrderFree(p.TypesInfo, rs, append([]ast.Node{fd.Body}, stack...))
					if ok2 {
						r.holds(rule, key, w.pos(rs.Pos()), why)
					} else {
						r.violated(rule, key, w.pos(rs.Pos()), "iteration order of a Go map reaches a result: "+why)
					}
					return true
				})
			}
		}
	}
	r.Analysed["map_range_sites"] += n
	r.need(rule, 15)
}

// mapRangeOrderFree decides whether the effect of a range-over-map statement is independent of
// the iteration order. anc is the chain of enclosing nodes (outermost first) ending with rs.
func mapRangeOrderFree(info *types.Info, rs *ast.RangeStmt, anc []ast.Node) (bool, string) {
	keyObj := func(e ast.Expr) types.Object {
		if id, ok := e.(*ast.Ident); ok && id.Name != "_" {
			if o := info.Defs[id]; o != nil {
				return o
			}
			return info.Uses[id]
		}
		return nil
	}
	kObj := keyObj(rs.Key)
	var collected types.Object // the local slice appended to
	var why string
	pureExpr := func(e ast.Expr) bool {
		ok := true
		ast.Inspect(e, func(n ast.Node) bool {
			if c, isCall := n.(*ast.CallExpr); isCall {
				if tv, isConv := info.Types[c.Fun]; isConv && tv.IsType() {
					return true
				}
				if id, isId := c.Fun.(*ast.Ident); isId {
					if _, isB := info.Uses[id].(*types.Builtin); isB && (id.Name == "len" || id.Name == "cap") {
						return true
					}
				}
				ok = false
			}
			if _, isFn := n.(*ast.FuncLit); isFn {
				ok = false
			}
			return ok
		})
		return ok
	}
	var stmtOK func(s ast.Stmt) bool
	listOK := func(l []ast.Stmt) bool {
		for _, s := range l {
			if !stmtOK(s) {
				return false
			}
		}
		return true
	}
	stmtOK = func(s ast.Stmt) bool {
		switch x := s.(type) {
		case *ast.EmptyStmt:
			return true
		case *ast.BranchStmt:
			if x.Tok == token.CONTINUE && x.Label == nil {
				return true
			}
			why = "`" + x.Tok.String() + "` inside the loop selects an arbitrary element"
			return false
		case *ast.IncDecStmt:
			if b, ok := info.TypeOf(x.X).Underlying().(*types.Basic); ok && b.Info()&types.IsInteger != 0 && pureExpr(x.X) {
				return true
			}
		case *ast.IfStmt:
			if x.Init != nil || !pureExpr(x.Cond) {
				why = "condition with a call"
				return false
			}
			if !listOK(x.Body.List) {
				return false
			}
			switch e := x.Else.(type) {
			case nil:
				return true
			case *ast.BlockStmt:
				return listOK(e.List)
			case *ast.IfStmt:
				return stmtOK(e)
			}
		case *ast.ExprStmt:
			if c, ok := x.X.(*ast.CallExpr); ok {
				if id, ok := c.Fun.(*ast.Ident); ok {
					if _, isB := info.Uses[id].(*types.Builtin); isB && id.Name == "delete" && len(c.Args) == 2 && pureExpr(c.Args[1]) {
						return true
					}
				}
			}
		case *ast.AssignStmt:
			if len(x.Lhs) != 1 || len(x.Rhs) != 1 {
				break
			}
			// m2[key...] = pure value: distinct keys, so the final map is order-independent
			if ix, ok := x.Lhs[0].(*ast.IndexExpr); ok && x.Tok == token.ASSIGN {
				if _, isMap := info.TypeOf(ix.X).Underlying().(*types.Map); isMap && pureExpr(ix.Index) && pureExpr(x.Rhs[0]) && kObj != nil && mentionsObj(info, ix.Index, kObj) {
					return true
				}
			}
			// integer accumulation
			if x.Tok == token.ADD_ASSIGN || x.Tok == token.OR_ASSIGN || x.Tok == token.AND_ASSIGN || x.Tok == token.XOR_ASSIGN {
				if b, ok := info.TypeOf(x.Lhs[0]).Underlying().(*types.Basic); ok && b.Info()&types.IsInteger != 0 && pureExpr(x.Rhs[0]) && pureExpr(x.Lhs[0]) {
					return true
				}
			}
			// s = append(s, pure)
			if id, ok := x.Lhs[0].(*ast.Ident); ok && x.Tok == token.ASSIGN {
				if c, ok := x.Rhs[0].(*ast.CallExpr); ok && len(c.Args) == 2 && c.Ellipsis == token.NoPos {
					if fid, ok := c.Fun.(*ast.Ident); ok {
						if _, isB := info.Uses[fid].(*types.Builtin); isB && fid.Name == "append" {
							if a0, ok := c.Args[0].(*ast.Ident); ok && info.Uses[a0] == info.Uses[id] && pureExpr(c.Args[1]) {
								o := info.Uses[id]
								if v, ok := o.(*types.Var); ok && !v.IsField() && !isPkgLevel(v) && (collected == nil || collected == o) {
									collected = o
									return true
								}
							}
						}
					}
				}
			}
		}
		if why == "" {
			why = "statement `" + clip(exprOrStmt(s), 80) + "` is order-sensitive or not recognised as order-insensitive"
		}
		return false
	}
	if !listOK(rs.Body.List) {
		return false, why
	}
	if collected == nil {
		return true, "the body only performs order-insensitive updates (map stores keyed by the range key, deletes, integer accumulation)"
	}
	// collect-then-sort: the first later statement mentioning the slice must sort it totally.
	var later []ast.Stmt
	for i := len(anc) - 1; i > 0; i-- {
		child := anc[i]
		var list []ast.Stmt
		switch p := anc[i-1].(type) {
		case *ast.BlockStmt:
			list = p.List
		case *ast.CaseClause:
			list = p.Body
		case *ast.CommClause:
			list = p.Body
		case *ast.ForStmt, *ast.RangeStmt:
			if _, isStmt := child.(*ast.BlockStmt); isStmt && p != ast.Node(rs) {
				return false, "the collecting loop is nested in another loop: the slice `" + collected.Name() + "` is not sorted before the next iteration uses it"
			}
		case *ast.FuncLit:
			i = 0
		}
		for k, s := range list {
			if s == child {
				later = append(later, list[k+1:]...)
			}
		}
	}
	for _, s := range later {
		if !mentionsObj(info, s, collected) {
			continue
		}
		if es, ok := s.(*ast.ExprStmt); ok {
			if c, ok := es.X.(*ast.CallExpr); ok && len(c.Args) >= 1 {
				if a0, ok := c.Args[0].(*ast.Ident); ok && info.Uses[a0] == collected {
					if fo, ok := typeutil.Callee(info, c).(*types.Func); ok && fo.Pkg() != nil {
						q := fo.Pkg().Path() + "." + fo.Name()
						if totalSortFuncs[q] {
							return true, "collect-then-sort: `" + collected.Name() + "` is sorted by " + q + " before its first use"
						}
						if cmpSortFuncs[q] && len(c.Args) == 2 {
							if wholeElementComparator(info, c.Args[1], collected) {
								return true, "collect-then-sort: `" + collected.Name() + "` is sorted by " + q + " with a whole-element comparator before its first use"
							}
							return false, "`" + collected.Name() + "` is sorted by " + q + " but the comparator is not a whole-element comparison (ties would keep the map's order)"
						}
					}
				}
			}
		}
		return false, "the slice `" + collected.Name() + "` collected in map order is used by `" + clip(exprOrStmt(s), 80) + "` before being sorted"
	}
	return false, "the slice `" + collected.Name() + "` collected in map order is never sorted"
}

func exprOrStmt(n ast.Node) string {
	var sb strings.Builder
	ast.Inspect(n, func(x ast.Node) bool {
		switch y := x.(type) {
		case *ast.Ident:
			sb.WriteString(y.Name + " ")
		case *ast.BasicLit:
			sb.WriteString(y.Value + " ")
		}
		return true
	})
	return strings.TrimSpace(sb.String())
}

func mentionsObj(info *types.Info, n ast.Node, o types.Object) bool {
	found := false
	ast.Inspect(n, func(x ast.Node) bool {
		if id, ok := x.(*ast.Ident); ok && (info.Uses[id] == o || info.Defs[id] == o) {
			found = true
		}
		return !found
	})
	return found
}

// wholeElementComparator: func(i, j int) bool { return s[i] < s[j] } / bytes.Compare(s[i], s[j]) < 0,
// or func(a, b T) int { return bytes.Compare(a, b) } / cmp.Compare / strings.Compare.
func wholeElementComparator(info *types.Info, e ast.Expr, s types.Object) bool {
	fl, ok := e.(*ast.FuncLit)
	if !ok || len(fl.Body.List) != 1 {
		return false
	}
	ret, ok := fl.Body.List[0].(*ast.ReturnStmt)
	if !ok || len(ret.Results) != 1 {
		return false
	}
	var params []types.Object
	for _, f := range fl.Type.Params.List {
		for _, n := range f.Names {
			params = append(params, info.Defs[n])
		}
	}
	if len(params) != 2 {
		return false
	}
	isElem := func(x ast.Expr, k int) bool {
		if ix, ok := x.(*ast.IndexExpr); ok {
			b, ok1 := ix.X.(*ast.Ident)
			i, ok2 := ix.Index.(*ast.Ident)
			return ok1 && ok2 && info.Uses[b] == s && info.Uses[i] == params[k]
		}
		if id, ok := x.(*ast.Ident); ok {
			return info.Uses[id] == params[k] && !types.Identical(params[k].Type(), types.Typ[types.Int])
		}
		return false
	}
	cmpCall := func(x ast.Expr) bool {
		c, ok := x.(*ast.CallExpr)
		if !ok || len(c.Args) != 2 {
			return false
		}
		fo, ok := typeutil.Callee(info, c).(*types.Func)
		if !ok || fo.Pkg() == nil {
			return false
		}
		q := fo.Pkg().Path() + "." + fo.Name()
		if q != "bytes.Compare" && q != "strings.Compare" && q != "cmp.Compare" {
			return false
		}
		return isElem(c.Args[0], 0) && isElem(c.Args[1], 1)
	}
	switch x := ret.Results[0].(type) {
	case *ast.BinaryExpr:
		if x.Op == token.LSS {
			if isElem(x.X, 0) && isElem(x.Y, 1) {
				if b, ok := info.TypeOf(x.X).Underlying().(*types.Basic); ok && b.Info()&(types.IsOrdered) != 0 {
					return true
				}
			}
			if lit, ok := x.Y.(*ast.BasicLit); ok && lit.Value == "0" && cmpCall(x.X) {
				return true
			}
		}
	case *ast.CallExpr:
		return cmpCall(x)
	}
	return false
}

// ---- R16.2 shared constants ---------------------------------------------------------------

// bignumReadOnly: methods of uint256.Int / big.Int that do not write their receiver.
var bignumReadOnly = map[string]bool{"IsZero": true, "Eq": true, "Lt": true, "Gt": true, "Slt": true, "Sgt": true, "Cmp": true, "CmpUint64": true, "CmpBig": true, "LtUint64": true, "GtUint64": true,
	"Bytes": true, "Bytes32": true, "Bytes20": true, "Uint64": true, "IsUint64": true, "Uint64WithOverflow": true, "Clone": true, "Sign": true, "BitLen": true, "ByteLen": true,
	"String": true, "Hex": true, "Dec": true, "ToBig": true, "Int64": true, "IsInt64": true, "Bit": true, "Text": true, "Format": true, "MarshalText": true, "MarshalJSON": true,
	"WriteToSlice": true, "WriteToArray32": true, "WriteToArray20": true, "PaddedBytes": true, "CmpAbs": true, "ProbablyPrime": true, "TrailingZeroBits": true, "FillBytes": true, "Float64": true, "IsUint256": true}

// bignumOutParam: methods that write an argument other than the receiver (SSA argument index, receiver = 0).
var bignumOutParam = map[string]int{"DivMod": 3, "QuoRem": 3}

func isBignumPtr(t types.Type) bool {
	p, ok := t.(*types.Pointer)
	if !ok {
		return false
	}
	nt, ok := p.Elem().(*types.Named)
	if !ok || nt.Obj().Pkg() == nil || nt.Obj().Name() != "Int" {
		return false
	}
	pp := nt.Obj().Pkg().Path()
	return pp == "github.com/holiman/uint256" || pp == "math/big"
}

func isInitFunc(fn *ssa.Function) bool {
	for fn.Parent() != nil {
		fn = fn.Parent()
	}
	return fn.Name() == "init" || strings.HasPrefix(fn.Name(), "init#")
}

func addSharedConstRule(w *World, r *Report, rule string) {
	type use struct {
		bad string
		pos token.Pos
	}
	uses := map[*ssa.Global][]use{}
	counts := map[*ssa.Global]int{}
	// all package-level bignum pointers of the fork packages
	var globals []*ssa.Global
	for path, sp := range w.SSA {
		if !strings.HasPrefix(path, forkMod) {
			continue
		}
		for _, m := range sp.Members {
			if g, ok := m.(*ssa.Global); ok {
				if pt, ok := g.Type().(*types.Pointer); ok && isBignumPtr(pt.Elem()) {
					globals = append(globals, g)
				}
			}
		}
	}
	sort.Slice(globals, func(i, j int) bool { return globals[i].String() < globals[j].String() })
	isTracked := map[*ssa.Global]bool{}
	for _, g := range globals {
		isTracked[g] = true
	}
	// escapeMatters: an escape (as opposed to a direct write) is judged for fork-only constants
	// everywhere and for inherited constants only inside fork-only functions; the inherited uses
	// of inherited constants are the reference's (C01 R1.1).
	classOf := w.funcClasses()
	refScope := w.Pkgs[refPath(pkVM)].Types.Scope()
	escapeMatters := func(g *ssa.Global, fn *ssa.Function) bool {
		if g.Pkg.Pkg.Path() != forkPath(pkVM) || refScope.Lookup(g.Name()) == nil {
			return true
		}
		for fn.Parent() != nil {
			fn = fn.Parent()
		}
		c, ok := classOf[fn]
		return !ok || c == ClsNew
	}
	var follow func(g *ssa.Global, v ssa.Value, seen map[ssa.Value]bool)
	follow = func(g *ssa.Global, v ssa.Value, seen map[ssa.Value]bool) {
		if seen[v] {
			return
		}
		seen[v] = true
		refs := v.Referrers()
		if refs == nil {
			return
		}
		for _, ins := range *refs {
			counts[g]++
			bad := ""
			esc := ""
			switch x := ins.(type) {
			case ssa.CallInstruction:
				c := x.Common()
				callee := c.StaticCallee()
				idx := -1
				for i, a := range c.Args {
					if a == v {
						idx = i
					}
				}
				switch {
				case c.Value == v:
					bad = "called as a function"
				case callee == nil && c.IsInvoke():
					esc = "passed to the interface method " + c.Method.Name()
				case callee == nil:
					esc = "passed to a dynamic call"
					// exception (one symbol): the host transfer function invoked by the journal wrapper is the
					// reference's evm.Context.Transfer call with the same arguments (C13 R13.1).
					if pa, ok := c.Value.(*ssa.Parameter); ok && typeBaseName(pa.Type()) == "TransferFunc" && ins.Parent().Name() == "TransferWithRecord" {
						esc = ""
					}
				case isForkPkg(callee.Pkg) && callee.Blocks != nil && idx >= 0 && len(c.Args) == len(callee.Params):
					for i, a := range c.Args {
						if a == v {
							follow(g, callee.Params[i], seen)
						}
					}
				case callee.Signature.Recv() != nil && isBignumPtr(callee.Signature.Recv().Type()):
					if len(c.Args) > 0 && c.Args[0] == v && !bignumReadOnly[callee.Name()] {
						bad = "receiver of the mutating method " + callee.Name()
					} else if o, ok := bignumOutParam[callee.Name()]; ok && o < len(c.Args) && c.Args[o] == v {
						bad = "out-parameter of " + callee.Name()
					}
				case callee.Pkg != nil && (callee.Pkg.Pkg.Path() == "github.com/ethereum/go-ethereum/common/math" || callee.Pkg.Pkg.Path() == "math/big" || callee.Pkg.Pkg.Path() == "github.com/holiman/uint256"):
					// pure helpers (BigMax, BigMin, U256, ...): U256/U256Bytes write their argument
					if n := callee.Name(); n == "U256" || n == "U256Bytes" {
						bad = "argument of " + normPath(callee.String()) + " which writes it"
					}
				default:
					esc = "passed to " + normPath(callee.String())
				}
			case *ssa.BinOp:
				// pointer comparison
			case *ssa.Phi:
				follow(g, x, seen)
			case *ssa.Store:
				if x.Val == v {
					if a, isAlloc := x.Addr.(*ssa.Alloc); isAlloc {
						follow(g, loadsOf(a), seen)
					} else if loads, ok := privateFieldLoads(w, x.Addr); ok {
						// an unexported field of a fork struct: the pointer goes wherever the field's readers take it
						for _, l := range loads {
							follow(g, l, seen)
						}
					} else {
						_, d, _ := addrRoot(x.Addr)
						esc = "stored into " + strings.TrimSpace(d+" "+rootDesc(x.Addr))
					}
				} else {
					bad = "written through"
				}
			case *ssa.Return:
				esc = "returned to the caller"
			case *ssa.UnOp:
				if x.Op == token.MUL {
					// value copy *g: a copy of the 256-bit value, fine
				}
			case *ssa.DebugRef:
			case *ssa.FieldAddr, *ssa.IndexAddr:
				// address of a limb of the shared constant: any store through it is a write
				for _, ir := range *x.(ssa.Value).Referrers() {
					if st, ok := ir.(*ssa.Store); ok && st.Addr == x.(ssa.Value) {
						bad = "written through a limb address"
					}
				}
			case *ssa.If, *ssa.Jump:
			case *ssa.MakeInterface, *ssa.ChangeType, *ssa.Convert, *ssa.MakeClosure:
				esc = "escapes through " + fmt.Sprintf("%T", ins)
			default:
				esc = "used by " + fmt.Sprintf("%T", ins)
			}
			if bad == "" && esc != "" && escapeMatters(g, ins.Parent()) {
				bad = esc
			}
			if bad != "" {
				uses[g] = append(uses[g], use{bad + " in " + relName(ins.Parent()), ins.Pos()})
			}
		}
	}
	for _, fn := range w.forkFuncsAll() {
		if isInitFunc(fn) && fn.Synthetic != "" {
			continue
		}
		for _, b := range fn.Blocks {
			for _, ins := range b.Instrs {
				switch x := ins.(type) {
				case *ssa.UnOp:
					if g, ok := x.X.(*ssa.Global); ok && x.Op == token.MUL && isTracked[g] {
						follow(g, x, map[ssa.Value]bool{})
					}
				case *ssa.Store:
					if g, ok := x.Addr.(*ssa.Global); ok && isTracked[g] && !isInitFunc(fn) {
						uses[g] = append(uses[g], use{"re-assigned in " + relName(fn), x.Pos()})
					}
				}
			}
		}
	}
	for _, g := range globals {
		key := "shared-const:" + pkgShortOf(g.Pkg.Pkg.Path()) + "." + g.Name()
		if us := uses[g]; len(us) > 0 {
			var ms []string
			for _, u := range us {
				ms = append(ms, u.bad+" at "+w.pos(u.pos))
			}
			sort.Strings(ms)
			r.violated(rule, key, w.pos(us[0].pos), "a package-level big number shared by all EVM instances may be written or escapes: "+strings.Join(ms, "; "))
		} else {
			r.add(rule, key, Holds, w.pos(g.Pos()), fmt.Sprintf("%d uses, all read-only operands", counts[g]), counts[g] > 0)
		}
	}
	r.Analysed["shared_bignum_constants"] = len(globals)
	r.need(rule, 15)
}

// loadsOf returns a pseudo-value whose referrers are the loads of a local alloc — we simply
// follow every load of the alloc.
func loadsOf(a *ssa.Alloc) ssa.Value { return allocLoads{a} }

type allocLoads struct{ *ssa.Alloc }

func (l allocLoads) Referrers() *[]ssa.Instruction {
	var out []ssa.Instruction
	for _, ins := range *l.Alloc.Referrers() {
		if u, ok := ins.(*ssa.UnOp); ok && u.Op == token.MUL {
			// the loaded value's own referrers are what matter
			if rr := u.Referrers(); rr != nil {
				out = append(out, *rr...)
			}
		}
	}
	return &out
}

// ---- R16.3 global writes ---------------------------------------------------------------------

func addGlobalWriteRule(w *World, r *Report, rule string) {
	type wr struct {
		fn  string
		pos token.Pos
	}
	writers := map[string][]wr{}
	all := w.forkFuncsAll()
	nfn := 0
	// receiver-store summaries of fork methods
	recvStore := map[*ssa.Function]token.Pos{}
	for _, fn := range all {
		if fn.Signature.Recv() == nil || len(fn.Params) == 0 {
			continue
		}
		for _, b := range fn.Blocks {
			for _, ins := range b.Instrs {
				var addr ssa.Value
				switch x := ins.(type) {
				case *ssa.Store:
					addr = x.Addr
				case *ssa.MapUpdate:
					addr = x.Map
				default:
					continue
				}
				rt, _, _ := addrRoot(addr)
				if rt == ssa.Value(fn.Params[0]) {
					if _, ok := recvStore[fn]; !ok {
						recvStore[fn] = ins.Pos()
					}
				}
			}
		}
	}
	globalName := func(g *ssa.Global) string { return pkgShortOf(g.Pkg.Pkg.Path()) + "." + g.Name() }
	for _, fn := range all {
		if isInitFunc(fn) {
			continue
		}
		nfn++
		for _, b := range fn.Blocks {
			for _, ins := range b.Instrs {
				switch x := ins.(type) {
				case *ssa.Store:
					rt, _, _ := addrRoot(x.Addr)
					if g, ok := rt.(*ssa.Global); ok && isForkPkg(g.Pkg) {
						writers[globalName(g)] = append(writers[globalName(g)], wr{relName(fn) + " (store)", x.Pos()})
					}
				case *ssa.MapUpdate:
					rt, _, _ := addrRoot(x.Map)
					if g, ok := rt.(*ssa.Global); ok && isForkPkg(g.Pkg) {
						writers[globalName(g)] = append(writers[globalName(g)], wr{relName(fn) + " (map update)", x.Pos()})
					}
				case ssa.CallInstruction:
					c := x.Common()
					if bi, ok := c.Value.(*ssa.Builtin); ok && (bi.Name() == "delete" || bi.Name() == "copy" || bi.Name() == "clear") && len(c.Args) > 0 {
						rt, _, _ := addrRoot(c.Args[0])
						if g, ok := rt.(*ssa.Global); ok && isForkPkg(g.Pkg) {
							writers[globalName(g)] = append(writers[globalName(g)], wr{relName(fn) + " (" + bi.Name() + ")", x.Pos()})
						}
						continue
					}
					callee := c.StaticCallee()
					if callee == nil || callee.Signature.Recv() == nil || len(c.Args) == 0 {
						continue
					}
					rt, _, _ := addrRoot(c.Args[0])
					g, ok := rt.(*ssa.Global)
					if !ok || !isForkPkg(g.Pkg) {
						continue
					}
					if _, writes := recvStore[callee]; writes {
						writers[globalName(g)] = append(writers[globalName(g)], wr{relName(fn) + " (calls " + callee.Name() + ", which stores through its receiver)", x.Pos()})
					}
				}
			}
		}
	}
	r.Analysed["functions_scanned_for_global_writes"] += nfn
	var names []string
	nvars := 0
	for path, sp := range w.SSA {
		if !strings.HasPrefix(path, forkMod) {
			continue
		}
		for _, m := range sp.Members {
			if g, ok := m.(*ssa.Global); ok && !strings.HasPrefix(g.Name(), "init$") {
				names = append(names, globalName(g))
				nvars++
			}
		}
	}
	sort.Strings(names)
	clean := 0
	for _, n := range names {
		ws := writers[n]
		if len(ws) == 0 {
			clean++
			continue
		}
		var ms []string
		for _, x := range ws {
			ms = append(ms, x.fn+" at "+w.pos(x.pos))
		}
		sort.Strings(ms)
		r.violated(rule, "global:"+n, w.pos(ws[0].pos), "package-level variable written outside package initialisation: "+strings.Join(ms, "; "))
	}
	r.holds(rule, "global-writes:all-fork-packages", "-", fmt.Sprintf("%d package-level variables, %d never written outside init (stores, map updates, delete/copy/clear, fork methods storing through a receiver rooted in the variable); %d functions scanned", nvars, clean, nfn))
	// shared precompile instances: types implementing PrecompiledContract never store through their receiver
	vm := w.Pkgs[forkPath(pkVM)]
	var iface *types.Interface
	if o := vm.Types.Scope().Lookup("PrecompiledContract"); o != nil {
		iface, _ = o.Type().Underlying().(*types.Interface)
	}
	if iface == nil {
		r.undecided(rule, "precompile-receivers", "-", "interface PrecompiledContract not found")
		return
	}
	np := 0
	for _, name := range vm.Types.Scope().Names() {
		tn, ok := vm.Types.Scope().Lookup(name).(*types.TypeName)
		if !ok || tn.IsAlias() {
			continue
		}
		pt := types.NewPointer(tn.Type())
		if !types.Implements(pt, iface) && !types.Implements(tn.Type(), iface) {
			continue
		}
		if _, isIface := tn.Type().Underlying().(*types.Interface); isIface {
			continue
		}
		np++
		var bad []string
		pos := w.pos(tn.Pos())
		for _, fn := range all {
			if rv := fn.Signature.Recv(); rv != nil && typeBaseName(rv.Type()) == name && fn.Pkg != nil && fn.Pkg.Pkg == vm.Types {
				if p, writes := recvStore[fn]; writes {
					bad = append(bad, fn.Name()+" at "+w.pos(p))
					pos = w.pos(p)
				}
			}
		}
		// CloneWithCtx must return a new allocation
		if fn := w.Func(forkPath(pkVM), "(*"+name+").CloneWithCtx"); fn != nil {
			if !returnsFreshAlloc(fn) {
				bad = append(bad, "CloneWithCtx does not return a fresh allocation")
			}
		}
		if len(bad) > 0 {
			r.violated(rule, "precompile-receiver:"+name, pos, "instances are shared through the package-level precompile tables, but a method stores through its receiver: "+strings.Join(bad, "; "))
		} else {
			r.holds(rule, "precompile-receiver:"+name, pos, "no method stores through its receiver")
		}
	}
	r.Analysed["precompile_types"] = np
	r.need(rule, 18)
}

func returnsFreshAlloc(fn *ssa.Function) bool {
	n := 0
	for _, b := range fn.Blocks {
		if len(b.Instrs) == 0 {
			continue
		}
		ret, ok := b.Instrs[len(b.Instrs)-1].(*ssa.Return)
		if !ok {
			continue
		}
		if len(ret.Results) == 0 {
			return false
		}
		v := ret.Results[0]
		if mi, ok := v.(*ssa.MakeInterface); ok {
			v = mi.X
		}
		a, ok := v.(*ssa.Alloc)
		if !ok || !a.Heap {
			return false
		}
		n++
	}
	return n > 0
}

// ---- R16.4 fresh recorder per EVM -----------------------------------------------------------

func addFreshTracerRule(w *World, r *Report, rule string) {
	whoMayWrite(w, r, rule, map[string]map[string]bool{
		"P0.EVM.tracer": {}, "P0.EVMInterpreter.tracer": {}, "P0.Tracer.states": {}, "P0.Tracer.callTree": {},
	})
	for _, ctor := range []string{"NewTracer", "NewStateChanges", "NewCallTree"} {
		fn := w.Func(forkPath(pkVM), ctor)
		if fn == nil {
			r.undecided(rule, "fresh:"+ctor, "-", "constructor not found")
			continue
		}
		if returnsFreshAlloc(fn) {
			r.holds(rule, "fresh:"+ctor, w.pos(fn.Pos()), "every return yields an allocation made in this call")
		} else {
			r.violated(rule, "fresh:"+ctor, w.pos(fn.Pos()), "constructor may return an object that was not allocated in this call (shared recorder)")
		}
	}
	// NewEVM: the tracer field of the new EVM is the result of a NewTracer call; NewTracer's states/callTree are constructor calls
	type want struct{ fn, typ, field, callee string }
	for _, x := range []want{{"NewEVM", "EVM", "tracer", "NewTracer"}, {"NewTracer", "Tracer", "states", "NewStateChanges"}, {"NewTracer", "Tracer", "callTree", "NewCallTree"}} {
		fn := w.Func(forkPath(pkVM), x.fn)
		key := "init:" + x.typ + "." + x.field
		if fn == nil {
			r.undecided(rule, key, "-", x.fn+" not found")
			continue
		}
		found, ok := 0, true
		pos := fn.Pos()
		for _, b := range fn.Blocks {
			for _, ins := range b.Instrs {
				st, isSt := ins.(*ssa.Store)
				if !isSt {
					continue
				}
				fa, isFa := st.Addr.(*ssa.FieldAddr)
				if !isFa || fieldID(fa) != "P0."+x.typ+"."+x.field {
					continue
				}
				found++
				pos = st.Pos()
				c, isCall := st.Val.(*ssa.Call)
				if _, isAlloc := fa.X.(*ssa.Alloc); !isAlloc || !isCall || c.Call.StaticCallee() == nil || c.Call.StaticCallee().Name() != x.callee || c.Call.StaticCallee().Pkg != fn.Pkg {
					ok = false
				}
			}
		}
		if found == 1 && ok {
			r.holds(rule, key, w.pos(pos), x.fn+" stores the result of a "+x.callee+"() call made in that invocation into the new object's field")
		} else {
			r.violated(rule, key, w.pos(pos), fmt.Sprintf("%s must initialise %s.%s with a fresh %s() result exactly once (found %d stores, fresh=%v): a recorder shared between EVM instances leaks one execution's records into another", x.fn, x.typ, x.field, x.callee, found, ok))
		}
	}
	// NewEVMInterpreter: tracer field = load of evm.tracer of its parameter
	if fn := w.Func(forkPath(pkVM), "NewEVMInterpreter"); fn != nil {
		found, ok := 0, true
		pos := fn.Pos()
		for _, b := range fn.Blocks {
			for _, ins := range b.Instrs {
				st, isSt := ins.(*ssa.Store)
				if !isSt {
					continue
				}
				fa, isFa := st.Addr.(*ssa.FieldAddr)
				if !isFa || fieldID(fa) != "P0.EVMInterpreter.tracer" {
					continue
				}
				found++
				pos = st.Pos()
				// through the accessor: a fork method of the EVM whose every return is the load of its receiver's tracer field
				if c, isCall := st.Val.(*ssa.Call); isCall && len(fn.Params) > 0 && len(c.Call.Args) == 1 && c.Call.Args[0] == ssa.Value(fn.Params[0]) {
					if g := c.Call.StaticCallee(); g != nil && isForkPkg(g.Pkg) && g.Blocks != nil && len(g.Params) == 1 {
						getter := true
						for _, gb := range g.Blocks {
							if ret, isRet := gb.Instrs[len(gb.Instrs)-1].(*ssa.Return); isRet {
								l, isL := ret.Results[0].(*ssa.UnOp)
								if !isL || len(ret.Results) != 1 {
									getter = false
									continue
								}
								gfa, isGfa := l.X.(*ssa.FieldAddr)
								if !isGfa || fieldID(gfa) != "P0.EVM.tracer" || gfa.X != ssa.Value(g.Params[0]) {
									getter = false
								}
							}
						}
						if getter {
							continue
						}
					}
				}
				ld, isLd := st.Val.(*ssa.UnOp)
				if !isLd {
					ok = false
					continue
				}
				src, isFa2 := ld.X.(*ssa.FieldAddr)
				if !isFa2 || fieldID(src) != "P0.EVM.tracer" || len(fn.Params) == 0 || src.X != ssa.Value(fn.Params[0]) {
					ok = false
				}
			}
		}
		if found == 1 && ok {
			r.holds(rule, "init:EVMInterpreter.tracer", w.pos(pos), "the interpreter's recorder is its own EVM's recorder")
		} else {
			r.violated(rule, "init:EVMInterpreter.tracer", w.pos(pos), fmt.Sprintf("the interpreter's tracer must be the tracer of the EVM it is built for (found %d stores, ok=%v)", found, ok))
		}
	} else {
		r.undecided(rule, "init:EVMInterpreter.tracer", "-", "NewEVMInterpreter not found")
	}
	r.need(rule, 11)
}

// ---- R17.3 atomic abort flag, pooled stacks ----------------------------------------------------

func addAtomicRule(w *World, r *Report, rule string) {
	vm := w.Pkgs[forkPath(pkVM)]
	// type facts
	typeOfField := func(typ, field string) types.Type {
		o := vm.Types.Scope().Lookup(typ)
		if o == nil {
			return nil
		}
		st, ok := o.Type().Underlying().(*types.Struct)
		if !ok {
			return nil
		}
		for i := 0; i < st.NumFields(); i++ {
			if st.Field(i).Name() == field {
				return st.Field(i).Type()
			}
		}
		return nil
	}
	if t := typeOfField("EVM", "abort"); t != nil && t.String() == "sync/atomic.Bool" {
		r.holds(rule, "type:EVM.abort", "-", "sync/atomic.Bool")
	} else {
		r.violated(rule, "type:EVM.abort", "-", fmt.Sprintf("the abort flag polled by running interpreters and set by Cancel from another goroutine must be a sync/atomic.Bool, found %v", t))
	}
	if o := vm.Types.Scope().Lookup("stackPool"); o != nil && o.Type().String() == "sync.Pool" {
		r.holds(rule, "type:stackPool", w.pos(o.Pos()), "sync.Pool")
	} else {
		r.violated(rule, "type:stackPool", "-", "the stack pool shared by all interpreters must be a sync.Pool")
	}
	// uses
	nAbort, nPool := 0, 0
	var bad []string
	for _, fn := range w.forkFuncsAll() {
		for _, b := range fn.Blocks {
			for _, ins := range b.Instrs {
				var v ssa.Value
				what := ""
				switch x := ins.(type) {
				case *ssa.FieldAddr:
					if fieldID(x) == "P0.EVM.abort" {
						v, what = x, "EVM.abort"
						nAbort++
					}
				}
				if v == nil {
					continue
				}
				for _, u := range *v.Referrers() {
					ci, ok := u.(ssa.CallInstruction)
					if ok && ci.Common().StaticCallee() != nil && ci.Common().StaticCallee().Pkg != nil && ci.Common().StaticCallee().Pkg.Pkg.Path() == "sync/atomic" && len(ci.Common().Args) > 0 && ci.Common().Args[0] == v {
						continue
					}
					if _, ok := u.(*ssa.DebugRef); ok {
						continue
					}
					bad = append(bad, what+" used by "+fmt.Sprintf("%T", u)+" in "+relName(fn)+" at "+w.pos(u.Pos()))
				}
			}
		}
		if isInitFunc(fn) {
			continue
		}
		for _, b := range fn.Blocks {
			for _, ins := range b.Instrs {
				var rands []*ssa.Value
				for _, op := range ins.Operands(rands) {
					g, ok := (*op).(*ssa.Global)
					if !ok || g.Name() != "stackPool" || !isForkPkg(g.Pkg) {
						continue
					}
					nPool++
					ci, isCall := ins.(ssa.CallInstruction)
					if isCall && ci.Common().StaticCallee() != nil && ci.Common().StaticCallee().Pkg != nil && ci.Common().StaticCallee().Pkg.Pkg.Path() == "sync" && (ci.Common().StaticCallee().Name() == "Get" || ci.Common().StaticCallee().Name() == "Put") {
						continue
					}
					bad = append(bad, "stackPool used by "+fmt.Sprintf("%T", ins)+" in "+relName(fn)+" at "+w.pos(ins.Pos()))
				}
			}
		}
	}
	sort.Strings(bad)
	if len(bad) > 0 {
		r.violated(rule, "uses:abort+stackPool", "-", "non-atomic / non-pool access: "+strings.Join(bad, "; "))
	} else {
		r.holds(rule, "uses:abort+stackPool", "-", fmt.Sprintf("%d address-of EVM.abort sites, all receivers of sync/atomic methods; %d stackPool uses, all sync.Pool Get/Put", nAbort, nPool))
	}
	if nAbort < 2 || nPool < 2 {
		r.violated(rule, "instance-count:abort+stackPool", "-", fmt.Sprintf("expected at least 2 abort and 2 stackPool sites, found %d and %d", nAbort, nPool))
	}
	r.need(rule, 3)
}

// funcClasses maps every top-level fork function to its E1 class.
func (w *World) funcClasses() map[*ssa.Function]FuncClass {
	out := map[*ssa.Function]FuncClass{}
	s := w.e1()
	for pair := range pkgPairs {
		for _, pr := range s.cls[pair].Results {
			if pr.Fork != nil {
				out[pr.Fork] = pr.Class
			}
		}
	}
	return out
}


// addMutableGlobalRule: a package-level variable that the fork adds and whose type has mutable backing
// storage (slice, map, pointer to anything but a 256-bit constant handled by R16.2) is only read: it is
// never handed to a call (which could append into or write through it), sliced for writing, stored
// into, or used as the destination of copy/append. A process-wide scratch buffer makes the result of
// one execution depend on (and be overwritten by) another.
func addMutableGlobalRule(w *World, r *Report, rule string) {
	vmRef := w.Pkgs[refPath(pkVM)]
	n := 0
	for path, sp := range w.SSA {
		if !strings.HasPrefix(path, forkMod) {
			continue
		}
		var refScope *types.Scope
		for i := range pkgPairs {
			if forkPath(i) == path {
				if rp := w.Pkgs[refPath(i)]; rp != nil {
					refScope = rp.Types.Scope()
				}
			}
		}
		_ = vmRef
		var names []string
		for nm := range sp.Members {
			names = append(names, nm)
		}
		sort.Strings(names)
		for _, nm := range names {
			g, ok := sp.Members[nm].(*ssa.Global)
			if !ok || strings.HasPrefix(nm, "init$") {
				continue
			}
			if refScope != nil && refScope.Lookup(nm) != nil {
				continue // inherited variable: the reference's
			}
			et := g.Type().Underlying().(*types.Pointer).Elem()
			// a process-wide concurrent container (sync.Map, sync.Pool — by value or by pointer) is a cache shared by
			// every EVM of the process: what one execution leaves in it, another finds (seventh batch: a JUMPDEST
			// cache keyed by code hash, where all init code has the zero hash)
			{
				ct := et
				if pt, isPtr := ct.Underlying().(*types.Pointer); isPtr {
					ct = pt.Elem()
				}
				if nt, isNamed := ct.(*types.Named); isNamed && nt.Obj().Pkg() != nil && nt.Obj().Pkg().Path() == "sync" && (nt.Obj().Name() == "Map" || nt.Obj().Name() == "Pool") {
					n++
					key := "global:" + pkgShortOf(path) + "." + nm
					var uses []string
					for _, fn := range w.forkFuncsAll() {
						if fn.Pkg == nil || (fn.Name() == "init" && fn.Parent() == nil) || strings.HasPrefix(fn.Name(), "init#") {
							continue
						}
						for _, b := range fn.Blocks {
							for _, ins := range b.Instrs {
								var rands []*ssa.Value
								for _, op := range ins.Operands(rands) {
									if *op == ssa.Value(g) {
										uses = append(uses, relName(fn)+" at "+w.pos(ins.Pos()))
									}
								}
							}
						}
					}
					sort.Strings(uses)
					if len(uses) > 0 {
						r.violated(rule, key, w.pos(g.Pos()), "fork-added package-level "+nt.Obj().Pkg().Name()+"."+nt.Obj().Name()+" is used by "+strings.Join(uses, "; ")+": a process-wide cache carries results from one execution into the next, so equal executions need not give equal results")
					} else {
						r.holds(rule, key, w.pos(g.Pos()), "fork-added package-level concurrent container is used nowhere outside init")
					}
					continue
				}
			}
			switch et.Underlying().(type) {
			case *types.Slice, *types.Map:
			default:
				continue
			}
			n++
			key := "global:" + pkgShortOf(path) + "." + nm
			var bad []string
			for _, fn := range w.forkFuncsAll() {
				if fn.Pkg == nil || (fn.Name() == "init" && fn.Parent() == nil) || strings.HasPrefix(fn.Name(), "init#") {
					continue
				}
				for _, b := range fn.Blocks {
					for _, ins := range b.Instrs {
						u, ok := ins.(*ssa.UnOp)
						if !ok || u.Op != token.MUL || u.X != ssa.Value(g) {
							continue
						}
						for _, rf := range *u.Referrers() {
							switch x := rf.(type) {
							case ssa.CallInstruction:
								if bi, isB := x.Common().Value.(*ssa.Builtin); isB && (bi.Name() == "len" || bi.Name() == "cap") {
									continue
								}
								bad = append(bad, "passed to "+x.Common().String()+" in "+relName(fn)+" at "+w.pos(rf.Pos()))
							case *ssa.MapUpdate:
								bad = append(bad, "updated in "+relName(fn)+" at "+w.pos(rf.Pos()))
							case *ssa.IndexAddr, *ssa.Slice:
								for _, r2 := range *rf.(ssa.Value).Referrers() {
									if st, isSt := r2.(*ssa.Store); isSt && st.Addr == rf.(ssa.Value) {
										bad = append(bad, "written in "+relName(fn)+" at "+w.pos(r2.Pos()))
									}
									if ci, isC := r2.(ssa.CallInstruction); isC {
										if bi, isB := ci.Common().Value.(*ssa.Builtin); !isB || bi.Name() == "copy" || bi.Name() == "append" {
											bad = append(bad, "its storage is handed to "+ci.Common().String()+" in "+relName(fn)+" at "+w.pos(r2.Pos()))
										}
									}
								}
							case *ssa.Store:
								if x.Val == ssa.Value(u) {
									bad = append(bad, "stored elsewhere in "+relName(fn)+" at "+w.pos(rf.Pos()))
								}
							}
						}
					}
				}
			}
			if len(bad) > 0 {
				sort.Strings(bad)
				r.violated(rule, key, w.pos(g.Pos()), "a package-level variable with mutable backing storage added by the fork is not used read-only: "+strings.Join(bad, "; "))
			} else {
				r.holds(rule, key, w.pos(g.Pos()), "only read (indexing, range, len)")
			}
		}
	}
	r.holds(rule, "fork-only-mutable-globals", "-", fmt.Sprintf("%d package-level slice/map variables added by the fork", n))
	r.need(rule, 1)
}


// addSharedClosureStateRule (R17.5): a closure that its enclosing function returns outlives the call that
// made it — the instruction tables and gas-function tables are built once per process from such
// constructors (makePush, makeLog, makeGasLog, memoryCopierGas …) and shared by every EVM. Such a
// closure may read what it captured but must not write it: no store to a captured variable, and no
// mutating method call or store through a pointer / slice / map loaded from a captured variable. A
// scratch object hoisted out of the closure "to save an allocation" becomes process-wide mutable
// state: concurrent EVMs race on it and one execution's operand is overwritten by another's.
func addSharedClosureStateRule(w *World, r *Report, rule string) {
	n := 0
	for _, top := range w.Funcs(forkPath(pkVM)) {
		// closures returned by top
		returned := map[*ssa.Function]bool{}
		for _, b := range top.Blocks {
			ret, ok := b.Instrs[len(b.Instrs)-1].(*ssa.Return)
			if !ok {
				continue
			}
			for _, res := range ret.Results {
				v := res
				if ct, ok := v.(*ssa.ChangeType); ok {
					v = ct.X
				}
				if mi, ok := v.(*ssa.MakeInterface); ok {
					v = mi.X
				}
				if mc, ok := v.(*ssa.MakeClosure); ok {
					if g, ok := mc.Fn.(*ssa.Function); ok {
						returned[g] = true
					}
				}
			}
		}
		for g := range returned {
			n++
			key := relName(g)
			var bad []string
			isFree := map[ssa.Value]bool{}
			for _, fv := range g.FreeVars {
				isFree[fv] = true
			}
			// values loaded from captured cells (pointers to shared objects)
			shared := map[ssa.Value]bool{}
			for _, b := range g.Blocks {
				for _, ins := range b.Instrs {
					if u, ok := ins.(*ssa.UnOp); ok && u.Op == token.MUL && isFree[u.X] {
						switch u.Type().Underlying().(type) {
						case *types.Pointer, *types.Slice, *types.Map:
							shared[u] = true
						}
					}
				}
			}
			for _, b := range g.Blocks {
				for _, ins := range b.Instrs {
					switch x := ins.(type) {
					case *ssa.Store:
						if isFree[x.Addr] {
							bad = append(bad, "assigns the captured variable "+x.Addr.Name()+" at "+w.pos(x.Pos()))
						}
						rt, _, _ := addrRoot(x.Addr)
						if shared[rt] {
							bad = append(bad, "writes through the captured "+rt.Type().String()+" at "+w.pos(x.Pos()))
						}
					case *ssa.MapUpdate:
						if shared[x.Map] {
							bad = append(bad, "updates a captured map at "+w.pos(x.Pos()))
						}
					case ssa.CallInstruction:
						c := x.Common()
						cal := c.StaticCallee()
						if cal != nil && cal.Signature.Recv() != nil && len(c.Args) > 0 && shared[c.Args[0]] {
							if isBignumPtr(c.Args[0].Type()) && bignumReadOnly[cal.Name()] {
								continue
							}
							if isBignumPtr(c.Args[0].Type()) || !isForkPkg(cal.Pkg) || recvWriter(cal) {
								bad = append(bad, "calls the mutating method "+cal.Name()+" on a captured object at "+w.pos(ins.Pos()))
							}
						}
						if bi, ok := c.Value.(*ssa.Builtin); ok && (bi.Name() == "copy" || bi.Name() == "append") && len(c.Args) > 0 && shared[c.Args[0]] {
							bad = append(bad, bi.Name()+" into a captured slice at "+w.pos(ins.Pos()))
						}
					}
				}
			}
			if len(bad) > 0 {
				r.violated(rule, key, w.pos(g.Pos()), "a closure returned by "+relName(top)+" (installed in tables shared by all EVMs) "+strings.Join(dedup(bad), "; ")+": the captured object is process-wide mutable state")
			} else {
				r.holds(rule, key, w.pos(g.Pos()), "captures are only read")
			}
		}
	}
	if n < 6 {
		r.violated(rule, "instance-count", "-", fmt.Sprintf("expected the table constructors' closures (makePush, makeDup, makeSwap, makeLog, gas-function makers …), found %d returned closures: the rule's anchors no longer resolve", n))
	}
	r.need(rule, 6)
}

// recvWriter: a fork method that stores through its receiver.
func recvWriter(f *ssa.Function) bool {
	if f == nil || f.Blocks == nil || len(f.Params) == 0 {
		return true
	}
	for _, b := range f.Blocks {
		for _, ins := range b.Instrs {
			if st, ok := ins.(*ssa.Store); ok {
				if rt, _, _ := addrRoot(st.Addr); rt == ssa.Value(f.Params[0]) {
					return true
				}
			}
		}
	}
	return false
}

// privateFieldLoads: addr is the address of an unexported field of a struct type declared in a fork
// package; returns every load of that field in the fork packages. ok is false when the field's address
// is used for anything but loads and stores (it could then be read or written elsewhere), or the field
// is exported (packages outside the analysed set can read it).
func privateFieldLoads(w *World, addr ssa.Value) ([]ssa.Value, bool) {
	fa, ok := addr.(*ssa.FieldAddr)
	if !ok {
		return nil, false
	}
	owner := func(f *ssa.FieldAddr) (*types.Named, *types.Var) {
		t := f.X.Type()
		if p, ok := t.Underlying().(*types.Pointer); ok {
			t = p.Elem()
		}
		nt, ok := t.(*types.Named)
		if !ok {
			return nil, nil
		}
		st, ok := nt.Underlying().(*types.Struct)
		if !ok || f.Field >= st.NumFields() {
			return nil, nil
		}
		return nt, st.Field(f.Field)
	}
	nt, fld := owner(fa)
	if nt == nil || fld.Exported() || nt.Obj().Pkg() == nil || !strings.HasPrefix(nt.Obj().Pkg().Path(), forkMod) {
		return nil, false
	}
	var loads []ssa.Value
	for _, fn := range w.forkFuncsAll() {
		for _, b := range fn.Blocks {
			for _, ins := range b.Instrs {
				if fv, ok := ins.(*ssa.Field); ok {
					// the field of a copied struct value
					if n2, ok := fv.X.Type().(*types.Named); ok && n2.Obj() == nt.Obj() {
						if st := n2.Underlying().(*types.Struct); fv.Field < st.NumFields() && st.Field(fv.Field) == fld {
							loads = append(loads, fv)
						}
					}
					continue
				}
				f2, ok := ins.(*ssa.FieldAddr)
				if !ok {
					continue
				}
				n2, fl2 := owner(f2)
				if n2 == nil || n2.Obj() != nt.Obj() || fl2 != fld {
					continue
				}
				for _, r := range *f2.Referrers() {
					switch u := r.(type) {
					case *ssa.Store:
						if u.Addr != ssa.Value(f2) {
							return nil, false
						}
					case *ssa.UnOp:
						if u.Op != token.MUL {
							return nil, false
						}
						loads = append(loads, u)
					case *ssa.DebugRef:
					default:
						return nil, false
					}
				}
			}
		}
	}
	return loads, true
}
