package main


func init() {
	register("C04", true, true, checkC04)
	register("C06", true, true, checkC06)
}

func checkC04(w *World, tier string) *Report {
	r := newReport("C04")
	r.Explanation = "Path rules on the control-flow graphs of the five frame entry points (Call, CallCode, DelegateCall, StaticCall, create), path-sensitive over condition literals and simple assignment facts, all paths covered: " +
		"R4.1 at every return reachable from the frame's StateDB.Snapshot() the error operand is nil on that path, or the path has passed RevertToSnapshot (the one reference exception, Frontier's ErrCodeStoreOutOfGas in create, is keyed to its guard literal); R4.1b the revert targets this frame's snapshot; " +
		"R4.2 the value transfer and CreateAccount execute only after the snapshot; R4.3 the caller-side instructions that observe failure (opCall…opCreate2) are SSA clones of the reference; " +
		"R4.4 whenever a join-point result reports an error the frame's returned error is that error or ErrOutOfGas, never nil. Decides that no path can report an error without rolling back to the frame's own snapshot; does not decide that StateDB.RevertToSnapshot restores every kind of effect (external)."
	emitReturnRule(w, r, "R4.1", nil)
	emitSiteRule(w, r, "R4.1b")
	emitSiteRule(w, r, "R4.2")
	emitReturnRule(w, r, "R4.4", func(fn string) bool { return fn == "(*EVM).Call" })
	addErrorNotDroppedRule(w, r, "R4.5")
	r.Explanation += " R4.5 (SSA def-use) every error-typed result of a call inside the five frame entry points flows, through phis and the result cell, into the error operand of a return: no failure detected inside the frame is lost (e.g. in a variable that shadows the frame's error), which would make the frame report success and keep its effects."
	r.need("R4.1", 7)
	r.need("R4.1b", 5)
	r.need("R4.2", 4)
	r.need("R4.4", 2)
	n := 0
	for _, fr := range w.frames() {
		if fr.hasSnap {
			n++
		}
	}
	r.Extra["functions_with_snapshot"] = n
	if n < 5 {
		r.violated("R4.1", "snapshot-functions", "-", "fewer than the five frame entry points take a snapshot")
	}
	// R4.3 caller side
	s := w.e1()
	callers := map[string]bool{"opCall": true, "opCallCode": true, "opDelegateCall": true, "opStaticCall": true, "opCreate": true, "opCreate2": true}
	s.cloneRule(r, "R4.3", pkVM, func(n string, pr *PairResult) bool { return callers[n] })
	r.need("R4.3", 6)
	r.Assumptions = append(r.Assumptions, "StateDB.RevertToSnapshot restores balances, storage, logs, created accounts and self-destructs (host StateDB)",
		"package-level Err* variables are non-nil", "calls do not change the truth of a condition literal that is re-tested later in the same function (evm.Config.Tracer, evm.depth are restored by callees)")
	return r
}

func checkC06(w *World, tier string) *Report {
	r := newReport("C06")
	r.Explanation = "Path rules on the control-flow graph of (*EVM).Call (and the gas rule on all five frame entry points): " +
		"R6.1 reaching definitions along every path: the callee's gas argument on paths through the pre-call join point is defined only by gas = <pre>.Gas; the gas argument of the post-call join point only by gas = contract.Gas; the gas returned after the post-call join point only by gas = <post>.Gas or the zeroing arm; " +
		"R6.2 every error return reachable from the snapshot returns literal 0 gas, a gas variable zeroed on that path, or an error known to be ErrExecutionReverted on that path; " +
		"R4.4 whenever a join-point result reports an error the frame's returned error is that error or ErrOutOfGas (never nil, never the callee's own error), so that the forfeit rule R6.2 applies to it; the frame the interpreter runs is constructed after the pre-call join point (R6.1 callee-frame); " +
		"R6.3 on each join-point error path the returned error has a definition from the package variable ErrOutOfGas under a condition comparing the join point's error text with ErrOutOfGas's. Does not decide that a frame never returns more gas than given (depends on the number the Aspect runtime reports)."
	emitReturnRule(w, r, "R6.2", nil)
	emitReturnRule(w, r, "R6.1", func(fn string) bool { return fn == "(*EVM).Call" })
	emitSiteRule(w, r, "R6.1")
	// a failed join point surfaces as the frame's error (its own error or ErrOutOfGas), so that R6.2's
	// forfeit rule applies to it; otherwise a callee revert could mask the failure and keep the gas
	emitReturnRule(w, r, "R4.4", func(fn string) bool { return fn == "(*EVM).Call" })
	r.need("R6.2", 6)
	r.need("R6.1", 4)
	r.need("R4.4", 2)
	addR63(w, r)
	// the caller side of the hand-over: the call/create instructions credit the caller with exactly what the frame
	// returned (clones of the reference; shared with C04 R4.3)
	{
		callers := map[string]bool{"opCall": true, "opCallCode": true, "opDelegateCall": true, "opStaticCall": true, "opCreate": true, "opCreate2": true}
		w.e1().cloneRule(r, "R4.3", pkVM, func(n string, pr *PairResult) bool { return callers[n] })
		r.need("R4.3", 6)
		r.Explanation += " R4.3 (shared with C04) the call/create instructions, which credit the caller with what the frame returned, are SSA clones of the reference."
	}
	// seventh batch: (a) the post-call join point is where the Aspects' gas is charged against what the callee left —
	// a path that runs the callee with join points enabled and skips it (e.g. `&& gas > 0`) loses that charge and
	// its out-of-gas; (b) the leftover gas a frame reports in the call tree is the number handed to ExitCall, stored
	// on every recording path (C08 R8.3) — stored only for successful frames it is misreported for reverts
	emitSiteRule(w, r, "R5.3")
	emitReturnRule(w, r, "R5.3", func(fn string) bool { return fn == "(*EVM).Call" })
	r.need("R5.3", 3)
	addR83(w, r, "R8.3")
	r.Explanation += " R5.3 (shared with C05) every path that runs the callee with join points enabled crosses the post-call join point, where the Aspects' gas is charged. R8.3 (shared with C08) the leftover gas handed to ExitCall is stored into the call-tree node on every recording path."
	r.Assumptions = append(r.Assumptions, "the Aspect runtime reports a leftover gas not larger than the gas it was given", "package-level Err* variables are non-nil")
	return r
}

