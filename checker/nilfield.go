package main

// E3 (part 3): nil-field obligations. A pointer-, interface- or map-typed field of a fork struct is
// "nil-able by evidence" when some construction of the struct in the fork leaves it unset (a
// composite literal without the key, new(T), a zero element of a made slice) or when nil (or the
// value of another nil-able field) is stored into it. Every dereference, in fork-only code, of a
// value loaded from such a field must then be protected on every path: by a non-nil test of the
// loaded value or of the field, or by a store of a non-nil value into the field, with no possible
// re-assignment in between. Decided by a forward must-analysis (meet = intersection) over the SSA
// control-flow graph of each function; facts are keyed by the load-numbered address shape of the
// field, so re-reading `c.current` after testing it is the same cell as long as nothing that may
// store to the field lies between.
//
// Dereferences considered: interface method invocation, field/element address through the pointer,
// load/store through the pointer, update of a map, and a static call of a pointer-receiver method
// whose body dereferences its receiver without testing it.

import (
	"fmt"
	"go/token"
	"go/types"
	"sort"
	"strings"

	"golang.org/x/tools/go/ssa"
)

func nilableType(t types.Type) bool {
	switch t.Underlying().(type) {
	case *types.Pointer, *types.Interface, *types.Map:
		return true
	}
	return false
}

// nilableFields: field id -> evidence.
func (w *World) nilableFields() map[string]string {
	if w.nilable != nil {
		return w.nilable
	}
	out := map[string]string{}
	// evidence is taken from the fork's own constructions: functions of vm and tracers/native that are
	// not clones of the reference (what the reference leaves unset is the reference's, and host-built
	// structures such as the block context are the host's precondition); vm/runtime is a test harness.
	classOf := w.funcClasses()
	var all []*ssa.Function
	for _, fn := range w.forkFuncsAll() {
		top := fn
		for top.Parent() != nil {
			top = top.Parent()
		}
		if top.Pkg == nil {
			continue
		}
		if p := top.Pkg.Pkg.Path(); p != forkPath(pkVM) && p != forkPath(pkNative) {
			continue
		}
		if c, ok := classOf[top]; ok && c == ClsClone {
			continue
		}
		all = append(all, fn)
	}
	forkStruct := func(t types.Type) (*types.Named, *types.Struct) {
		nt, ok := t.(*types.Named)
		if !ok || nt.Obj().Pkg() == nil || !strings.HasPrefix(nt.Obj().Pkg().Path(), forkMod) {
			return nil, nil
		}
		st, ok := nt.Underlying().(*types.Struct)
		if !ok {
			return nil, nil
		}
		return nt, st
	}
	markZero := func(t types.Type, why string) {
		nt, st := forkStruct(t)
		if nt == nil {
			return
		}
		for i := 0; i < st.NumFields(); i++ {
			if nilableType(st.Field(i).Type()) {
				id := shortType(nt) + "." + st.Field(i).Name()
				if _, ok := out[id]; !ok {
					out[id] = why
				}
			}
		}
	}
	for _, fn := range all {
		for _, b := range fn.Blocks {
			for _, ins := range b.Instrs {
				switch x := ins.(type) {
				case *ssa.Alloc:
					el := x.Type().Underlying().(*types.Pointer).Elem()
					if arr, ok := el.Underlying().(*types.Array); ok {
						markZero(arr.Elem(), "zero elements of an array allocated in "+relName(fn))
						continue
					}
					nt, st := forkStruct(el)
					if nt == nil {
						continue
					}
					// whole-struct store (copy of another value) initialises every field
					whole := false
					set := map[int]bool{}
					for _, rf := range *x.Referrers() {
						switch y := rf.(type) {
						case *ssa.Store:
							if y.Addr == ssa.Value(x) {
								whole = true
							}
						case *ssa.FieldAddr:
							for _, r2 := range *y.Referrers() {
								if s2, ok := r2.(*ssa.Store); ok && s2.Addr == ssa.Value(y) {
									set[y.Field] = true
								}
							}
						}
					}
					if whole {
						continue
					}
					for i := 0; i < st.NumFields(); i++ {
						if nilableType(st.Field(i).Type()) && !set[i] {
							id := shortType(nt) + "." + st.Field(i).Name()
							if _, ok := out[id]; !ok {
								out[id] = "left unset by the construction in " + relName(fn) + " at " + w.pos(x.Pos())
							}
						}
					}
				case *ssa.MakeSlice:
					if sl, ok := x.Type().Underlying().(*types.Slice); ok {
						markZero(sl.Elem(), "zero elements of a slice made in "+relName(fn))
					}
				}
			}
		}
	}
	// stores of nil or of the value of a nil-able field
	for changed := true; changed; {
		changed = false
		for _, fn := range all {
			for _, b := range fn.Blocks {
				for _, ins := range b.Instrs {
					st, ok := ins.(*ssa.Store)
					if !ok {
						continue
					}
					fa, ok := st.Addr.(*ssa.FieldAddr)
					if !ok || !nilableType(st.Val.Type()) {
						continue
					}
					id := fieldID(fa)
					if _, done := out[id]; done {
						continue
					}
					why := ""
					switch v := st.Val.(type) {
					case *ssa.Const:
						if v.Value == nil {
							why = "nil is stored into it in " + relName(fn)
						}
					case *ssa.UnOp:
						if v.Op == token.MUL {
							if fa2, ok := v.X.(*ssa.FieldAddr); ok {
								if _, nb := out[fieldID(fa2)]; nb {
									why = "the value of the nil-able field " + fieldID(fa2) + " is stored into it in " + relName(fn)
								}
							}
						}
					}
					if why != "" {
						if _, st2 := forkStruct(fa.X.Type().Underlying().(*types.Pointer).Elem()); st2 != nil {
							out[id] = why
							changed = true
						}
					}
				}
			}
		}
	}
	w.nilable = out
	return out
}

// derefsReceiver: the method dereferences its receiver somewhere without a dominating nil test of it.
func derefsReceiver(f *ssa.Function) bool {
	if f == nil || f.Signature.Recv() == nil || len(f.Params) == 0 || f.Blocks == nil {
		return f != nil && f.Signature.Recv() != nil // unknown body: assume it does
	}
	recv := f.Params[0]
	if _, ok := recv.Type().Underlying().(*types.Pointer); !ok {
		return false
	}
	guarded := map[*ssa.BasicBlock]bool{}
	for _, b := range f.Blocks {
		if iff, ok := b.Instrs[len(b.Instrs)-1].(*ssa.If); ok {
			if bo, ok := iff.Cond.(*ssa.BinOp); ok && (bo.Op == token.NEQ || bo.Op == token.EQL) {
				var other ssa.Value
				if bo.X == ssa.Value(recv) {
					other = bo.Y
				} else if bo.Y == ssa.Value(recv) {
					other = bo.X
				}
				if k, ok := other.(*ssa.Const); ok && k.Value == nil {
					nn := b.Succs[0]
					if bo.Op == token.EQL {
						nn = b.Succs[1]
					}
					for _, d := range f.Blocks {
						if len(nn.Preds) == 1 && nn.Dominates(d) {
							guarded[d] = true
						}
					}
				}
			}
		}
	}
	for _, b := range f.Blocks {
		if guarded[b] {
			continue
		}
		for _, ins := range b.Instrs {
			switch x := ins.(type) {
			case *ssa.FieldAddr:
				if x.X == ssa.Value(recv) {
					return true
				}
			case *ssa.UnOp:
				if x.Op == token.MUL && x.X == ssa.Value(recv) {
					return true
				}
			case *ssa.Store:
				if x.Addr == ssa.Value(recv) {
					return true
				}
			}
		}
	}
	return false
}

// returnsNonNil: every return of result 0 is a fresh allocation (constructors).
func (w *World) returnsNonNil(f *ssa.Function) bool {
	if f == nil {
		return false
	}
	if f.Blocks == nil && f.Pkg != nil {
		f.Pkg.Build() // dependency packages are created but not built by the loader
	}
	if f.Blocks == nil {
		return false
	}
	if v, ok := w.retNonNil[f]; ok {
		return v
	}
	if w.retNonNil == nil {
		w.retNonNil = map[*ssa.Function]bool{}
	}
	w.retNonNil[f] = false
	ok := true
	n := 0
	for _, b := range f.Blocks {
		ret, isRet := b.Instrs[len(b.Instrs)-1].(*ssa.Return)
		if !isRet || len(ret.Results) == 0 {
			continue
		}
		n++
		if !w.intrinsicNonNil(ret.Results[0]) {
			ok = false
		}
	}
	w.retNonNil[f] = ok && n > 0
	return ok && n > 0
}

func (w *World) intrinsicNonNil(v ssa.Value) bool {
	switch x := v.(type) {
	case *ssa.Alloc, *ssa.MakeInterface, *ssa.MakeMap, *ssa.MakeSlice, *ssa.MakeClosure, *ssa.Function, *ssa.FieldAddr, *ssa.IndexAddr, *ssa.Global:
		return true
	case *ssa.Call:
		if c := x.Call.StaticCallee(); c != nil {
			return w.returnsNonNil(c)
		}
	case *ssa.ChangeType:
		return w.intrinsicNonNil(x.X)
	case *ssa.TypeAssert:
		// a single-result assertion to an interface type panics on a nil operand: its result is non-nil
		return !x.CommaOk
	}
	return false
}

type nilObl struct {
	Key, What string
	Pos       token.Pos
	Holds     bool
}

// nilObligations analyses one function (with the ranger's load numbering) and returns one
// obligation per dereference of a value loaded from a nil-able field.
func (a *ranger) nilObligations(inScope func(token.Pos) bool) []nilObl {
	w := a.w
	nb := w.nilableFields()
	mayNil := w.mayReturnNil()
	fn := a.fn
	if len(fn.Blocks) == 0 {
		return nil
	}
	// the field load behind a value (through ChangeType)
	fieldLoad := func(v ssa.Value) (*ssa.UnOp, *ssa.FieldAddr) {
		if ct, ok := v.(*ssa.ChangeType); ok {
			v = ct.X
		}
		u, ok := v.(*ssa.UnOp)
		if !ok || u.Op != token.MUL {
			return nil, nil
		}
		fa, ok := u.X.(*ssa.FieldAddr)
		if !ok {
			return nil, nil
		}
		return u, fa
	}
	type state struct {
		shape map[string]bool
		val   map[ssa.Value]bool
	}
	clone := func(s *state) *state {
		n := &state{map[string]bool{}, map[ssa.Value]bool{}}
		for k := range s.shape {
			n.shape[k] = true
		}
		for k := range s.val {
			n.val[k] = true
		}
		return n
	}
	meet := func(x, y *state) *state {
		n := &state{map[string]bool{}, map[ssa.Value]bool{}}
		for k := range x.shape {
			if y.shape[k] {
				n.shape[k] = true
			}
		}
		for k := range x.val {
			if y.val[k] {
				n.val[k] = true
			}
		}
		return n
	}
	equal := func(x, y *state) bool {
		if len(x.shape) != len(y.shape) || len(x.val) != len(y.val) {
			return false
		}
		for k := range x.shape {
			if !y.shape[k] {
				return false
			}
		}
		for k := range x.val {
			if !y.val[k] {
				return false
			}
		}
		return true
	}
	nonNil := func(s *state, v ssa.Value) bool {
		if ct, ok := v.(*ssa.ChangeType); ok {
			v = ct.X
		}
		return w.intrinsicNonNil(v) || s.val[v]
	}
	fieldOfShape := func(sh string) string {
		if i := strings.LastIndex(sh, "->"); i >= 0 {
			return sh[i+2:]
		}
		return sh
	}
	// dereferenced value of an instruction, if any
	derefOf := func(ins ssa.Instruction) (ssa.Value, string) {
		switch x := ins.(type) {
		case *ssa.FieldAddr:
			return x.X, "field access"
		case *ssa.IndexAddr:
			if _, ok := x.X.Type().Underlying().(*types.Pointer); ok {
				return x.X, "element access"
			}
		case *ssa.UnOp:
			if x.Op == token.MUL {
				return x.X, "load"
			}
		case *ssa.Store:
			return x.Addr, "store"
		case *ssa.MapUpdate:
			return x.Map, "map update"
		case ssa.CallInstruction:
			c := x.Common()
			if c.IsInvoke() {
				return c.Value, "call of interface method " + c.Method.Name()
			}
			if cal := c.StaticCallee(); cal != nil && cal.Signature.Recv() != nil && len(c.Args) > 0 && derefsReceiver(cal) {
				return c.Args[0], "call of " + cal.Name() + " (dereferences its receiver)"
			}
		}
		return nil, ""
	}
	// map cells: "M:" + shape of the map + "[" + shape of the key + "]"; a map that is itself read from a
	// map cell is named by that cell, so `m[a][b]` depends on `m[a]`
	var cellKey func(m, k ssa.Value) string
	mapShape := func(m ssa.Value) string {
		if lk := mapReadOf(m); lk != nil {
			return "M(" + cellKey(lk.X, lk.Index) + ")"
		}
		return a.valShape(m)
	}
	cellKey = func(m, k ssa.Value) string {
		ks := ""
		if c, ok := k.(*ssa.Const); ok {
			ks = "const " + c.String()
		} else if u, ok := k.(*ssa.UnOp); ok && u.Op == token.MUL && !isAddrOfField(u.X) && !storesThrough(fn, u.X.Type()) {
			// `*p` for a pointer p that this function neither stores through nor hands to a callee:
			// every read yields the same key (callees reach the pointee only through other pointers,
			// and the fork has no writer of such a cell outside the instruction handlers' own operands)
			ks = "*(" + a.valShape(u.X) + ")"
		} else {
			ks = a.valShape(k)
		}
		return mapShape(m) + "[" + ks + "]"
	}
	killCells := func(s *state, containing string) {
		for k := range s.shape {
			if strings.HasPrefix(k, "M:") && (containing == "" || strings.Contains(k, containing)) {
				delete(s.shape, k)
			}
		}
	}
	var obls []nilObl
	ord := map[string]int{}
	record := false
	// transfer over one block; when record is set, emit obligations
	transfer := func(b *ssa.BasicBlock, in *state) *state {
		s := clone(in)
		for _, ins := range b.Instrs {
			// loads: a field known non-nil yields a non-nil value
			if u, ok := ins.(*ssa.UnOp); ok && u.Op == token.MUL {
				if fa, ok := u.X.(*ssa.FieldAddr); ok && s.shape[a.addrShape(fa)] {
					s.val[u] = true
				}
			}
			// reads of a map cell known to hold a non-nil value
			if lk, ok := ins.(*ssa.Lookup); ok && !lk.CommaOk {
				if _, isMap := lk.X.Type().Underlying().(*types.Map); isMap && s.shape["M:"+cellKey(lk.X, lk.Index)] {
					s.val[lk] = true
				}
			}
			if ex, ok := ins.(*ssa.Extract); ok && ex.Index == 0 {
				if lk, ok := ex.Tuple.(*ssa.Lookup); ok && s.shape["M:"+cellKey(lk.X, lk.Index)] {
					s.val[ex] = true
				}
			}
			if v, kind := derefOf(ins); v != nil {
				if u, fa := fieldLoad(v); u != nil {
					id := fieldID(fa)
					if why, isNb := nb[id]; isNb && nilableType(u.Type()) {
						if record && inScope(ins.Pos()) {
							base := relName(fn) + "/" + id
							ord[base]++
							o := nilObl{Key: fmt.Sprintf("%s/deref#%d", base, ord[base]), Pos: ins.Pos(), Holds: nonNil(s, v)}
							if o.Holds {
								o.What = fmt.Sprintf("%s through %s: non-nil on every path (tested, or assigned a non-nil value, with no possible re-assignment in between)", kind, id)
							} else {
								o.What = fmt.Sprintf("%s through %s, which may be nil (%s), is not protected on every path by a non-nil test or a non-nil assignment", kind, id, why)
							}
							obls = append(obls, o)
						}
					}
				}
				// results of fork functions that may be nil, and plain map reads of pointer values
				if record && inScope(ins.Pos()) {
					what := ""
					if c, idx := callResultOf(v); c != nil {
						if cal := c.Call.StaticCallee(); cal != nil {
							if e, ok := mayNil[cal][idx]; ok {
								what = "result of " + relName(cal) + ", which " + e.why
								if e.announced {
									what += " together with an error"
								}
							}
						}
					} else if lk := mapReadOf(v); lk != nil && nilableType(v.Type()) {
						what = "value read from the map " + shortValue(lk.X) + " (nil for an absent key)"
					}
					if what != "" {
						base := relName(fn) + "/nilresult"
						ord[base]++
						o := nilObl{Key: fmt.Sprintf("%s#%d", base, ord[base]), Pos: ins.Pos(), Holds: nonNil(s, v)}
						if o.Holds {
							o.What = fmt.Sprintf("%s of the %s: tested on every path before use", kind, what)
						} else {
							o.What = fmt.Sprintf("%s of the %s is not protected on every path by a non-nil test (or by the test of the announcing error / presence flag)", kind, what)
						}
						obls = append(obls, o)
					}
				}
				// having survived the dereference, the value is non-nil
				s.val[v] = true
			}
			switch x := ins.(type) {
			case *ssa.Store:
				if fa, ok := x.Addr.(*ssa.FieldAddr); ok && nilableType(x.Val.Type()) {
					sh := a.addrShape(fa)
					fld := fieldID(fa)
					for k := range s.shape {
						if fieldOfShape(k) == fld {
							delete(s.shape, k)
						}
					}
					if nonNil(s, x.Val) {
						s.shape[sh] = true
					}
				}
			case *ssa.MapUpdate:
				if nilableType(x.Value.Type()) {
					key := cellKey(x.Map, x.Key)
					if nonNil(s, x.Value) {
						killCells(s, key) // cells named through this one now belong to another map
						s.shape["M:"+key] = true
					} else {
						killCells(s, "") // the key may equal that of any other cell of the map
					}
				}
			case ssa.CallInstruction:
				for k := range s.shape {
					if strings.HasPrefix(k, "M:") {
						continue
					}
					if a.clobbers(ins, fieldOfShape(k)) {
						delete(s.shape, k)
					}
				}
				if bi, ok := x.Common().Value.(*ssa.Builtin); ok {
					if bi.Name() == "delete" || bi.Name() == "clear" {
						killCells(s, "")
					}
				} else if a.clobbers(ins, "#mapnil") {
					killCells(s, "")
				}
			}
		}
		return s
	}
	// edge facts from the terminating If
	edge := func(b *ssa.BasicBlock, succIdx int, out *state) *state {
		iff, ok := b.Instrs[len(b.Instrs)-1].(*ssa.If)
		if !ok || b.Succs[0] == b.Succs[1] {
			return out
		}
		// presence flag of a map read: on the `ok` side the value read is taken to be non-nil
		{
			cond, trueSucc := iff.Cond, 0
			if n, isNot := cond.(*ssa.UnOp); isNot && n.Op == token.NOT {
				cond, trueSucc = n.X, 1
			}
			if ex, isEx := cond.(*ssa.Extract); isEx && ex.Index == 1 {
				if lk, isLk := ex.Tuple.(*ssa.Lookup); isLk && lk.CommaOk {
					if succIdx != trueSucc {
						return out
					}
					s := clone(out)
					s.shape["M:"+cellKey(lk.X, lk.Index)] = true
					for _, ref := range *lk.Referrers() {
						if e0, ok := ref.(*ssa.Extract); ok && e0.Index == 0 {
							s.val[e0] = true
						}
					}
					return s
				}
			}
		}
		bo, ok := iff.Cond.(*ssa.BinOp)
		if !ok || (bo.Op != token.NEQ && bo.Op != token.EQL) {
			return out
		}
		var v ssa.Value
		if k, ok := bo.Y.(*ssa.Const); ok && k.Value == nil {
			v = bo.X
		} else if k, ok := bo.X.(*ssa.Const); ok && k.Value == nil {
			v = bo.Y
		}
		if v == nil || !nilableType(v.Type()) {
			return out
		}
		nonNilSucc := 0
		if bo.Op == token.EQL {
			nonNilSucc = 1
		}
		if succIdx != nonNilSucc {
			// the side on which the tested value is nil: if it is the error of a call whose nil results
			// are announced by that error, the other results are usable here
			if ex, isEx := v.(*ssa.Extract); isEx {
				if c, isCall := ex.Tuple.(*ssa.Call); isCall {
					if cal := c.Call.StaticCallee(); cal != nil && ex.Index == errorIndex(cal.Signature) {
						s := clone(out)
						for _, ref := range *c.Referrers() {
							if e2, ok := ref.(*ssa.Extract); ok && e2 != ex {
								if e, ok := mayNil[cal][e2.Index]; ok && e.announced {
									s.val[e2] = true
								}
							}
						}
						return s
					}
				}
			}
			return out
		}
		s := clone(out)
		s.val[v] = true
		if lk := mapReadOf(v); lk != nil {
			s.shape["M:"+cellKey(lk.X, lk.Index)] = true
		}
		if u, fa := fieldLoad(v); u != nil {
			// the field itself is non-nil if nothing may have re-assigned it since the load
			if !a.clobberedBetween(u, iff, fieldID(fa)) {
				s.shape[a.addrShape(fa)] = true
			}
		}
		return s
	}
	in := map[*ssa.BasicBlock]*state{}
	outS := map[*ssa.BasicBlock]*state{}
	in[fn.Blocks[0]] = &state{map[string]bool{}, map[ssa.Value]bool{}}
	order := fn.DomPreorder()
	for iter := 0; iter < 50; iter++ {
		changed := false
		for _, b := range order {
			var cur *state
			if b == fn.Blocks[0] {
				cur = in[b]
			} else {
				for _, p := range b.Preds {
					po := outS[p]
					if po == nil {
						continue // not yet visited: optimistic (top)
					}
					for si, sc := range p.Succs {
						if sc != b {
							continue
						}
						e := edge(p, si, po)
						if cur == nil {
							cur = clone(e)
						} else {
							cur = meet(cur, e)
						}
					}
				}
				if cur == nil {
					cur = &state{map[string]bool{}, map[ssa.Value]bool{}}
				}
				// phis: non-nil when every incoming value is non-nil in its predecessor's out state
				for _, ins := range b.Instrs {
					phi, ok := ins.(*ssa.Phi)
					if !ok {
						break
					}
					all := true
					for i, e := range phi.Edges {
						po := outS[b.Preds[i]]
						if po == nil {
							continue
						}
						if !nonNil(po, e) {
							all = false
						}
					}
					if all && nilableType(phi.Type()) {
						cur.val[phi] = true
					}
				}
			}
			if in[b] == nil || !equal(in[b], cur) {
				in[b] = cur
				changed = true
			}
			o := transfer(b, cur)
			if outS[b] == nil || !equal(outS[b], o) {
				outS[b] = o
				changed = true
			}
		}
		if !changed {
			break
		}
	}
	record = true
	for _, b := range order {
		if in[b] != nil {
			transfer(b, in[b])
		}
	}
	sort.Slice(obls, func(i, j int) bool { return obls[i].Key < obls[j].Key })
	return obls
}

// addNilFieldRule emits the nil-field obligations of the selected target functions.
func addNilFieldRule(w *World, r *Report, rule string, fns []*ssa.Function, sel func(fn *ssa.Function) bool) int {
	env := w.rangeEnv()
	n := 0
	for _, fn := range fns {
		if sel != nil && !sel(fn) {
			continue
		}
		a := env.analyse(fn)
		for _, o := range a.nilObligations(w.rangeScope(fn)) {
			n++
			if o.Holds {
				r.holds(rule, o.Key, w.pos(o.Pos), o.What)
			} else {
				r.violated(rule, o.Key, w.pos(o.Pos), o.What)
			}
		}
	}
	nb := w.nilableFields()
	var ids []string
	for id := range nb {
		ids = append(ids, id)
	}
	sort.Strings(ids)
	r.Analysed["nilable_fields"] = len(ids)
	return n
}

func init() {
	debugCmds["nilable"] = func() {
		w, err := loadWorld(true, true)
		if err != nil {
			fmt.Println(err)
			return
		}
		nb := w.nilableFields()
		var ids []string
		for id := range nb {
			ids = append(ids, id)
		}
		sort.Strings(ids)
		for _, id := range ids {
			fmt.Println(id, "—", nb[id])
		}
		env := w.rangeEnv()
		for _, pk := range []int{pkVM, pkNative} {
			for _, fn := range w.rangeTargets(pk) {
				a := env.analyse(fn)
				for _, o := range a.nilObligations(w.rangeScope(fn)) {
					fmt.Printf("%s %v %s: %s\n", w.pos(o.Pos), o.Holds, o.Key, o.What)
				}
			}
		}
	}
}
