package main

// C12 (journal instructions are invisible and cost a flat fee) and C10 (attribution of journal
// entries): E4 effect summaries, E5 table queries, SSA provenance.

import (
	"fmt"
	"go/ast"
	"go/constant"
	"go/token"
	"go/types"
	"sort"
	"strings"

	"golang.org/x/tools/go/ssa"
)

func init() {
	register("C12", true, true, checkC12)
	register("C10", true, true, checkC10)
}

type journalSlot struct {
	slot      int64
	lit       *ast.CompositeLit
	pos       token.Pos
	execute   string
	fields    map[string]ast.Expr
	installer string
}

// journalSlots resolves the instructions installed in 0xe0-0xe7 from the frontier table literal.
func (w *World) journalSlots() []journalSlot { return w.slotLits(0xe0, 0xe7) }

// slotLits returns the operation literals installed in the opcode slots lo..hi.
func (w *World) slotLits(lo, hi int64) []journalSlot {
	var out []journalSlot
	for _, sw := range w.jumpTableWrites() {
		if sw.slot < lo || sw.slot > hi || sw.elt == nil {
			continue
		}
		lit, ok := sw.elt.(*ast.CompositeLit)
		if !ok {
			if u, isU := sw.elt.(*ast.UnaryExpr); isU {
				lit, ok = u.X.(*ast.CompositeLit)
			}
		}
		if !ok {
			continue
		}
		js := journalSlot{slot: sw.slot, lit: lit, pos: sw.pos, fields: map[string]ast.Expr{}, installer: sw.fn}
		for _, el := range lit.Elts {
			if kv, ok := el.(*ast.KeyValueExpr); ok {
				if id, ok := kv.Key.(*ast.Ident); ok {
					js.fields[id.Name] = kv.Value
				}
			}
		}
		if id, ok := js.fields["execute"].(*ast.Ident); ok {
			js.execute = id.Name
		}
		out = append(out, js)
	}
	sort.Slice(out, func(i, j int) bool { return out[i].slot < out[j].slot })
	return out
}

// journalFamily: the execute function, its closures and the fork helpers it calls statically
// (not the opaque owner types Stack, Memory, Contract, Tracer, StateChanges ...).
func journalOpaque(fn *ssa.Function) bool {
	if rv := fn.Signature.Recv(); rv != nil {
		return true // methods of Stack / Memory / Contract / Tracer are judged by name below
	}
	return false
}

func checkC12(w *World, tier string) *Report {
	r := newReport("C12")
	r.Explanation = "The eight journal instructions are resolved from the table (slots 0xe0-0xe7 of the frontier literal). " +
		"R12.1 (effect summary of each execute function, its closures and the plain helper functions it calls): the only Stack method is pop; the only Memory methods are the read-only GetCopy/Len; StateDB is reached only through the reviewed getter list; the only other fork calls are Contract.Address and Tracer.SaveStateChange/SaveStateKey (C01 R1.4a shows the recorder has no effect outside itself); stores only into the interpreter's hasher scratch; no store through pc, no UseGas, no global write, no panic, no dynamic call; every return yields nil return data; " +
		"R12.2 stack agreement: all pops are in the entry block (executed on every path, before any validation) and their number equals the pop count n of the slot's minStack(n,0)/maxStack(n,0); pushes are 0 in both; " +
		"R12.5 (justified refusals, the dual of the bounds rule) every edge into an error return of the operand decoder loadDataFromMem entails that a memory read of the function would end beyond the memory, or that a 256-bit operand does not fit 64 bits — a well-formed name or key that ends exactly at the end of memory is not refused, so a well-formed journal instruction cannot halt the frame; " +
		"R12.3 fee: the slot has no constantGas and no memorySize; its dynamicGas is built by one constructor whose closure returns one positive compile-time constant and nil on every path and reads none of its parameters; slots 0xe0-0xe7 are written nowhere but in the frontier literal and every later instruction-set constructor is a clone of the reference's (so every fork inherits the slots unchanged); " +
		"R12.4 malformed operands halt the frame exceptionally: no journal function refers to errStopToken or ErrExecutionReverted, and the only error sources are errors.New and the recorder. Decides the structural sufficient condition for non-interference; the relational claim itself (program pairs) follows from R12.1-R12.2 and is not executed."
	slots := w.journalSlots()
	if len(slots) != 8 {
		r.violated("R12.3", "journal-slots", "-", fmt.Sprintf("expected 8 journal slots 0xe0-0xe7 in the table literal, found %d", len(slots)))
	}
	vm := w.Pkgs[forkPath(pkVM)]
	info := vm.TypesInfo
	var feeConst constant.Value
	for _, js := range slots {
		key := fmt.Sprintf("slot 0x%02x %s", js.slot, js.execute)
		fn := w.Func(forkPath(pkVM), js.execute)
		if fn == nil {
			r.undecided("R12.1", key, w.pos(js.pos), "execute function not resolved")
			continue
		}
		// R12.1
		bad, summary := journalEffects(w, fn)
		if len(bad) > 0 {
			r.violated("R12.1", key, w.pos(fn.Pos()), "journal instruction has an effect a contract could observe: "+strings.Join(bad, "; "))
		} else {
			r.holds("R12.1", key, w.pos(fn.Pos()), "effects: "+summary)
		}
		// R12.2
		pops, allEntry, other := 0, true, []string{}
		for _, f2 := range withAnon(fn) {
			for _, b := range f2.Blocks {
				for _, ins := range b.Instrs {
					ci, ok := ins.(ssa.CallInstruction)
					if !ok {
						continue
					}
					c := ci.Common().StaticCallee()
					if c == nil || c.Signature.Recv() == nil || typeBaseName(c.Signature.Recv().Type()) != "Stack" {
						continue
					}
					if c.Name() == "pop" {
						pops++
						if f2 != fn || b != fn.Blocks[0] {
							allEntry = false
						}
					} else {
						other = append(other, c.Name())
					}
				}
			}
		}
		mn, mnPush, ok1 := stackArgs(info, js.fields["minStack"], "minStack")
		mx, mxPush, ok2 := stackArgs(info, js.fields["maxStack"], "maxStack")
		switch {
		case !ok1 || !ok2:
			r.violated("R12.2", key, w.pos(js.pos), "minStack/maxStack of the slot are not minStack(n, 0)/maxStack(n, 0) calls with constant arguments")
		case len(other) > 0:
			r.violated("R12.2", key, w.pos(fn.Pos()), "uses Stack methods other than pop: "+strings.Join(other, ", "))
		case !allEntry:
			r.violated("R12.2", key, w.pos(fn.Pos()), "a pop is not executed on every path (outside the entry block): the stack height after the instruction would depend on the operands")
		case int64(pops) != mn || mn != mx || mnPush != 0 || mxPush != 0:
			r.violated("R12.2", key, w.pos(js.pos), fmt.Sprintf("the instruction pops %d operands on every path but the table declares minStack(%d,%d)/maxStack(%d,%d)", pops, mn, mnPush, mx, mxPush))
		default:
			r.holds("R12.2", key, w.pos(js.pos), fmt.Sprintf("%d pops in the entry block = declared pops; 0 pushes", pops))
		}
		// R12.3: fee = constantGas (a constant, when present) + dynamicGas (a parameter-independent constant function, when present)
		var feeBad []string
		fee := constant.MakeInt64(0)
		feeDesc := ""
		if cg, has := js.fields["constantGas"]; has {
			if tv, ok := info.Types[cg]; ok && tv.Value != nil && tv.Value.Kind() == constant.Int {
				fee = constant.BinaryOp(fee, token.ADD, tv.Value)
				feeDesc += "constantGas " + tv.Value.ExactString() + " "
			} else {
				feeBad = append(feeBad, "constantGas is not a compile-time constant")
			}
		}
		if _, has := js.fields["memorySize"]; has {
			feeBad = append(feeBad, "has a memorySize function: the interpreter would charge operand-dependent memory expansion")
		}
		if dgE, has := js.fields["dynamicGas"]; has {
			var gfn *ssa.Function
			switch dg := dgE.(type) {
			case *ast.CallExpr: // constructor returning one closure
				if id, ok := dg.Fun.(*ast.Ident); ok {
					if fo, ok := info.Uses[id].(*types.Func); ok {
						if ctor := w.Func(forkPath(pkVM), fo.Name()); ctor != nil && len(ctor.AnonFuncs) == 1 && returnsOnlyClosure(ctor) {
							gfn = ctor.AnonFuncs[0]
							feeDesc += "dynamicGas " + fo.Name() + "(…) "
						} else if ctor != nil && len(ctor.AnonFuncs) == 0 {
							// a constructor that hands out one named function on every path
							if nf := returnsOnlyNamedFunc(ctor); nf != nil && isForkPkg(nf.Pkg) {
								gfn = nf
								feeDesc += "dynamicGas " + fo.Name() + "() = " + nf.Name() + " "
							}
						}
					}
				}
			case *ast.Ident:
				if fo, ok := info.Uses[dg].(*types.Func); ok {
					gfn = w.Func(forkPath(pkVM), fo.Name())
					feeDesc += "dynamicGas " + fo.Name() + " "
				}
			}
			if gfn == nil {
				feeBad = append(feeBad, "dynamicGas is neither a plain function nor a constructor returning its single closure")
			} else if k, why := flatFee(gfn); k == nil {
				feeBad = append(feeBad, why)
			} else {
				fee = constant.BinaryOp(fee, token.ADD, k)
			}
		}
		if len(feeBad) == 0 {
			if constant.Sign(fee) <= 0 {
				feeBad = append(feeBad, "the fee is zero")
			} else if feeConst == nil {
				feeConst = fee
			} else if !constant.Compare(feeConst, token.EQL, fee) {
				feeBad = append(feeBad, "fee "+fee.ExactString()+" differs from the other journal slots' "+feeConst.ExactString())
			}
		}
		if len(feeBad) > 0 {
			r.violated("R12.3", key, w.pos(js.pos), "fee is not one flat positive constant: "+strings.Join(feeBad, "; "))
		} else {
			r.holds("R12.3", key, w.pos(js.pos), fmt.Sprintf("%s= %s on every path, reading no parameter; no memorySize", feeDesc, fee.ExactString()))
		}
		// R12.4
		var errBad []string
		for _, f2 := range journalFamilyFuncs(fn) {
			for _, b := range f2.Blocks {
				for _, ins := range b.Instrs {
					var rands []*ssa.Value
					for _, op := range ins.Operands(rands) {
						if g, ok := (*op).(*ssa.Global); ok && (g.Name() == "errStopToken" || g.Name() == "ErrExecutionReverted") {
							errBad = append(errBad, "refers to "+g.Name()+" at "+w.pos(ins.Pos()))
						}
					}
				}
			}
		}
		if len(errBad) > 0 {
			r.violated("R12.4", key, w.pos(fn.Pos()), "a journal instruction could end the frame like STOP/REVERT instead of halting exceptionally: "+strings.Join(errBad, "; "))
		} else {
			r.holds("R12.4", key, w.pos(fn.Pos()), "no reference to errStopToken / ErrExecutionReverted in the instruction, its closures and helpers")
		}
	}
	for _, rule := range []string{"R12.1", "R12.2", "R12.3", "R12.4"} {
		r.need(rule, 8)
	}
	// every fork's table inherits the frontier slots: constructors are the reference's, 0xe0-0xe7 written only in the literal
	addTableRules(w, r, "R12.3t")
	s := w.e1()
	s.cloneRule(r, "R12.3c", pkVM, func(name string, pr *PairResult) bool {
		return strings.HasPrefix(name, "new") && strings.HasSuffix(name, "InstructionSet") || name == "validate" || name == "copyJumpTable" || strings.HasPrefix(name, "enable")
	})
	r.need("R12.3c", 12)
	r.Assumptions = append(r.Assumptions, "StateDB getters (GetState, …) do not change observable state", "the recorder (Tracer family) has no effect outside itself: C01 R1.4a")
	addNeverFailsRule(w, r, "R11.8") // a well-formed key journal cannot be refused because of earlier registrations
	addRegistrationRefusalRule(w, r, "R12.6")
	addScratchDisciplineRule(w, r, "R12.7")
	addSharedConstRule(w, r, "R16.2") // a journal instruction that overwrites a shared 256-bit constant changes every later execution in the process
	r.Explanation += " R12.7 the interpreter's digest scratch buffer is read, in every fork function, only after that same function hashed into it (dominance): no instruction consumes a digest another instruction left behind, so the journal instructions, which hash through the same buffer, cannot change what a later instruction computes."
	r.Explanation += " R12.6 every condition that decides an error return of StateChanges.saveKey is a test of the offset operand, a nil test of a parameter, the parent not found by findKey, or the error of a callee: a well-formed key journal is not refused because of what was or was not recorded before (e.g. an account without a root yet)."
	addJustifiedRefusalRule(w, r, "R12.5", []string{"loadDataFromMem"}, nil)
	r.need("R12.5", 4)
	// seventh batch: "malformed operands halt the frame" has a complement to R12.5/R12.6 — an operand that does not
	// fit is seen as malformed at all. The recorder's offset conversions are lossless readings of the 256-bit operand
	// (C11 R11.2): a helper that tests only the low 64 bits lets 2^64+3 through as offset 3 and the frame goes on
	addNoSwallowedErrorRule(w, r, "R12.8")
	r.Explanation += " R12.8 (SSA def-use) in the eight journal instructions and their closures the error component of every call flows, directly or through phis, into a return statement: an error of the operand decoder or the recorder that is only tested (a shadowed `err`) and dropped would let the frame run on."
	addConvRule(w, r, "R11.2", []string{"(*StateChanges).saveKey", "(*StateChanges).saveChange", "(*StateChanges).Slot"})
	r.Explanation += " R11.2 (shared with C11) every integer conversion of a 256-bit operand in the recorder's entry points and their helpers is lossless or dominated by the overflow test: an operand beyond 64 bits is refused, not read modulo 2^64."
	return r
}

func stackArgs(info *types.Info, e ast.Expr, name string) (int64, int64, bool) {
	c, ok := e.(*ast.CallExpr)
	if !ok || len(c.Args) != 2 {
		return 0, 0, false
	}
	id, ok := c.Fun.(*ast.Ident)
	if !ok || id.Name != name || !isPkgLevel(info.Uses[id]) {
		return 0, 0, false
	}
	var v [2]int64
	for i := range v {
		tv, ok := info.Types[c.Args[i]]
		if !ok || tv.Value == nil {
			return 0, 0, false
		}
		x, ok := constant.Int64Val(tv.Value)
		if !ok {
			return 0, 0, false
		}
		v[i] = x
	}
	return v[0], v[1], true
}

// returnsOnlyClosure: every return of ctor yields its single closure.
// returnsOnlyNamedFunc: every return of ctor returns the same package-level function.
func returnsOnlyNamedFunc(ctor *ssa.Function) *ssa.Function {
	var out *ssa.Function
	for _, b := range ctor.Blocks {
		for _, ins := range b.Instrs {
			ret, ok := ins.(*ssa.Return)
			if !ok {
				continue
			}
			if len(ret.Results) != 1 {
				return nil
			}
			v := ret.Results[0]
			if ct, ok := v.(*ssa.ChangeType); ok {
				v = ct.X
			}
			f, ok := v.(*ssa.Function)
			if !ok || f.Parent() != nil || (out != nil && out != f) {
				return nil
			}
			out = f
		}
	}
	return out
}

func returnsOnlyClosure(ctor *ssa.Function) bool {
	n := 0
	for _, b := range ctor.Blocks {
		for _, ins := range b.Instrs {
			if ret, ok := ins.(*ssa.Return); ok {
				n++
				if len(ret.Results) != 1 {
					return false
				}
				v := ret.Results[0]
				if ct, ok := v.(*ssa.ChangeType); ok {
					v = ct.X
				}
				mc, ok := v.(*ssa.MakeClosure)
				if !ok {
					if f, isF := v.(*ssa.Function); !isF || f != ctor.AnonFuncs[0] {
						return false
					}
				} else if mc.Fn != ssa.Value(ctor.AnonFuncs[0]) {
					return false
				}
			}
		}
	}
	return n > 0
}

// flatFee: every return of the gas function is (constant, nil) with one constant, and no
// instruction uses a parameter or a captured variable or calls other code.
func flatFee(cl *ssa.Function) (constant.Value, string) {
	if cl == nil || cl.Blocks == nil {
		return nil, "fee function not resolved"
	}
	var k constant.Value
	for _, b := range cl.Blocks {
		for _, ins := range b.Instrs {
			var rands []*ssa.Value
			for _, op := range ins.Operands(rands) {
				switch (*op).(type) {
				case *ssa.Parameter, *ssa.FreeVar:
					if _, dbg := ins.(*ssa.DebugRef); dbg {
						continue
					}
					return nil, "the fee function reads " + (*op).Name() + ": the fee may depend on operands, state or fork"
				}
			}
			if _, isCall := ins.(ssa.CallInstruction); isCall {
				return nil, "the fee function calls other code"
			}
			ret, ok := ins.(*ssa.Return)
			if !ok {
				continue
			}
			if len(ret.Results) != 2 {
				return nil, "unexpected result arity"
			}
			c, ok := ret.Results[0].(*ssa.Const)
			e, ok2 := ret.Results[1].(*ssa.Const)
			if !ok || !ok2 || c.Value == nil || e.Value != nil {
				return nil, "a return of the fee function is not (constant, nil)"
			}
			if k != nil && !constant.Compare(k, token.EQL, c.Value) {
				return nil, "the fee function returns different constants on different paths"
			}
			k = c.Value
		}
	}
	if k == nil {
		return nil, "no return found"
	}
	return k, ""
}

// journalFamilyFuncs: fn, its closures, and plain fork functions (no receiver) called statically, transitively.
func journalFamilyFuncs(fn *ssa.Function) []*ssa.Function {
	seen := map[*ssa.Function]bool{}
	var out []*ssa.Function
	var visit func(f *ssa.Function)
	visit = func(f *ssa.Function) {
		if f == nil || seen[f] || f.Blocks == nil {
			return
		}
		seen[f] = true
		out = append(out, f)
		for _, a := range f.AnonFuncs {
			visit(a)
		}
		for _, b := range f.Blocks {
			for _, ins := range b.Instrs {
				if ci, ok := ins.(ssa.CallInstruction); ok {
					if c := ci.Common().StaticCallee(); c != nil && isForkPkg(c.Pkg) && c.Signature.Recv() == nil && c.Parent() == nil {
						visit(c)
					}
				}
			}
		}
	}
	visit(fn)
	return out
}

var journalAllowedCalls = map[string]bool{
	"(*P0.Stack).pop": true, "(*P0.Memory).GetCopy": true, "(*P0.Memory).Len": true, "(*P0.Contract).Address": true,
	"(*P0.Tracer).SaveStateChange": true, "(*P0.Tracer).SaveStateKey": true,
}
var journalAllowedInvoke = map[string]bool{"error.Error": true}
var journalAllowedStores = map[string]bool{"P0.EVMInterpreter.hasher": true, "P0.EVMInterpreter.hasherBuf": true, "copy into P0.EVMInterpreter.hasherBuf": true}

func journalEffects(w *World, fn *ssa.Function) (bad []string, summary string) {
	es := w.effectsOf(fn, effectOpts{maxDepth: -1, opaque: journalOpaque})
	for _, e := range es {
		ok := false
		switch e.Kind {
		case "call":
			ok = journalAllowedCalls[e.What]
			if !ok && e.What == "(*P0.Memory).GetPtr" {
				// a view of the contract's memory is as harmless as a copy when it is only read
				ok = memViewsOnlyRead(fn)
			}
		case "invoke":
			if strings.HasPrefix(e.What, "P0.StateDB.") {
				ok = stateDBGetters[strings.TrimPrefix(e.What, "P0.StateDB.")]
			} else if strings.HasSuffix(e.What, "KeccakState.Reset") || strings.HasSuffix(e.What, "KeccakState.Write") || strings.HasSuffix(e.What, "KeccakState.Read") {
				ok = true // the interpreter's scratch hasher, reset before each use by every user
			} else {
				ok = journalAllowedInvoke[e.What]
			}
		case "ext":
			ok = isPureExt(e.What)
		case "store", "mapupdate":
			ok = journalAllowedStores[e.What]
		}
		if !ok {
			bad = append(bad, e.String()+" at "+w.pos(e.Pos))
		}
	}
	// nil return data on every path
	for _, b := range fn.Blocks {
		if len(b.Instrs) == 0 {
			continue
		}
		if ret, ok := b.Instrs[len(b.Instrs)-1].(*ssa.Return); ok && len(ret.Results) == 2 {
			if !nilDataResult(ret.Results[0], map[*ssa.Function]bool{fn: true}) {
				bad = append(bad, "returns non-nil return data at "+w.pos(ret.Pos()))
			}
		}
	}
	// pc untouched: no use of the pc parameter at all
	for _, p := range fn.Params {
		if pt, isPtr := p.Type().(*types.Pointer); isPtr && types.Identical(pt.Elem(), types.Typ[types.Uint64]) && p.Referrers() != nil {
			for _, u := range *p.Referrers() {
				if _, dbg := u.(*ssa.DebugRef); !dbg {
					bad = append(bad, "uses the program counter at "+w.pos(u.Pos()))
				}
			}
		}
	}
	sort.Strings(bad)
	return bad, strings.Join(effectKeys(es), ", ")
}

// ---- C10 ------------------------------------------------------------------------------------------

func checkC10(w *World, tier string) *Report {
	r := newReport("C10")
	r.Explanation = "R10.1 (SSA provenance in each of the eight journal instructions resolved from the table): the account argument of Tracer.SaveStateChange/SaveStateKey and of every StateDB.GetState feeding it is the result of Contract.Address() on scope.Contract — the frame's storage address — and the recorder is the interpreter's own; " +
		"R10.2 the Tracer entry points stamp the call index obtained from CurrentCallIndex() on the same recorder in the same call; CurrentCallIndex returns callTree.current.Index when the cursor is non-nil and 0 otherwise (no cached copy); with C07 the cursor is the innermost open CALL/CREATE; " +
		"R10.3 the call index travels unchanged saveChange -> JournalChanges -> StorageChanges.append, where it is the key of the only update of the per-call map; StorageChanges.changes and StorageKey.changes have no other writers; " +
		"R10.4 Contract.Address/AsDelegate/NewContract and the DELEGATECALL/CALLCODE frame constructors are clones of the reference (storage address = caller's under delegation). R10.5 the per-call list is a function of that call's previous list and the new value only: StorageChanges.append touches no receiver state other than changes[callIdx] and stores append(changes[callIdx], newVal); JournalChanges always reaches it and saveChange reaches JournalChanges on every successful path; R10.6 the flat-index look-up findKey is a pure function of the index and all four of its coordinates (account, slot, offset, type id): no store, no memo, every level keyed by a parameter; R10.8 the call counter is only ever incremented (an index is never handed out twice while the per-call lists live); R10.7 the node that receives a journal entry is the result of findKey under this call's own account, slot, offset and type id (no remembered node); R9.8 (shared with C09) storage is read through the EVM's current StateDB field, and R16.4 (shared with C16) the recorder the journal instructions write to is the one the EVM was constructed with and is never replaced — so entries cannot land in another state's or another recorder's books after a Reset; R7.1 (shared with C07) the node of a frame is opened before any early return and closed by exactly one deferred exit, so the cursor R10.2 reads is the innermost open CALL/CREATE. The value comparison inside the collapse of repeats and everything history-dependent is not decided."
	slots := w.journalSlots()
	totalGets := 0
	for _, js := range slots {
		key := fmt.Sprintf("slot 0x%02x %s", js.slot, js.execute)
		fn := w.Func(forkPath(pkVM), js.execute)
		if fn == nil {
			r.undecided("R10.1", key, w.pos(js.pos), "execute function not resolved")
			continue
		}
		var scope *ssa.Parameter
		var interp *ssa.Parameter
		for _, p := range fn.Params {
			switch typeBaseName(p.Type()) {
			case "ScopeContext":
				scope = p
			case "EVMInterpreter":
				interp = p
			}
		}
		var isFrameAddr func(v ssa.Value) bool
		isFrameAddr = func(v ssa.Value) bool {
			if p, isP := v.(*ssa.Parameter); isP && p.Parent() != fn {
				// a helper's parameter: every call site in the instruction's family must pass the frame address
				h := p.Parent()
				pi := -1
				for k, q := range h.Params {
					if q == p {
						pi = k
					}
				}
				nSites := 0
				for _, f3 := range journalFamilyFuncs(fn) {
					for _, b3 := range f3.Blocks {
						for _, i3 := range b3.Instrs {
							if ci, ok := i3.(ssa.CallInstruction); ok && ci.Common().StaticCallee() == h && pi >= 0 && pi < len(ci.Common().Args) {
								nSites++
								if !isFrameAddr(ci.Common().Args[pi]) {
									return false
								}
							}
						}
					}
				}
				return nSites > 0
			}
			c, ok := v.(*ssa.Call)
			if !ok {
				return false
			}
			cal := c.Call.StaticCallee()
			if cal == nil || cal.Name() != "Address" || cal.Signature.Recv() == nil || typeBaseName(cal.Signature.Recv().Type()) != "Contract" || len(c.Call.Args) != 1 {
				return false
			}
			ld, ok := c.Call.Args[0].(*ssa.UnOp)
			if !ok || ld.Op != token.MUL {
				return false
			}
			fa, ok := ld.X.(*ssa.FieldAddr)
			if !ok || fieldID(fa) != "P0.ScopeContext.Contract" || scope == nil {
				return false
			}
			// the instruction's own scope, or the scope parameter of a helper of the instruction (a
			// *ScopeContext is only ever made by the interpreter loop for the running frame)
			_, isParam := fa.X.(*ssa.Parameter)
			return fa.X == ssa.Value(scope) || (isParam && typeBaseName(fa.X.Type()) == "ScopeContext")
		}
		isOwnTracer := func(v ssa.Value) bool {
			ld, ok := v.(*ssa.UnOp)
			if !ok || ld.Op != token.MUL {
				return false
			}
			fa, ok := ld.X.(*ssa.FieldAddr)
			if !ok || fieldID(fa) != "P0.EVMInterpreter.tracer" || interp == nil {
				return false
			}
			base := fa.X
			// a parameter captured by a closure lives in a cell that is assigned once, from the parameter
			if u, isLoad := base.(*ssa.UnOp); isLoad && u.Op == token.MUL {
				if al, isAlloc := u.X.(*ssa.Alloc); isAlloc {
					if sv := singleStore(al); sv != nil {
						base = sv
					}
				} else if fv, isFv := u.X.(*ssa.FreeVar); isFv && immutableFreeVar(fv) {
					if iv := immFreeVarInit[fv]; iv != nil {
						base = iv
					}
				}
			}
			_, isParam := base.(*ssa.Parameter)
			return base == ssa.Value(interp) || (isParam && typeBaseName(base.Type()) == "EVMInterpreter")
		}
		saves, gets := 0, 0
		var bad []string
		for _, f2 := range journalFamilyFuncs(fn) {
			for _, b := range f2.Blocks {
				for _, ins := range b.Instrs {
					ci, ok := ins.(ssa.CallInstruction)
					if !ok {
						continue
					}
					c := ci.Common()
					if c.IsInvoke() && (c.Method.Name() == "GetState" || c.Method.Name() == "GetCommittedState") {
						gets++
						if len(c.Args) < 1 || !isFrameAddr(c.Args[0]) {
							bad = append(bad, "GetState reads an account other than scope.Contract.Address() at "+w.pos(ins.Pos()))
						}
						continue
					}
					cal := c.StaticCallee()
					if cal == nil || cal.Signature.Recv() == nil || typeBaseName(cal.Signature.Recv().Type()) != "Tracer" {
						continue
					}
					if cal.Name() != "SaveStateChange" && cal.Name() != "SaveStateKey" {
						continue
					}
					saves++
					if !isOwnTracer(c.Args[0]) {
						bad = append(bad, "journals into a recorder other than interpreter.tracer at "+w.pos(ins.Pos()))
					}
					if !isFrameAddr(c.Args[1]) {
						bad = append(bad, cal.Name()+" files the entry under an account other than scope.Contract.Address() at "+w.pos(ins.Pos()))
					}
				}
			}
		}
		totalGets += gets
		if saves != 1 {
			bad = append(bad, fmt.Sprintf("expected exactly one recorder call, found %d", saves))
		}
		if len(bad) > 0 {
			r.violated("R10.1", key, w.pos(fn.Pos()), strings.Join(bad, "; "))
		} else {
			r.holds("R10.1", key, w.pos(fn.Pos()), fmt.Sprintf("1 recorder call and %d storage reads, all under scope.Contract.Address(); recorder = interpreter.tracer", gets))
		}
	}
	if totalGets < 3 {
		r.violated("R10.1", "storage-reads", "-", fmt.Sprintf("expected at least 3 StateDB.GetState sites in the change-journal instructions, found %d: the rule's anchors no longer resolve", totalGets))
	}
	r.need("R10.1", 8)
	addR102(w, r, "R10.2")
	addR103(w, r, "R10.3")
	addR105(w, r, "R10.5")
	addR71(w, r, "R7.1")
	addStateSourceRule(w, r, "R9.8")
	addFreshTracerRule(w, r, "R16.4")
	addFindKeyPurityRule(w, r, "R10.6")
	addSaveChangeLookupRule(w, r, "R10.7")
	addMonotoneIndexRule(w, r, "R10.8")
	addMustRecordRule(w, r, "R10.9")
	addRecordedValueFreshRule(w, r, "R10.10")
	r.Explanation += " R10.9 every return with a nil error of the eight journal instructions is preceded on every path by the recorder call (no frame kind — e.g. a static one — is silently exempt); R10.10 the value handed to the recorder has no field or captured variable among its may-alias roots (a scratch buffer of the interpreter would be rewritten by later instructions, mixing the lists of different calls and accounts)."
	s := w.e1()
	want := map[string]bool{"(*Contract).Address": true, "(*Contract).AsDelegate": true, "NewContract": true, "(*EVM).DelegateCall": true, "(*EVM).CallCode": true,
		"opDelegateCall": true, "opCallCode": true, "(*Contract).Caller": true, "(*Contract).SetCallCode": true, "(*Contract).SetCodeOptionalHash": true}
	s.cloneRule(r, "R10.4", pkVM, func(name string, pr *PairResult) bool { return want[name] })
	r.need("R10.4", 7)
	r.Assumptions = append(r.Assumptions, "the call-tree cursor is the innermost open CALL/CREATE frame: C07 R7.1-R7.3")
	return r
}

// isCurrentIndexCall: v is the result of (*Tracer).CurrentCallIndex(recv).
func isCurrentIndexCall(v ssa.Value, recv ssa.Value) bool {
	c, ok := v.(*ssa.Call)
	if !ok {
		return false
	}
	cal := c.Call.StaticCallee()
	return cal != nil && cal.Name() == "CurrentCallIndex" && cal.Signature.Recv() != nil && typeBaseName(cal.Signature.Recv().Type()) == "Tracer" && len(c.Call.Args) == 1 && c.Call.Args[0] == recv
}

func addR102(w *World, r *Report, rule string) {
	// entry points: (callee receiver type, callee name, SSA index of the call-index argument)
	type ep struct {
		fn, calleeRecv, callee string
		idx                    int
	}
	for _, e := range []ep{{"(*Tracer).SaveStateChange", "StateChanges", "saveChange", 5}, {"(*Tracer).SaveRawStateChange", "StateChanges", "saveRawStateChange", 3}} {
		fn := w.Func(forkPath(pkVM), e.fn)
		key := "vm." + e.fn
		if fn == nil {
			r.undecided(rule, key, "-", "function not found")
			continue
		}
		n, ok := 0, true
		for _, b := range fn.Blocks {
			for _, ins := range b.Instrs {
				ci, isCall := ins.(ssa.CallInstruction)
				if !isCall {
					continue
				}
				cal := ci.Common().StaticCallee()
				if cal == nil || cal.Name() != e.callee {
					continue
				}
				n++
				if e.idx >= len(ci.Common().Args) || !isCurrentIndexCall(ci.Common().Args[e.idx], fn.Params[0]) {
					ok = false
				}
			}
		}
		if n == 1 && ok {
			r.holds(rule, key, w.pos(fn.Pos()), "the call index passed to "+e.callee+" is CurrentCallIndex() of the same recorder evaluated in this call")
		} else {
			r.violated(rule, key, w.pos(fn.Pos()), fmt.Sprintf("the entry must be stamped with CurrentCallIndex() of the same recorder (calls of %s found: %d, stamped correctly: %v)", e.callee, n, ok))
		}
	}
	// CurrentCallIndex: phi(0, load(load(load(t.callTree).current).Index)) guarded by current != nil
	fn := w.Func(forkPath(pkVM), "(*Tracer).CurrentCallIndex")
	key := "vm.(*Tracer).CurrentCallIndex"
	if fn == nil {
		r.undecided(rule, key, "-", "function not found")
		return
	}
	okAll, nret := true, 0
	why := ""
	chain := func(v ssa.Value, fields ...string) ssa.Value { // follows load(FieldAddr) chains backwards
		for _, f := range fields {
			ld, ok := v.(*ssa.UnOp)
			if !ok || ld.Op != token.MUL {
				return nil
			}
			fa, ok := ld.X.(*ssa.FieldAddr)
			if !ok || fieldID(fa) != f {
				return nil
			}
			v = fa.X
		}
		return v
	}
	nIdxAll := 0
	// scan: every value f returns is the constant 0 or the load chain `fields` starting at f's receiver; a return
	// may delegate to another fork function that is handed an inner part of the chain (t.callTree.currentIndex()).
	var scan func(f *ssa.Function, fields []string, depth int)
	scan = func(f *ssa.Function, fields []string, depth int) {
		for _, b := range f.Blocks {
			for _, ins := range b.Instrs {
				ret, ok := ins.(*ssa.Return)
				if !ok {
					continue
				}
				nret++
				if len(ret.Results) != 1 {
					okAll, why = false, "unexpected result list"
					continue
				}
				vals := []ssa.Value{ret.Results[0]}
				if phi, ok := ret.Results[0].(*ssa.Phi); ok {
					vals = phi.Edges
				}
				for _, v := range vals {
					if c, ok := v.(*ssa.Const); ok {
						if c.Value == nil || constant.Sign(c.Value) != 0 {
							okAll, why = false, "a constant other than 0 is returned"
						}
						continue
					}
					if call, isCall := v.(*ssa.Call); isCall && depth < 2 {
						if g := call.Call.StaticCallee(); g != nil && isForkPkg(g.Pkg) && g.Blocks != nil && len(call.Call.Args) == 1 && len(g.Params) == 1 {
							delegated := false
							for k := 1; k < len(fields); k++ {
								if root := chain(call.Call.Args[0], fields[k:]...); root != nil && root == ssa.Value(f.Params[0]) {
									scan(g, fields[:k], depth+1)
									delegated = true
								}
							}
							if delegated {
								continue
							}
						}
					}
					if root := chain(v, fields...); root == nil || root != ssa.Value(f.Params[0]) {
						okAll, why = false, "a returned value is not t.callTree.current.Index"
						continue
					}
					nIdxAll++
				}
			}
		}
	}
	scan(fn, []string{"P0.Call.Index", "P0.CallTree.current", "P0.Tracer.callTree"}, 0)
	if nIdxAll == 0 {
		// over all returns (a single return of a phi, or an early `return 0` plus a return of the index)
		okAll, why = false, "the cursor's index is never returned"
	}
	if okAll && nret > 0 {
		r.holds(rule, key, w.pos(fn.Pos()), "returns callTree.current.Index (loaded at the time of the call) or the constant 0")
	} else {
		r.violated(rule, key, w.pos(fn.Pos()), "CurrentCallIndex must return the index of the call-tree cursor: "+why)
	}
	r.need(rule, 3)
}

func addR103(w *World, r *Report, rule string) {
	whoMayWrite(w, r, rule, map[string]map[string]bool{
		"P0.StorageChanges.changes": {"vm.(*StorageChanges).append": true},
		"P0.StorageKey.changes":     {"vm.(*StorageKey).JournalChanges": true},
	})
	// pass-through of the call index parameter
	type hop struct {
		fn, param, callee string
		idx               int
	}
	for _, h := range []hop{{"(*StateChanges).saveChange", "callIdx", "JournalChanges", 1}, {"(*StorageKey).JournalChanges", "callIdx", "append", 1}} {
		fn := w.Func(forkPath(pkVM), h.fn)
		key := "vm." + h.fn + "->" + h.callee
		if fn == nil {
			r.undecided(rule, key, "-", "function not found")
			continue
		}
		par := uniqueUint64Param(fn)
		n, ok := 0, par != nil
		for _, b := range fn.Blocks {
			for _, ins := range b.Instrs {
				if ci, isCall := ins.(ssa.CallInstruction); isCall {
					if cal := ci.Common().StaticCallee(); cal != nil && cal.Name() == h.callee && isForkPkg(cal.Pkg) {
						n++
						if h.idx >= len(ci.Common().Args) || ci.Common().Args[h.idx] != ssa.Value(par) {
							ok = false
						}
					}
				}
			}
		}
		if n >= 1 && ok {
			r.holds(rule, key, w.pos(fn.Pos()), "passes its call-index parameter unchanged")
		} else {
			r.violated(rule, key, w.pos(fn.Pos()), fmt.Sprintf("the call index must be passed on unchanged to %s (%d calls, unchanged=%v)", h.callee, n, ok))
		}
	}
	// append: every map update of c.changes is keyed by the callIdx parameter
	fn := w.Func(forkPath(pkVM), "(*StorageChanges).append")
	key := "vm.(*StorageChanges).append/key"
	if fn == nil {
		r.undecided(rule, key, "-", "function not found")
	} else {
		n, ok := 0, true
		for _, b := range fn.Blocks {
			for _, ins := range b.Instrs {
				switch x := ins.(type) {
				case *ssa.MapUpdate:
					n++
					if p, isP := x.Key.(*ssa.Parameter); !isP || p != uniqueUint64Param(fn) {
						ok = false
					}
				case *ssa.Lookup:
					if p, isP := x.Index.(*ssa.Parameter); !isP || p != uniqueUint64Param(fn) {
						ok = false
					}
				}
			}
		}
		if n >= 1 && ok {
			r.holds(rule, key, w.pos(fn.Pos()), fmt.Sprintf("%d map updates and all look-ups keyed by the call-index parameter", n))
		} else {
			r.violated(rule, key, w.pos(fn.Pos()), "the per-call change list is read or written under a key other than the call index parameter")
		}
	}
	r.need(rule, 5)
}


// uniqueUint64Param: the only parameter of type uint64 (the call index), nil if there is not exactly one.
func uniqueUint64Param(fn *ssa.Function) *ssa.Parameter {
	var out *ssa.Parameter
	for _, p := range fn.Params {
		if types.Identical(p.Type(), types.Typ[types.Uint64]) {
			if out != nil {
				return nil
			}
			out = p
		}
	}
	return out
}

// mustCallBeforeReturn: every path from the entry of fn to a return that `counts` passes a call of a
// function satisfying pred. Returns the first uncovered return, or nil.
func mustCallBeforeReturn(fn *ssa.Function, pred func(c ssa.CallInstruction) bool, counts func(ret *ssa.Return) bool) *ssa.Return {
	covers := map[*ssa.BasicBlock]bool{}
	for _, b := range fn.Blocks {
		for _, ins := range b.Instrs {
			if ci, ok := ins.(ssa.CallInstruction); ok && pred(ci) {
				covers[b] = true
			}
		}
	}
	seen := map[*ssa.BasicBlock]bool{}
	var leak *ssa.Return
	var dfs func(b *ssa.BasicBlock)
	dfs = func(b *ssa.BasicBlock) {
		if seen[b] || covers[b] || leak != nil {
			return
		}
		seen[b] = true
		if ret, ok := b.Instrs[len(b.Instrs)-1].(*ssa.Return); ok {
			if counts == nil || counts(ret) {
				leak = ret
			}
			return
		}
		for _, s := range b.Succs {
			dfs(s)
		}
	}
	if len(fn.Blocks) > 0 {
		dfs(fn.Blocks[0])
	}
	return leak
}

// nilErrorReturn: the return hands back a nil error (or has no error result): a success return.
func nilErrorReturn(ret *ssa.Return) bool {
	if len(ret.Results) == 0 {
		return true
	}
	last := ret.Results[len(ret.Results)-1]
	if !types.Identical(last.Type(), types.Universe.Lookup("error").Type()) {
		return true
	}
	k, ok := last.(*ssa.Const)
	return ok && k.Value == nil
}

// addR105: the per-call change list is a function of this call's previous list and the new value only.
func addR105(w *World, r *Report, rule string) {
	vm := forkPath(pkVM)
	fn := w.Func(vm, "(*StorageChanges).append")
	key := "vm.(*StorageChanges).append"
	if fn == nil || len(fn.Params) < 3 {
		r.undecided(rule, key, "-", "function not found")
		return
	}
	recv := fn.Params[0]
	idx := uniqueUint64Param(fn)
	var valP *ssa.Parameter
	for _, p := range fn.Params[1:] {
		if _, ok := p.Type().Underlying().(*types.Slice); ok {
			valP = p
		}
	}
	var bad []string
	var upd []*ssa.MapUpdate
	for _, b := range fn.Blocks {
		for _, ins := range b.Instrs {
			switch x := ins.(type) {
			case *ssa.FieldAddr:
				if x.X == ssa.Value(recv) && fieldID(x) != "P0.StorageChanges.changes" {
					bad = append(bad, "reads or writes "+fieldID(x)+" at "+w.pos(x.Pos())+": whether a value is recorded for this call then depends on state that is not this call's list (e.g. what another call journaled last)")
				}
			case *ssa.MapUpdate:
				upd = append(upd, x)
			case *ssa.UnOp:
				if x.Op == token.MUL {
					if g, ok := x.X.(*ssa.Global); ok {
						bad = append(bad, "reads the package-level variable "+g.Name())
					}
				}
			}
		}
	}
	if len(upd) == 0 {
		bad = append(bad, "no update of the per-call map")
	}
	// the value stored last is append(<this call's list>, newVal)
	okAppend := false
	for _, u := range upd {
		c, ok := u.Value.(*ssa.Call)
		if !ok {
			continue
		}
		bi, ok := c.Call.Value.(*ssa.Builtin)
		if !ok || bi.Name() != "append" || len(c.Call.Args) != 2 {
			continue
		}
		// appended element: a one-element slice literal holding newVal
		holds := false
		if sl, ok := c.Call.Args[1].(*ssa.Slice); ok {
			if al, ok := sl.X.(*ssa.Alloc); ok {
				for _, rf := range *al.Referrers() {
					if ia, ok := rf.(*ssa.IndexAddr); ok {
						for _, r2 := range *ia.Referrers() {
							if st, ok := r2.(*ssa.Store); ok && st.Val == ssa.Value(valP) {
								holds = true
							}
						}
					}
				}
			}
		}
		// base list: derives only from Lookup(changes, callIdx) / fresh makes
		base := true
		var walk func(v ssa.Value, d int)
		walk = func(v ssa.Value, d int) {
			if d == 0 {
				base = false
				return
			}
			switch y := v.(type) {
			case *ssa.Extract:
				walk(y.Tuple, d-1)
			case *ssa.Lookup:
				if y.Index != ssa.Value(idx) {
					base = false
				}
			case *ssa.MakeSlice, *ssa.Const:
			case *ssa.Phi:
				for _, e := range y.Edges {
					walk(e, d-1)
				}
			default:
				base = false
			}
		}
		walk(c.Call.Args[0], 6)
		if holds && base {
			okAppend = true
		}
	}
	if !okAppend && len(upd) > 0 {
		bad = append(bad, "the stored list is not append(<the list found under this call index>, the new value)")
	}
	if len(bad) > 0 {
		r.violated(rule, key, w.pos(fn.Pos()), strings.Join(bad, "; "))
	} else {
		r.holds(rule, key, w.pos(fn.Pos()), "reads only changes[callIdx] and the new value; stores append(changes[callIdx], newVal) under callIdx")
	}
	// the only reason not to record a value: this call's list is non-empty and its last element equals the
	// new value. Every condition that controls a return without an update must be of one of these forms:
	// presence of the list (comma-ok), a length test of the list of values ([][]byte), or
	// bytes.Equal(<element of that list>, newVal).
	{
		hasUpdate := map[*ssa.BasicBlock]bool{}
		for _, u := range upd {
			hasUpdate[u.Block()] = true
		}
		isListOfValues := func(v ssa.Value) bool {
			sl, ok := v.Type().Underlying().(*types.Slice)
			if !ok {
				return false
			}
			_, inner := sl.Elem().Underlying().(*types.Slice)
			return inner
		}
		var condBad []string
		var okCondFor func(c ssa.Value, valP ssa.Value, depth int) bool
		okCond := func(c ssa.Value) bool { return okCondFor(c, valP, 0) }
		okCondFor = func(c ssa.Value, valP ssa.Value, depth int) bool {
			for {
				if u, ok := c.(*ssa.UnOp); ok && u.Op == token.NOT {
					c = u.X
					continue
				}
				break
			}
			switch x := c.(type) {
			case *ssa.Extract:
				_, isLk := x.Tuple.(*ssa.Lookup)
				return isLk && x.Index == 1
			case *ssa.BinOp:
				var fromLen func(v ssa.Value, d int) bool
				fromLen = func(v ssa.Value, d int) bool {
					if d == 0 {
						return false
					}
					switch y := v.(type) {
					case *ssa.Call:
						if bi, ok := y.Call.Value.(*ssa.Builtin); ok && bi.Name() == "len" && isListOfValues(y.Call.Args[0]) {
							return true
						}
					case *ssa.BinOp:
						if y.Op == token.ADD || y.Op == token.SUB {
							_, kx := y.X.(*ssa.Const)
							_, ky := y.Y.(*ssa.Const)
							return (ky && fromLen(y.X, d-1)) || (kx && fromLen(y.Y, d-1))
						}
					case *ssa.Convert:
						return fromLen(y.X, d-1)
					}
					return false
				}
				_, kx := x.X.(*ssa.Const)
				_, ky := x.Y.(*ssa.Const)
				return (fromLen(x.X, 4) && (ky || fromLen(x.Y, 4))) || (fromLen(x.Y, 4) && kx)
			case *ssa.Call:
				cal := x.Call.StaticCallee()
				// a fork helper deciding from the list of values and the new value alone: every decision and every
				// result of the helper is itself of the accepted vocabulary over its parameters
				if cal != nil && isForkPkg(cal.Pkg) && cal.Blocks != nil && depth < 2 && len(x.Call.Args) == len(cal.Params) {
					var hv ssa.Value
					for i, a := range x.Call.Args {
						switch {
						case a == valP:
							hv = cal.Params[i]
						case isListOfValues(a):
						default:
							return false
						}
					}
					if hv == nil {
						return false
					}
					var okRes func(v ssa.Value, seen map[ssa.Value]bool) bool
					okRes = func(v ssa.Value, seen map[ssa.Value]bool) bool {
						if seen[v] {
							return true
						}
						seen[v] = true
						switch y := v.(type) {
						case *ssa.Const:
							return true
						case *ssa.Phi:
							for _, e := range y.Edges {
								if !okRes(e, seen) {
									return false
								}
							}
							return true
						}
						return okCondFor(v, hv, depth+1)
					}
					for _, hb := range cal.Blocks {
						switch t := hb.Instrs[len(hb.Instrs)-1].(type) {
						case *ssa.If:
							if !okCondFor(t.Cond, hv, depth+1) {
								return false
							}
						case *ssa.Return:
							if len(t.Results) != 1 || !okRes(t.Results[0], map[ssa.Value]bool{}) {
								return false
							}
						}
						for _, ins := range hb.Instrs {
							switch ins.(type) {
							case *ssa.Store, *ssa.MapUpdate, *ssa.Go, *ssa.Defer, *ssa.Send:
								return false
							}
						}
					}
					return true
				}
				if cal == nil || normPath(cal.String()) != "bytes.Equal" || len(x.Call.Args) != 2 {
					return false
				}
				a, b := x.Call.Args[0], x.Call.Args[1]
				if b != ssa.Value(valP) {
					a, b = b, a
				}
				if b != ssa.Value(valP) {
					return false
				}
				if ld, ok := a.(*ssa.UnOp); ok && ld.Op == token.MUL {
					if ia, ok := ld.X.(*ssa.IndexAddr); ok && isListOfValues(ia.X) {
						return true
					}
				}
				return false
			}
			return false
		}
		for _, b := range fn.Blocks {
			if _, isRet := b.Instrs[len(b.Instrs)-1].(*ssa.Return); !isRet {
				continue
			}
			// a skip return: not dominated by (and not containing) an update
			skip := !hasUpdate[b]
			for ub := range hasUpdate {
				if ub.Dominates(b) {
					skip = false
				}
			}
			if !skip {
				continue
			}
			for d := b; d != nil; d = d.Idom() {
				p := d.Idom()
				if p == nil {
					break
				}
				if iff, ok := p.Instrs[len(p.Instrs)-1].(*ssa.If); ok && len(p.Succs) == 2 && p.Succs[0] != p.Succs[1] {
					// only conditions that actually separate this block from the other branch
					if (p.Succs[0] == d || p.Succs[0].Dominates(d)) != (p.Succs[1] == d || p.Succs[1].Dominates(d)) {
						if !okCond(iff.Cond) {
							condBad = append(condBad, "the return without recording at "+w.pos(b.Instrs[len(b.Instrs)-1].Pos())+" is controlled by `"+iff.Cond.String()+"`, which is neither the presence/length of this call's list of values nor bytes.Equal(its last element, the new value)")
						}
					}
				}
			}
		}
		k2 := key + "/skip-condition"
		if len(condBad) > 0 {
			r.violated(rule, k2, w.pos(fn.Pos()), strings.Join(dedup(condBad), "; ")+" — e.g. testing the length of a value confuses an empty value (a zero balance) with an absent one")
		} else {
			r.holds(rule, k2, w.pos(fn.Pos()), "a value is dropped only under presence/length tests of this call's list and bytes.Equal(last element, new value)")
		}
	}
	// the journal call is made on every (successful) path of the functions above it
	type hop struct {
		rel, callee string
		succOnly    bool
	}
	for _, h := range []hop{{"(*StorageKey).JournalChanges", "append", false}, {"(*StateChanges).saveChange", "JournalChanges", true}} {
		f := w.Func(vm, h.rel)
		k := "vm." + h.rel + "/always->" + h.callee
		if f == nil {
			r.undecided(rule, k, "-", "function not found")
			continue
		}
		var counts func(*ssa.Return) bool
		if h.succOnly {
			counts = nilErrorReturn
		}
		leak := mustCallBeforeReturn(f, func(c ssa.CallInstruction) bool {
			cal := c.Common().StaticCallee()
			return cal != nil && cal.Name() == h.callee && isForkPkg(cal.Pkg)
		}, counts)
		if leak != nil {
			r.violated(rule, k, w.pos(leak.Pos()), "a path returns (successfully) without journaling the value: an entry of the chronological sequence is dropped by a condition outside the per-call list")
		} else {
			r.holds(rule, k, w.pos(f.Pos()), "every successful path passes the journal call")
		}
	}
	r.need(rule, 3)
}


// addFindKeyPurityRule: the flat-index look-up is a pure function of the index and its arguments: it
// stores nothing, touches no receiver state other than the index, and every level of the look-up is
// keyed by one of its own parameters (account first) — a memo of "the last key found" that leaves out
// one of the coordinates would hand one account's (or slot's) record to another.
func addFindKeyPurityRule(w *World, r *Report, rule string) {
	fn := w.Func(forkPath(pkVM), "(*StateChanges).findKey")
	key := "vm.(*StateChanges).findKey"
	if fn == nil || len(fn.Params) < 2 {
		r.undecided(rule, key, "-", "function not found")
		return
	}
	recv := fn.Params[0]
	var bad []string
	nLookups := 0
	keyed := map[*ssa.Parameter]bool{}
	for _, b := range fn.Blocks {
		for _, ins := range b.Instrs {
			switch x := ins.(type) {
			case *ssa.Store, *ssa.MapUpdate:
				bad = append(bad, "modifies state at "+w.pos(ins.Pos()))
			case *ssa.FieldAddr:
				if x.X == ssa.Value(recv) && fieldID(x) != "P0.StateChanges.index" {
					bad = append(bad, "touches "+fieldID(x)+" at "+w.pos(x.Pos()))
				}
			case *ssa.Lookup:
				nLookups++
				idx := x.Index
				if u, ok := idx.(*ssa.UnOp); ok && u.Op == token.MUL {
					idx = u.X
				}
				if p, ok := idx.(*ssa.Parameter); ok {
					keyed[p] = true
				} else {
					bad = append(bad, "a level of the index is looked up under a key that is not one of the function's parameters at "+w.pos(x.Pos()))
				}
			case ssa.CallInstruction:
				if _, isBuiltin := x.Common().Value.(*ssa.Builtin); !isBuiltin {
					bad = append(bad, "calls "+x.Common().String()+" at "+w.pos(ins.Pos()))
				}
			}
		}
	}
	for _, p := range fn.Params[1:] {
		if !keyed[p] {
			bad = append(bad, "parameter "+p.Name()+" ("+p.Type().String()+") keys no level of the look-up")
		}
	}
	// every returned node comes out of the look-up chain (or is nil)
	for _, b := range fn.Blocks {
		if ret, ok := b.Instrs[len(b.Instrs)-1].(*ssa.Return); ok && len(ret.Results) == 1 {
			switch v := ret.Results[0].(type) {
			case *ssa.Const:
			case *ssa.Lookup:
			case *ssa.Extract:
				if _, ok := v.Tuple.(*ssa.Lookup); !ok {
					bad = append(bad, "returns a value that is not the result of the index look-up at "+w.pos(ret.Pos()))
				}
			default:
				bad = append(bad, "returns a value that is not the result of the index look-up at "+w.pos(ret.Pos()))
			}
		}
	}
	if len(bad) > 0 {
		r.violated(rule, key, w.pos(fn.Pos()), strings.Join(dedup(bad), "; "))
	} else {
		r.holds(rule, key, w.pos(fn.Pos()), fmt.Sprintf("%d look-ups, each keyed by a parameter; all %d coordinates used; no store, no other state", nLookups, len(fn.Params)-1))
	}
	r.need(rule, 1)
}


// addSaveChangeLookupRule: in saveChange the node that receives the journal entry is the result of
// findKey called with the function's own account, slot and type id (and the offset read from its own
// offset operand) — not a node remembered from an earlier journal.
func addSaveChangeLookupRule(w *World, r *Report, rule string) {
	fn := w.Func(forkPath(pkVM), "(*StateChanges).saveChange")
	key := "vm.(*StateChanges).saveChange/record"
	if fn == nil || len(fn.Params) != 7 {
		r.undecided(rule, key, "-", "saveChange(account, self, offset, typeId, callIdx, newVal) not found with that shape")
		return
	}
	// positions: 0 recv, 1 account, 2 self, 3 offset, 4 typeId, 5 callIdx, 6 newVal
	n := 0
	var bad []string
	for _, b := range fn.Blocks {
		for _, ins := range b.Instrs {
			c, ok := ins.(*ssa.Call)
			if !ok {
				continue
			}
			cal := c.Call.StaticCallee()
			if cal == nil || cal.Name() != "JournalChanges" || len(c.Call.Args) < 1 {
				continue
			}
			n++
			fk, ok := c.Call.Args[0].(*ssa.Call)
			if !ok || fk.Call.StaticCallee() == nil || fk.Call.StaticCallee().Name() != "findKey" || len(fk.Call.Args) != 5 {
				bad = append(bad, "the node journaled at "+w.pos(c.Pos())+" is not (on every path) the result of a findKey look-up made by this call: "+rootDesc(c.Call.Args[0]))
				continue
			}
			if fk.Call.Args[1] != ssa.Value(fn.Params[1]) || fk.Call.Args[2] != ssa.Value(fn.Params[2]) || fk.Call.Args[4] != ssa.Value(fn.Params[4]) {
				bad = append(bad, "the look-up at "+w.pos(fk.Pos())+" is not made under this call's own account, slot and type id")
			}
			roots := map[*ssa.Parameter]bool{}
			paramRoots(fk.Call.Args[3], roots, map[ssa.Value]bool{}, 10)
			for p := range roots {
				if p != fn.Params[3] {
					bad = append(bad, "the offset of the look-up is computed from "+p.Name())
				}
			}
		}
	}
	if n != 1 {
		bad = append(bad, fmt.Sprintf("expected exactly one JournalChanges call, found %d", n))
	}
	if len(bad) > 0 {
		r.violated(rule, key, w.pos(fn.Pos()), strings.Join(bad, "; "))
	} else {
		r.holds(rule, key, w.pos(fn.Pos()), "JournalChanges(findKey(account, self, offset-of-this-call, typeId))")
	}
	r.need(rule, 1)
}


// addMonotoneIndexRule: journal lists are keyed by the call index for the whole life of the recorder, so
// an index is never handed out twice: every store to CallTree.count outside the constructor is
// load(count)+1 — the counter is never set back (not even together with a fresh lookup table, which
// would keep the call tree itself consistent but make a later top-level call share index 0.. with an
// earlier one in every per-call list).
func addMonotoneIndexRule(w *World, r *Report, rule string) {
	n := 0
	var bad []string
	for _, top := range w.Funcs(forkPath(pkVM)) {
		for _, fn := range withAnon(top) {
			for _, b := range fn.Blocks {
				for _, ins := range b.Instrs {
					st, ok := ins.(*ssa.Store)
					if !ok {
						continue
					}
					fa, ok := st.Addr.(*ssa.FieldAddr)
					if !ok || fieldID(fa) != "P0.CallTree.count" {
						continue
					}
					if _, isAlloc := fa.X.(*ssa.Alloc); isAlloc {
						continue
					}
					n++
					okInc := false
					if bo, isBo := st.Val.(*ssa.BinOp); isBo && bo.Op == token.ADD {
						if _, _, isLoad := loadOfField(bo.X, "count"); isLoad {
							if k, isK := bo.Y.(*ssa.Const); isK && k.Value != nil && k.Value.ExactString() == "1" {
								okInc = true
							}
						}
					}
					if !okInc {
						bad = append(bad, relName(fn)+" stores "+st.Val.String()+" into the call counter at "+w.pos(st.Pos()))
					}
				}
			}
		}
	}
	key := "vm.CallTree.count/monotone"
	switch {
	case len(bad) > 0:
		r.violated(rule, key, "-", strings.Join(bad, "; ")+": call indices would be handed out again and entries of different calls would share a per-call list")
	case n == 0:
		r.undecided(rule, key, "-", "no store to the call counter found: the rule's anchor does not resolve")
	default:
		r.holds(rule, key, "-", fmt.Sprintf("%d store(s) to the call counter, each load(count)+1", n))
	}
	r.need(rule, 1)
}


// nilDataResult: the value is the nil byte slice — literally, or as result 0 of a fork helper all of
// whose returns hand back nil data (an instruction may end in `return helper(...)`).
func nilDataResult(v ssa.Value, seen map[*ssa.Function]bool) bool {
	if c, ok := v.(*ssa.Const); ok {
		return c.Value == nil
	}
	if phi, ok := v.(*ssa.Phi); ok {
		for _, e := range phi.Edges {
			if !nilDataResult(e, seen) {
				return false
			}
		}
		return true
	}
	ex, ok := v.(*ssa.Extract)
	if !ok || ex.Index != 0 {
		return false
	}
	c, ok := ex.Tuple.(*ssa.Call)
	if !ok {
		return false
	}
	f := c.Call.StaticCallee()
	if f == nil || !isForkPkg(f.Pkg) || f.Blocks == nil || seen[f] {
		return false
	}
	seen[f] = true
	for _, b := range f.Blocks {
		if ret, ok := b.Instrs[len(b.Instrs)-1].(*ssa.Return); ok {
			if len(ret.Results) == 0 || !nilDataResult(ret.Results[0], seen) {
				return false
			}
		}
	}
	return true
}

// memViewsOnlyRead: every result of Memory.GetPtr in the journal family of fn (a slice sharing the
// contract's memory) is only read: sliced, indexed for loading, measured, or handed as the source to a
// reader (uint256 SetBytes*, copy, append's variadic operand, conversion to string). It is never stored,
// returned, captured, written through or passed to anything else.
func memViewsOnlyRead(fn *ssa.Function) bool {
	var readOnly func(v ssa.Value, depth int) bool
	readOnly = func(v ssa.Value, depth int) bool {
		if depth > 6 || v.Referrers() == nil {
			return depth <= 6
		}
		for _, r := range *v.Referrers() {
			switch x := r.(type) {
			case *ssa.DebugRef:
			case *ssa.Slice:
				if x.X != v || !readOnly(x, depth+1) {
					return false
				}
			case *ssa.IndexAddr:
				for _, r2 := range *x.Referrers() {
					if u, ok := r2.(*ssa.UnOp); !ok || u.Op != token.MUL {
						if _, dbg := r2.(*ssa.DebugRef); !dbg {
							return false
						}
					}
				}
			case *ssa.Convert:
				if b, ok := x.Type().Underlying().(*types.Basic); !ok || b.Info()&types.IsString == 0 {
					return false
				}
			case *ssa.Call:
				if bi, ok := x.Call.Value.(*ssa.Builtin); ok {
					switch bi.Name() {
					case "len", "cap":
					case "copy", "append":
						if len(x.Call.Args) != 2 || x.Call.Args[1] != v || x.Call.Args[0] == v {
							return false
						}
					default:
						return false
					}
					continue
				}
				cal := x.Call.StaticCallee()
				if cal == nil || cal.Signature.Recv() == nil || !isBignumPtr(cal.Signature.Recv().Type()) || !strings.HasPrefix(cal.Name(), "SetBytes") {
					return false
				}
				if len(x.Call.Args) < 2 || x.Call.Args[0] == v {
					return false
				}
			default:
				return false
			}
		}
		return true
	}
	for _, f2 := range journalFamilyFuncs(fn) {
		for _, b := range f2.Blocks {
			for _, ins := range b.Instrs {
				c, ok := ins.(*ssa.Call)
				if !ok {
					continue
				}
				if cal := c.Call.StaticCallee(); cal != nil && cal.Name() == "GetPtr" && cal.Signature.Recv() != nil && typeBaseName(cal.Signature.Recv().Type()) == "Memory" {
					if !readOnly(c, 0) {
						return false
					}
				}
			}
		}
	}
	return true
}
