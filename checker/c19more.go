package main

import (
	"fmt"
	"go/token"
	"go/types"

	"golang.org/x/tools/go/ssa"
)

// Seventh batch, C19.
//
// R19.11 an Aspect frame is entered with the data of its own event. callTracer.CaptureAspectEnter builds the
// frame it appends from its arguments; it reads no aspectCallFrame (or callFrame) *value* out of the trace
// built so far. A frame copied from the previous one ("same join point, same context, skip the encoding")
// carries that frame's Calls (sharing the backing array), Error, RevertReason and Output into the new one.
//
// R19.12 the outcome of an Aspect frame is recorded as reported. In aspectCallFrame.processOutput every path
// to a return has stored the (copied) output into f.Output, unless it passed the test that the output is
// empty; and every path with a non-nil error has stored f.Error. A condition borrowed from the EVM frames
// ("only for ErrExecutionReverted") drops the output of every failed Aspect, whose errors are never that value.
func addAspectFrameRules(w *World, r *Report, ruleEnter, ruleOutcome string) {
	nat := forkPath(pkNative)
	// ---- R19.11
	if fn := w.Func(nat, "(*callTracer).CaptureAspectEnter"); fn == nil {
		r.undecided(ruleEnter, "tracers/native.(*callTracer).CaptureAspectEnter", "-", "function not found")
	} else {
		isFrame := func(t types.Type) bool {
			if n, ok := t.(*types.Named); ok && n.Obj().Pkg() != nil && n.Obj().Pkg().Path() == nat {
				return n.Obj().Name() == "aspectCallFrame" || n.Obj().Name() == "callFrame"
			}
			return false
		}
		var bad []string
		pos := fn.Pos()
		for _, f2 := range withAnon(fn) {
			for _, b := range f2.Blocks {
				for _, ins := range b.Instrs {
					ld, ok := ins.(*ssa.UnOp)
					if !ok || ld.Op != token.MUL || !isFrame(ld.Type()) {
						continue
					}
					// a load of the local under construction (to append it) is fine; a load through the trace is not
					if _, isLocal := ld.X.(*ssa.Alloc); isLocal {
						continue
					}
					bad = append(bad, "a whole "+ld.Type().(*types.Named).Obj().Name()+" is read from the trace at "+w.pos(ld.Pos()))
					pos = ld.Pos()
				}
			}
		}
		key := "tracers/native.(*callTracer).CaptureAspectEnter/frame-from-arguments"
		if len(bad) > 0 {
			r.violated(ruleEnter, key, w.pos(pos), "the Aspect frame entered is not built from this event's arguments alone: "+bad[0]+" — a copied frame carries the earlier Aspect's calls, error and output")
		} else {
			r.holds(ruleEnter, key, w.pos(pos), "no frame value is read from the trace built so far: the appended frame consists of this event's arguments")
		}
	}
	// ---- R19.12
	fn := w.Func(nat, "(*aspectCallFrame).processOutput")
	key := "tracers/native.(*aspectCallFrame).processOutput"
	if fn == nil || len(fn.Params) < 3 {
		r.undecided(ruleOutcome, key, "-", "function not found")
		return
	}
	recv, outP, errP := fn.Params[0], fn.Params[1], fn.Params[2]
	// values that are the output or its copy
	isOutput := func(v ssa.Value) bool {
		if v == ssa.Value(outP) {
			return true
		}
		if c, ok := v.(*ssa.Call); ok && len(c.Call.Args) == 1 && c.Call.Args[0] == ssa.Value(outP) {
			if cal := c.Call.StaticCallee(); cal != nil && cal.Name() == "CopyBytes" {
				return true
			}
		}
		return false
	}
	storesField := func(ins ssa.Instruction, name string) (ssa.Value, bool) {
		st, ok := ins.(*ssa.Store)
		if !ok {
			return nil, false
		}
		fa, ok := st.Addr.(*ssa.FieldAddr)
		if !ok || fa.X != ssa.Value(recv) {
			return nil, false
		}
		if fa.X.Type().Underlying().(*types.Pointer).Elem().Underlying().(*types.Struct).Field(fa.Field).Name() != name {
			return nil, false
		}
		return st.Val, true
	}
	type finding struct{ msg, pos string }
	seen := map[string]finding{}
	npaths := 0
	ok := enumPaths(fn, 4096, func(path []*ssa.BasicBlock) {
		npaths++
		outStored, errStored, emptyProven, errNil := false, false, false, false
		for i, b := range path {
			for _, ins := range b.Instrs {
				if v, ok := storesField(ins, "Output"); ok && isOutput(v) {
					outStored = true
				}
				if _, ok := storesField(ins, "Error"); ok {
					errStored = true
				}
			}
			if i+1 >= len(path) {
				continue
			}
			iff, ok := b.Instrs[len(b.Instrs)-1].(*ssa.If)
			if !ok {
				continue
			}
			onTrue := path[i+1] == b.Succs[0]
			bo, ok := iff.Cond.(*ssa.BinOp)
			if !ok {
				continue
			}
			// len(output) == 0 / != 0
			if c, isCall := bo.X.(*ssa.Call); isCall {
				if bi, isB := c.Call.Value.(*ssa.Builtin); isB && bi.Name() == "len" && isOutput(c.Call.Args[0]) {
					if k, isK := bo.Y.(*ssa.Const); isK && k.Value != nil && k.Value.ExactString() == "0" {
						if bo.Op == token.EQL && onTrue || bo.Op == token.NEQ && !onTrue {
							emptyProven = true
						}
					}
				}
			}
			// err == nil / != nil
			if bo.X == ssa.Value(errP) {
				if k, isK := bo.Y.(*ssa.Const); isK && k.Value == nil {
					if bo.Op == token.EQL && onTrue || bo.Op == token.NEQ && !onTrue {
						errNil = true
					}
				}
			}
		}
		last := path[len(path)-1]
		ret := last.Instrs[len(last.Instrs)-1]
		if !outStored && !emptyProven {
			seen["output"] = finding{"a path returns (" + w.pos(ret.Pos()) + ") without having stored the output into the frame although the output was not found empty on that path: what the Aspect returned is dropped under some other condition", w.pos(ret.Pos())}
		}
		if !errNil && !errStored {
			seen["error"] = finding{"a path with a possibly non-nil error returns (" + w.pos(ret.Pos()) + ") without having stored the error text into the frame", w.pos(ret.Pos())}
		}
	})
	if !ok {
		r.undecided(ruleOutcome, key, w.pos(fn.Pos()), "too many paths")
		return
	}
	if len(seen) == 0 {
		r.holds(ruleOutcome, key, w.pos(fn.Pos()), fmt.Sprintf("%d paths: each stores the output unless it found it empty, and stores the error text unless the error is nil", npaths))
	}
	for _, k := range []string{"error", "output"} {
		if f, ok := seen[k]; ok {
			r.violated(ruleOutcome, key+"/"+k, f.pos, f.msg)
		}
	}
}
