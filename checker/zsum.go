package main

// Zero-state summaries of fork helpers (conditional constant propagation over SSA). Without Aspect state
// every fork-only field holds its zero value; a fork helper called with such values (or reading such
// fields) often does nothing: its loops make zero trips and it hands its arguments back. The summary is
// computed by following the one feasible path of the helper's SSA under these assumptions:
//   - a parameter listed as zero-valued, and every load of a fork-only field, is the zero value of its type;
//   - len/cap of a zero slice is 0; integer arithmetic and comparisons on known constants are evaluated;
//     `x == nil` / `x != nil` on a known nil is evaluated;
//   - a branch whose condition is not known, and any instruction with an effect (store, call of anything
//     but len/cap/append-free builtins, map update, send, go, defer, panic) on the feasible path, makes
//     the summary unavailable (the helper is then judged by its full effects as before).
// The result: for every returned value whether it is a given parameter, a known constant, or unknown.

import (
	"go/constant"
	"go/token"
	"go/types"

	"golang.org/x/tools/go/ssa"
)

type zsVal struct {
	kind  string // "param", "int", "nil", "bool", "zero", "unknown"
	param int
	n     int64
	b     bool
}

type zsSummary struct {
	results []zsVal
}

var zsMemo = map[string]*zsSummary{}

// zeroStateSummary: fn's summary when the parameters in zeroParams are zero-valued.
func (w *World) zeroStateSummary(fn *ssa.Function, zeroParams map[int]bool, fo *ForkOnly) *zsSummary {
	if fn == nil || fn.Blocks == nil {
		return nil
	}
	key := fn.String() + "|"
	for i := range fn.Params {
		if zeroParams[i] {
			key += "z"
		} else {
			key += "-"
		}
	}
	if s, ok := zsMemo[key]; ok {
		return s
	}
	zsMemo[key] = nil
	unknown := zsVal{kind: "unknown"}
	val := map[ssa.Value]zsVal{}
	for i, p := range fn.Params {
		if zeroParams[i] {
			val[p] = zsVal{kind: "zero"}
		} else {
			val[p] = zsVal{kind: "param", param: i}
		}
	}
	zeroOf := func(t types.Type) zsVal {
		switch u := t.Underlying().(type) {
		case *types.Basic:
			if u.Info()&types.IsInteger != 0 {
				return zsVal{kind: "int", n: 0}
			}
			if u.Info()&types.IsBoolean != 0 {
				return zsVal{kind: "bool", b: false}
			}
		case *types.Pointer, *types.Interface, *types.Map, *types.Chan, *types.Signature:
			return zsVal{kind: "nil"}
		case *types.Slice:
			return zsVal{kind: "zero"}
		}
		return zsVal{kind: "zero"}
	}
	get := func(v ssa.Value) zsVal {
		if c, ok := v.(*ssa.Const); ok {
			if c.Value == nil {
				if _, isSlice := c.Type().Underlying().(*types.Slice); isSlice {
					return zsVal{kind: "zero"}
				}
				return zsVal{kind: "nil"}
			}
			switch c.Value.Kind() {
			case constant.Int:
				if n, ok := constant.Int64Val(c.Value); ok {
					return zsVal{kind: "int", n: n}
				}
			case constant.Bool:
				return zsVal{kind: "bool", b: constant.BoolVal(c.Value)}
			}
			return unknown
		}
		if x, ok := val[v]; ok {
			return x
		}
		return unknown
	}
	b := fn.Blocks[0]
	var prev *ssa.BasicBlock
	for steps := 0; steps < 400; steps++ {
		for _, ins := range b.Instrs {
			switch x := ins.(type) {
			case *ssa.Phi:
				for i, p := range b.Preds {
					if p == prev {
						val[x] = get(x.Edges[i])
					}
				}
			case *ssa.DebugRef:
			case *ssa.FieldAddr, *ssa.IndexAddr, *ssa.Alloc, *ssa.MakeInterface, *ssa.ChangeType, *ssa.Convert, *ssa.Slice, *ssa.Extract, *ssa.Field, *ssa.ChangeInterface, *ssa.MakeSlice, *ssa.MakeMap, *ssa.Lookup, *ssa.TypeAssert, *ssa.Range, *ssa.Next:
				// pure value computations: unknown unless handled below
				if fa, ok := ins.(*ssa.FieldAddr); ok {
					_ = fa
				}
			case *ssa.UnOp:
				switch x.Op {
				case token.MUL:
					// a load: the zero value when it reads a fork-only field
					if fa, ok := x.X.(*ssa.FieldAddr); ok && fo != nil {
						if st, ok := derefStruct(fa.X.Type()); ok && fa.Field < st.NumFields() && fo.Fields[st.Field(fa.Field)] {
							val[x] = zeroOf(x.Type())
						}
					}
				case token.NOT:
					if a := get(x.X); a.kind == "bool" {
						val[x] = zsVal{kind: "bool", b: !a.b}
					}
				case token.SUB:
					if a := get(x.X); a.kind == "int" {
						val[x] = zsVal{kind: "int", n: -a.n}
					}
				}
			case *ssa.BinOp:
				l, r := get(x.X), get(x.Y)
				switch {
				case l.kind == "int" && r.kind == "int":
					switch x.Op {
					case token.ADD:
						val[x] = zsVal{kind: "int", n: l.n + r.n}
					case token.SUB:
						val[x] = zsVal{kind: "int", n: l.n - r.n}
					case token.MUL:
						val[x] = zsVal{kind: "int", n: l.n * r.n}
					case token.LSS:
						val[x] = zsVal{kind: "bool", b: l.n < r.n}
					case token.LEQ:
						val[x] = zsVal{kind: "bool", b: l.n <= r.n}
					case token.GTR:
						val[x] = zsVal{kind: "bool", b: l.n > r.n}
					case token.GEQ:
						val[x] = zsVal{kind: "bool", b: l.n >= r.n}
					case token.EQL:
						val[x] = zsVal{kind: "bool", b: l.n == r.n}
					case token.NEQ:
						val[x] = zsVal{kind: "bool", b: l.n != r.n}
					}
				case l.kind == "nil" && r.kind == "nil" && (x.Op == token.EQL || x.Op == token.NEQ):
					val[x] = zsVal{kind: "bool", b: x.Op == token.EQL}
				case l.kind == "bool" && r.kind == "bool" && (x.Op == token.EQL || x.Op == token.NEQ):
					val[x] = zsVal{kind: "bool", b: (l.b == r.b) == (x.Op == token.EQL)}
				}
			case *ssa.Call:
				bi, isB := x.Call.Value.(*ssa.Builtin)
				if !isB {
					return nil // a call on the feasible path: effects unknown here
				}
				switch bi.Name() {
				case "len", "cap":
					if a := get(x.Call.Args[0]); a.kind == "zero" {
						val[x] = zsVal{kind: "int", n: 0}
					}
				case "append":
					// append(s, zero...) is s when the appended slice is the zero slice
					if len(x.Call.Args) == 2 {
						if a := get(x.Call.Args[1]); a.kind == "zero" {
							val[x] = get(x.Call.Args[0])
						}
					}
				case "min", "max", "new", "make":
				default:
					return nil
				}
			case *ssa.If:
				c := get(x.Cond)
				if c.kind != "bool" {
					return nil
				}
				prev = b
				if c.b {
					b = b.Succs[0]
				} else {
					b = b.Succs[1]
				}
			case *ssa.Jump:
				prev = b
				b = b.Succs[0]
			case *ssa.Return:
				s := &zsSummary{}
				for _, rv := range x.Results {
					s.results = append(s.results, get(rv))
				}
				zsMemo[key] = s
				return s
			default:
				return nil // store, map update, send, go, defer, panic, select, …: an effect on the feasible path
			}
		}
	}
	return nil
}

func derefStruct(t types.Type) (*types.Struct, bool) {
	if p, ok := t.Underlying().(*types.Pointer); ok {
		t = p.Elem()
	}
	st, ok := t.Underlying().(*types.Struct)
	return st, ok
}
