package main

import (
	"fmt"
	"go/types"

	"golang.org/x/tools/go/ssa"
)

// R12.8 no error is swallowed in a journal instruction. "A journal instruction with malformed operands halts
// the frame" needs every error that the operand decoder (loadDataFromMem) or the recorder reports to reach
// the instruction's error result. Rule (SSA def-use): in each of the eight execute functions and their
// closures, the error component of every call that has one flows — directly or through phis — into a
// return statement of that function. An error that is only tested (`if …; err == nil { … }` on a shadowed
// variable) and then dropped lets the frame run on with the operands popped.
func addNoSwallowedErrorRule(w *World, r *Report, rule string) {
	errT := types.Universe.Lookup("error").Type()
	n := 0
	for _, js := range w.journalSlots() {
		top := w.Func(forkPath(pkVM), js.execute)
		if top == nil {
			r.undecided(rule, fmt.Sprintf("slot 0x%02x %s", js.slot, js.execute), "-", "execute function not resolved")
			continue
		}
		for _, fn := range withAnon(top) {
			ord := 0
			for _, b := range fn.Blocks {
				for _, ins := range b.Instrs {
					c, ok := ins.(*ssa.Call)
					if !ok {
						continue
					}
					res := c.Call.Signature().Results()
					ei := -1
					for i := 0; i < res.Len(); i++ {
						if types.Identical(res.At(i).Type(), errT) {
							ei = i
						}
					}
					if ei < 0 {
						continue
					}
					// errors of the fork's own decoder, recorder and helpers; the Keccak state's Write/Read (which
					// cannot fail and are ignored by the reference's KECCAK256 as well) and other external calls are
					// not operand or recorder refusals
					if cal := c.Call.StaticCallee(); cal == nil || cal.Pkg == nil && cal.Parent() == nil || cal.Pkg != nil && !isForkPkg(cal.Pkg) {
						continue
					}
					ord++
					n++
					key := fmt.Sprintf("%s/error-of-call#%d", relName(fn), ord)
					var ev ssa.Value
					if res.Len() == 1 {
						ev = c
					} else {
						for _, ref := range *c.Referrers() {
							if ex, ok := ref.(*ssa.Extract); ok && ex.Index == ei {
								ev = ex
							}
						}
					}
					name := c.Call.String()
					if cal := c.Call.StaticCallee(); cal != nil {
						name = relName(cal)
					}
					if ev == nil {
						r.violated(rule, key, w.pos(c.Pos()), "the error result of "+name+" is discarded: a malformed operand or a refusal of the recorder does not halt the frame")
						continue
					}
					reaches := false
					seen := map[ssa.Value]bool{}
					var walk func(v ssa.Value)
					walk = func(v ssa.Value) {
						if seen[v] || reaches {
							return
						}
						seen[v] = true
						for _, ref := range *v.Referrers() {
							switch x := ref.(type) {
							case *ssa.Return:
								reaches = true
							case *ssa.Phi:
								walk(x)
							case *ssa.Store:
								// a named result or captured variable: accept a store into an Alloc that some return loads
								if al, ok := x.Addr.(*ssa.Alloc); ok && x.Val == v {
									for _, r2 := range *al.Referrers() {
										if ld, ok := r2.(*ssa.UnOp); ok {
											walk(ld)
										}
									}
								}
								if fv, ok := x.Addr.(*ssa.FreeVar); ok && x.Val == v {
									_ = fv
									reaches = true // handed to the enclosing function's variable: checked there
								}
							case *ssa.ChangeInterface:
								walk(x)
							}
						}
					}
					walk(ev)
					if reaches {
						r.holds(rule, key, w.pos(c.Pos()), "the error of "+name+" flows into the instruction's error result")
					} else {
						r.violated(rule, key, w.pos(c.Pos()), "the error of "+name+" never reaches a return statement (it is at most tested and then dropped): a malformed operand or a refusal of the recorder does not halt the frame")
					}
				}
			}
		}
	}
	r.need(rule, 8)
	_ = n
}
