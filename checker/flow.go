package main

// E2: path rules on the control-flow graph of one function (go/cfg + go/types).
// The analysis is path-sensitive over a small set of string facts: a state is a set of facts,
// states are not merged at joins (the functions concerned are small and loop-free where it
// matters). go/cfg keeps `a && b` as one condition node, so each conditional edge is expanded to
// a DNF of literals and the state is forked per disjunct. Literal facts prune infeasible paths:
// a path on which the same (unmodified) condition is taken with both polarities is dropped.

import (
	"go/ast"
	"go/token"
	"go/types"
	"sort"
	"strings"

	"golang.org/x/tools/go/cfg"
	"golang.org/x/tools/go/packages"
	"golang.org/x/tools/go/types/typeutil"
)

type facts map[string]bool

func (f facts) key() string {
	ks := make([]string, 0, len(f))
	for k := range f {
		ks = append(ks, k)
	}
	sort.Strings(ks)
	return strings.Join(ks, "\x00")
}
func (f facts) clone() facts {
	g := make(facts, len(f)+2)
	for k := range f {
		g[k] = true
	}
	return g
}
func (f facts) String() string {
	ks := make([]string, 0, len(f))
	for k := range f {
		ks = append(ks, k)
	}
	sort.Strings(ks)
	return "{" + strings.Join(ks, ", ") + "}"
}

type flit struct {
	e   ast.Expr
	neg bool
}

// dnf of cond under polarity pol: a disjunction of conjunctions of literals.
func dnf(e ast.Expr, pol bool) [][]flit {
	switch x := e.(type) {
	case *ast.ParenExpr:
		return dnf(x.X, pol)
	case *ast.UnaryExpr:
		if x.Op == token.NOT {
			return dnf(x.X, !pol)
		}
	case *ast.BinaryExpr:
		if x.Op == token.LAND || x.Op == token.LOR {
			and := (x.Op == token.LAND) == pol
			l, r := dnf(x.X, pol), dnf(x.Y, pol)
			if and {
				var out [][]flit
				for _, a := range l {
					for _, b := range r {
						out = append(out, append(append([]flit{}, a...), b...))
					}
				}
				return out
			}
			return append(l, r...)
		}
	}
	return [][]flit{{{e, !pol}}}
}

type Flow struct {
	w     *World
	pkg   *packages.Package
	info  *types.Info
	fd    *ast.FuncDecl
	g     *cfg.CFG
	c     *astCanon
	name  string
	tags  map[ast.Expr]ast.Expr
	// statistics
	States int
	Paths  int
}

type flowRule struct {
	// transfer: effect of a non-condition node on the facts (after the generic kill/assign facts)
	transfer func(fl *Flow, f facts, n ast.Node)
	// visit: inspect a node with the facts holding *before* it (used for return / call-site checks)
	visit func(fl *Flow, f facts, n ast.Node)
	// lit: rule-specific facts from a literal taken with the given truth
	lit func(fl *Flow, f facts, e ast.Expr, truth bool)
}

func (w *World) newFlow(pkgPath, rel string) *Flow {
	fd, p := w.FuncDecl(pkgPath, rel)
	if fd == nil || fd.Body == nil {
		return nil
	}
	// calls of forwarding helpers are read as the calls they stand for (forward.go)
	if nl := w.expandForwarding(p, fd.Body.List); len(nl) > 0 && &nl[0] != &fd.Body.List[0] {
		cp := *fd
		cp.Body = &ast.BlockStmt{Lbrace: fd.Body.Lbrace, List: nl, Rbrace: fd.Body.Rbrace}
		fd = &cp
	}
	fl := &Flow{w: w, pkg: p, info: p.TypesInfo, fd: fd, name: rel}
	fl.c = &astCanon{info: p.TypesInfo}
	fl.g = cfg.New(fd.Body, func(call *ast.CallExpr) bool {
		// panic and never-returning helpers terminate a path
		if id, ok := call.Fun.(*ast.Ident); ok {
			if b, ok := p.TypesInfo.Uses[id].(*types.Builtin); ok && b.Name() == "panic" {
				return false
			}
		}
		return true
	})
	return fl
}

func (fl *Flow) canon(e ast.Expr) string { return fl.c.expr(e) }

// switchTag: the tag of the tagged switch that e is a case value of (nil otherwise).
func (fl *Flow) switchTag(e ast.Expr) ast.Expr {
	if fl.tags == nil {
		fl.tags = map[ast.Expr]ast.Expr{}
		ast.Inspect(fl.fd.Body, func(n ast.Node) bool {
			if sw, ok := n.(*ast.SwitchStmt); ok && sw.Tag != nil {
				for _, c := range sw.Body.List {
					for _, v := range c.(*ast.CaseClause).List {
						fl.tags[v] = sw.Tag
					}
				}
			}
			return true
		})
	}
	return fl.tags[e]
}

// callee resolves the called function/method object (nil for dynamic calls through values).
func (fl *Flow) callee(call *ast.CallExpr) types.Object {
	return typeutil.Callee(fl.info, call)
}

// calleeIs: the call's static callee is a method/function with this name whose receiver (if
// recv != "") is the named type or interface recv.
func (fl *Flow) calleeIs(call *ast.CallExpr, recv, name string) bool {
	f, ok := fl.callee(call).(*types.Func)
	if !ok || f.Name() != name {
		return false
	}
	if recv == "" {
		return true
	}
	rt, _ := recvTypeName(f)
	return rt == recv
}

// callsIn returns every call expression inside node n (not descending into function literals).
func callsIn(n ast.Node) []*ast.CallExpr {
	var out []*ast.CallExpr
	ast.Inspect(n, func(x ast.Node) bool {
		switch c := x.(type) {
		case *ast.FuncLit:
			return false
		case *ast.CallExpr:
			out = append(out, c)
		}
		return true
	})
	return out
}

// mentions: does canonical text s mention operand op as a whole token path?
func mentions(s, op string) bool {
	i := 0
	for {
		j := strings.Index(s[i:], op)
		if j < 0 {
			return false
		}
		j += i
		before := j == 0 || !isIdentChar(s[j-1])
		after := j+len(op) >= len(s) || !isIdentChar(s[j+len(op)])
		if before && after {
			return true
		}
		i = j + 1
	}
}

func isIdentChar(b byte) bool {
	return b == '_' || b == '.' && false || (b >= '0' && b <= '9') || (b >= 'a' && b <= 'z') || (b >= 'A' && b <= 'Z')
}

// kill removes every fact that mentions the assigned location.
func (f facts) kill(loc string) {
	for k := range f {
		if (strings.HasPrefix(k, "L:") || strings.HasPrefix(k, "A:")) && mentions(k[2:], loc) {
			delete(f, k)
		}
	}
}

// generic transfer: assignments kill facts about the assigned location and record simple
// value facts "A:<lhs>=<rhs>" for 1:1 assignments of identifiers, selectors, nil and literals.
func (fl *Flow) generic(f facts, n ast.Node) {
	switch x := n.(type) {
	case *ast.AssignStmt:
		var ls []string
		for _, l := range x.Lhs {
			ls = append(ls, fl.canon(l))
		}
		for _, l := range ls {
			if l != "_" {
				f.kill(l)
			}
		}
		if len(x.Lhs) == len(x.Rhs) && (x.Tok == token.ASSIGN || x.Tok == token.DEFINE) {
			for i, l := range ls {
				if l == "_" {
					continue
				}
				switch r := ast.Unparen(x.Rhs[i]).(type) {
				case *ast.Ident, *ast.SelectorExpr, *ast.BasicLit:
					rs := fl.canon(r)
					if !mentions(rs, l) {
						f["A:"+l+"="+rs] = true
						// what rs is known to equal, l now equals too (a local holding X.Err, assigned on to err)
						for k := range f {
							if strings.HasPrefix(k, "A:"+rs+"=") {
								if v := strings.TrimPrefix(k, "A:"+rs+"="); !mentions(v, l) {
									f["A:"+l+"="+v] = true
								}
							}
						}
					}
				}
			}
		}
	case *ast.IncDecStmt:
		f.kill(fl.canon(x.X))
	case *ast.DeclStmt:
		if gd, ok := x.Decl.(*ast.GenDecl); ok {
			for _, sp := range gd.Specs {
				if vs, ok := sp.(*ast.ValueSpec); ok {
					for _, nm := range vs.Names {
						f.kill(nm.Name)
					}
				}
			}
		}
	case *ast.RangeStmt:
		if x.Key != nil {
			f.kill(fl.canon(x.Key))
		}
		if x.Value != nil {
			f.kill(fl.canon(x.Value))
		}
	}
}

// applyLiteral records the literal and reports infeasibility.
func (fl *Flow) applyLiteral(f facts, e ast.Expr, truth bool) bool {
	e = ast.Unparen(e)
	s := fl.canon(e)
	// normalise != to == with flipped truth so that both spellings meet
	if b, ok := e.(*ast.BinaryExpr); ok && b.Op == token.NEQ {
		s = fl.canon(b.X) + " == " + fl.canon(b.Y)
		truth = !truth
	}
	pos, neg := "L:"+s+"=T", "L:"+s+"=F"
	if truth {
		if f[neg] {
			return false
		}
		f[pos] = true
	} else {
		if f[pos] {
			return false
		}
		f[neg] = true
	}
	// equality literal against assignment facts: after x = v, `x == r` has the truth of `v == r`
	if b, ok := e.(*ast.BinaryExpr); ok && (b.Op == token.EQL || b.Op == token.NEQ) {
		l, r := fl.canon(b.X), fl.canon(b.Y)
		// ... and a literal learnt about x is learnt about v as well
		for k := range f {
			if strings.HasPrefix(k, "A:"+l+"=") {
				v := strings.TrimPrefix(k, "A:"+l+"=")
				vp, vn := "L:"+v+" == "+r+"=T", "L:"+v+" == "+r+"=F"
				if truth && !f[vn] {
					f[vp] = true
				} else if !truth && !f[vp] {
					f[vn] = true
				}
			}
		}
		if f["A:"+l+"="+r] && !truth {
			return false
		}
		for k := range f {
			if !strings.HasPrefix(k, "A:"+l+"=") {
				continue
			}
			v := strings.TrimPrefix(k, "A:"+l+"=")
			if v == r {
				continue
			}
			if (f["L:"+v+" == "+r+"=T"] && !truth) || (f["L:"+v+" == "+r+"=F"] && truth) {
				return false
			}
			// package-level error variables are non-nil (errors.New at init): x = ErrFoo makes `x == nil` false
			if r == "nil" && truth && isPkgErrVar(fl, v) {
				return false
			}
		}
	}
	return true
}

// isEq: do the facts establish lhs == rhs (canonical strings)?
func (f facts) isEq(l, r string) bool {
	return f["L:"+l+" == "+r+"=T"] || f["A:"+l+"="+r]
}

// run explores all paths. Condition nodes are the last node of a block with two successors.
func (fl *Flow) run(rule *flowRule, init facts) {
	type item struct {
		b *cfg.Block
		f facts
	}
	seen := map[*cfg.Block]map[string]bool{}
	work := []item{{fl.g.Blocks[0], init}}
	for len(work) > 0 {
		it := work[len(work)-1]
		work = work[:len(work)-1]
		k := it.f.key()
		if seen[it.b] == nil {
			seen[it.b] = map[string]bool{}
		}
		if seen[it.b][k] {
			continue
		}
		seen[it.b][k] = true
		fl.States++
		f := it.f.clone()
		var cond ast.Expr
		for i, n := range it.b.Nodes {
			if i == len(it.b.Nodes)-1 && len(it.b.Succs) == 2 {
				if e, ok := n.(ast.Expr); ok {
					if rule.visit != nil {
						rule.visit(fl, f, n)
					}
					cond = e
					if tag := fl.switchTag(e); tag != nil {
						// a case value of a tagged switch: the decision is tag == value
						cond = &ast.BinaryExpr{X: tag, Op: token.EQL, Y: e}
					}
					continue
				}
			}
			if rule.visit != nil {
				rule.visit(fl, f, n)
			}
			fl.generic(f, n)
			if rule.transfer != nil {
				rule.transfer(fl, f, n)
			}
		}
		if len(it.b.Succs) == 0 {
			fl.Paths++
		}
		if cond != nil {
			for k, succ := range it.b.Succs {
				for _, conj := range dnf(cond, k == 0) {
					nf := f.clone()
					feasible := true
					for _, l := range conj {
						if !fl.applyLiteral(nf, l.e, !l.neg) {
							feasible = false
							break
						}
						if rule.lit != nil {
							rule.lit(fl, nf, ast.Unparen(l.e), !l.neg)
						}
					}
					if feasible {
						work = append(work, item{succ, nf})
					}
				}
			}
		} else {
			for _, succ := range it.b.Succs {
				work = append(work, item{succ, f})
			}
		}
	}
}

// namedResult returns the canonical name of the i-th result from the end (0 = last) if named.
func (fl *Flow) resultName(fromEnd int) string {
	res := fl.fd.Type.Results
	if res == nil {
		return ""
	}
	var names []string
	for _, f := range res.List {
		if len(f.Names) == 0 {
			names = append(names, "")
		}
		for _, n := range f.Names {
			names = append(names, n.Name)
		}
	}
	if fromEnd >= len(names) {
		return ""
	}
	return names[len(names)-1-fromEnd]
}

func isNilExpr(info *types.Info, e ast.Expr) bool {
	if id, ok := ast.Unparen(e).(*ast.Ident); ok && id.Name == "nil" {
		_, isNil := info.Uses[id].(*types.Nil)
		return isNil
	}
	return false
}

// isPkgErrVar: canonical name of a package-level variable of type error in the fork's vm package
// that is initialised by errors.New / fmt.Errorf (never nil).
func isPkgErrVar(fl *Flow, canonName string) bool {
	if !strings.HasPrefix(canonName, "P0.") {
		return false
	}
	o := fl.pkg.Types.Scope().Lookup(strings.TrimPrefix(canonName, "P0."))
	v, ok := o.(*types.Var)
	return ok && v.Type().String() == "error"
}
