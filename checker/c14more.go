package main

import (
	"fmt"
	"go/constant"
	"go/token"

	"golang.org/x/tools/go/ssa"
)

// R14.9 truncated payloads are refused before anything is decoded. loadParamBytes(input, i) reads the i-th
// head word as an offset and accepts any offset whose length word and data lie inside the input — heads and
// tails may overlap, so on its own it decodes self-consistent garbage out of a payload that is too short to
// hold n heads and n length words (e.g. 64 bytes (0x20, 0) read as key = "" / value = the first word). What
// excludes that is the up-front guard of the precompile: a precompile that decodes n dynamic parameters
// refuses every input shorter than 64·n bytes, and the guard dominates every decoding call.
func addPayloadFloorRule(w *World, r *Report, rule string) {
	vm := forkPath(pkVM)
	n := 0
	for _, fn := range w.forkFuncsAll() {
		if fn.Pkg == nil || fn.Pkg.Pkg.Path() != vm || fn.Name() != "Run" || fn.Signature.Recv() == nil || fn.Parent() != nil {
			continue
		}
		// decoding calls with constant index
		idx := map[int64]bool{}
		var calls []*ssa.Call
		var input ssa.Value
		for _, b := range fn.Blocks {
			for _, ins := range b.Instrs {
				c, ok := ins.(*ssa.Call)
				if !ok {
					continue
				}
				cal := c.Call.StaticCallee()
				if cal == nil || cal.Name() != "loadParamBytes" || len(c.Call.Args) != 2 {
					continue
				}
				k, ok := c.Call.Args[1].(*ssa.Const)
				if !ok || k.Value == nil {
					continue
				}
				v, _ := constant.Int64Val(k.Value)
				idx[v] = true
				calls = append(calls, c)
				input = c.Call.Args[0]
			}
		}
		if len(calls) == 0 {
			continue
		}
		n++
		key := relName(fn) + "/payload-floor"
		need := int64(64 * len(idx))
		// guards: If(len(input) < K) whose true successor returns
		var best int64 = -1
		var guard *ssa.BasicBlock
		for _, b := range fn.Blocks {
			iff, ok := b.Instrs[len(b.Instrs)-1].(*ssa.If)
			if !ok {
				continue
			}
			bo, ok := iff.Cond.(*ssa.BinOp)
			if !ok || (bo.Op != token.LSS && bo.Op != token.LEQ) {
				continue
			}
			lc, ok := bo.X.(*ssa.Call)
			if !ok {
				continue
			}
			bi, ok := lc.Call.Value.(*ssa.Builtin)
			if !ok || bi.Name() != "len" || lc.Call.Args[0] != input {
				continue
			}
			k, ok := bo.Y.(*ssa.Const)
			if !ok || k.Value == nil {
				continue
			}
			kv, _ := constant.Int64Val(k.Value)
			if bo.Op == token.LEQ {
				kv++
			}
			if _, isRet := b.Succs[0].Instrs[len(b.Succs[0].Instrs)-1].(*ssa.Return); !isRet {
				continue
			}
			all := true
			for _, c := range calls {
				if !b.Succs[1].Dominates(c.Block()) {
					all = false
				}
			}
			if all && kv > best {
				best, guard = kv, b
			}
		}
		// the general form: the guards that dominate each decoding call (inline tests, or a length-check helper
		// that returned a nil error) entail len(input) >= 64·n (E3 guard entailment)
		if guard == nil || best < need {
			a := w.rangeEnv().analyse(fn)
			all := true
			for _, c := range calls {
				if !a.provesSplit(c.Block(), le(konst64(need), a.lenOf(input, c.Block()))) {
					all = false
				}
			}
			if all {
				r.holds(rule, key, w.pos(calls[0].Pos()), fmt.Sprintf("the guards dominating the %d decoding calls entail len(input) >= %d (%d dynamic parameters)", len(calls), need, len(idx)))
				continue
			}
		}
		switch {
		case guard == nil:
			r.violated(rule, key, w.pos(fn.Pos()), fmt.Sprintf("no `len(input) < K` refusal dominates the %d decoding calls: truncated payloads reach the decoder", len(calls)))
		case best < need:
			r.violated(rule, key, w.pos(guard.Instrs[len(guard.Instrs)-1].Pos()), fmt.Sprintf("the up-front guard refuses only inputs shorter than %d bytes, but %d dynamic parameters need at least %d (one head word and one length word each): shorter self-consistent payloads are decoded as if well-formed", best, len(idx), need))
		default:
			r.holds(rule, key, w.pos(guard.Instrs[len(guard.Instrs)-1].Pos()), fmt.Sprintf("inputs shorter than %d bytes are refused before the %d decoding calls (%d dynamic parameters need at least %d)", best, len(calls), len(idx), need))
		}
	}
	r.need(rule, 1)
	_ = n
}
