package main

// E1 (part 2): statement embedding of a reference function body into its fork counterpart.
// Every reference statement must be matched, in order and at the same nesting, by an equal
// (canonical, alpha-equivalent) fork statement. What is left over on the fork side is the
// fork's *insertions*; what is left over on the reference side is a *divergence*.

import (
	"golang.org/x/tools/go/types/typeutil"
	"fmt"
	"go/ast"
	"go/token"
	"go/types"
	"sort"
	"strings"
)

// ForkOnly describes what exists in the fork but not in the reference, computed from the
// type-checked packages (never from text).
type ForkOnly struct {
	Fields     map[*types.Var]bool         // struct fields absent from the reference struct (or of NEW types)
	FieldNames map[string]map[string]bool  // named struct type (normalised "Pn.T") -> fork-only field names
	Consts     map[*types.Const]bool       // package-level constants absent from the reference
	Types      map[*types.TypeName]bool    // named types absent from the reference
	Funcs      map[string]bool             // normalised qualified names of NEW functions (no ref counterpart)
}

func (w *World) forkOnly() *ForkOnly {
	fo := &ForkOnly{Fields: map[*types.Var]bool{}, FieldNames: map[string]map[string]bool{}, Consts: map[*types.Const]bool{}, Types: map[*types.TypeName]bool{}, Funcs: map[string]bool{}}
	for i := range pkgPairs {
		fp, rp := w.Pkgs[forkPath(i)], w.Pkgs[refPath(i)]
		if fp == nil || rp == nil {
			continue
		}
		fs, rs := fp.Types.Scope(), rp.Types.Scope()
		for _, name := range fs.Names() {
			o := fs.Lookup(name)
			ro := rs.Lookup(name)
			switch o := o.(type) {
			case *types.Const:
				if _, ok := ro.(*types.Const); !ok {
					fo.Consts[o] = true
				}
			case *types.TypeName:
				st, isStruct := o.Type().Underlying().(*types.Struct)
				rtn, ok := ro.(*types.TypeName)
				if !ok {
					fo.Types[o] = true
					if isStruct {
						for k := 0; k < st.NumFields(); k++ {
							fo.Fields[st.Field(k)] = true
						}
					}
					continue
				}
				rst, rIsStruct := rtn.Type().Underlying().(*types.Struct)
				if !isStruct || !rIsStruct {
					continue
				}
				have := map[string]bool{}
				for k := 0; k < rst.NumFields(); k++ {
					have[rst.Field(k).Name()] = true
				}
				key := fmt.Sprintf("P%d.%s", i, name)
				for k := 0; k < st.NumFields(); k++ {
					f := st.Field(k)
					if !have[f.Name()] {
						fo.Fields[f] = true
						if fo.FieldNames[key] == nil {
							fo.FieldNames[key] = map[string]bool{}
						}
						fo.FieldNames[key][f.Name()] = true
					}
				}
			case *types.Func:
				if _, ok := ro.(*types.Func); !ok {
					fo.Funcs[normPath(o.Pkg().Path())+"."+name] = true
				}
			}
		}
	}
	return fo
}

// ---- delta of one function ------------------------------------------------------

type Insertion struct {
	Stmt      ast.Stmt
	Ctx       string   // nesting context (headers of enclosing matched statements)
	AbsorbRef int      // >=0: this `if` absorbs reference statements in branch AbsorbRef
	Case      *ast.CaseClause // set for an inserted case clause of a matched switch
	Stripped  []ast.Expr      // for a *matched* statement: fork-zero terms / extra literal keys removed to match
	Run       string          // the run of unmatched statements (between two matched neighbours) this insertion lies in
}

type FuncDelta struct {
	Name      string
	RefOnly   []ast.Stmt // reference statements without a fork match
	RefOnlyAt []string
	RefOnlyRun []string // the run of unmatched statements each lost reference statement lies in
	Ins       []*Insertion
	Strips    []*Insertion // matched statements that needed stripping
	Matched   int
	AlphaErr  []string
	Pairs     [][2]ast.Stmt // matched simple statements / headers (ref, fork)
	FkLocals  map[types.Object]bool
	SigDiff   string
	alpha     map[types.Object]types.Object
	alphaRev  map[types.Object]types.Object
}

type embedder struct {
	w        *World
	ref, fk  *astCanon
	fo       *ForkOnly
	recvOnly map[string]bool // fork-only field names of the receiver's named type (for local mirror structs in codecs)
	fkLocals map[types.Object]bool // fork-only locals (declared by insertions), filled after pass 1
	d        *FuncDelta
	stripLog []ast.Expr
	pair     int
}

func (e *embedder) refKey(s ast.Stmt) string {
	h, b := e.ref.header(s)
	if b != nil {
		return "H:" + h
	}
	return "S:" + h
}

func (e *embedder) forkKey(s ast.Stmt) (string, []ast.Expr) {
	e.stripLog = nil
	h, b := e.fk.header(e.stripStmt(s))
	log := e.stripLog
	e.stripLog = nil
	if b != nil {
		return "H:" + h, log
	}
	return "S:" + h, log
}

// isForkOnlyField reports whether a selector/ident resolves to a fork-only struct field.
func (e *embedder) isForkOnlyFieldExpr(x ast.Expr) bool {
	switch x := x.(type) {
	case *ast.SelectorExpr:
		if sel, ok := e.fk.info.Selections[x]; ok {
			if v, ok := sel.Obj().(*types.Var); ok && e.fo.Fields[v] {
				return true
			}
		}
	case *ast.Ident:
		if v, ok := e.fk.obj(x).(*types.Var); ok && v.IsField() {
			if e.fo.Fields[v] {
				return true
			}
			// field of a function-local mirror struct (generated codecs): by name of the receiver's fork-only fields
			if e.recvOnly[v.Name()] && v.Pkg() != nil && !isPkgLevelStructField(v) {
				return true
			}
		}
	}
	return false
}

func isPkgLevelStructField(v *types.Var) bool { return false }

// forkZeroTerm: an addend that is zero whenever no Aspect state exists: len(<fork-only field>) or a fork-only local counter.
func (e *embedder) forkZeroTerm(x ast.Expr) bool {
	x = ast.Unparen(x)
	if call, ok := x.(*ast.CallExpr); ok && len(call.Args) == 1 {
		if id, ok := call.Fun.(*ast.Ident); ok && id.Name == "len" {
			if _, isB := e.fk.obj(id).(*types.Builtin); isB {
				return e.isForkOnlyFieldExpr(ast.Unparen(call.Args[0]))
			}
		}
	}
	if id, ok := x.(*ast.Ident); ok {
		if o := e.fk.obj(id); o != nil && e.fkLocals[o] {
			return true
		}
	}
	return false
}

// stripStmt returns s unchanged; stripping happens inside the printer through hooks installed in newEmbedder.
func (e *embedder) stripStmt(s ast.Stmt) ast.Stmt { return s }

func newEmbedder(w *World, refInfo, forkInfo *types.Info, fo *ForkOnly, recvOnly map[string]bool, name string) *embedder {
	e := &embedder{w: w, fo: fo, recvOnly: recvOnly, fkLocals: map[types.Object]bool{}, d: &FuncDelta{Name: name}}
	e.ref = &astCanon{info: refInfo, alpha: true}
	e.fk = &astCanon{info: forkInfo, alpha: true}
	e.fk.stripZero = func(b *ast.BinaryExpr) ast.Expr {
		if b.Op != token.ADD {
			return nil
		}
		if e.forkZeroTerm(b.Y) {
			e.stripLog = append(e.stripLog, b.Y)
			return b.X
		}
		return nil
	}
	return e
}

// embed aligns ref and fork statement lists.
func (e *embedder) embed(ref, fork []ast.Stmt, ctx string) {
	fork = e.inlineHelpers(fork)
	ref, fork = normSwitches(ref), normSwitches(fork)
	n, m := len(ref), len(fork)
	rk := make([]string, n)
	fk := make([]string, m)
	fstrip := make([][]ast.Expr, m)
	for i := range ref {
		rk[i] = e.refKey(ref[i])
	}
	for j := range fork {
		fk[j], fstrip[j] = e.forkKey(fork[j])
	}
	eq := func(i, j int) bool {
		if rk[i] == fk[j] {
			return true
		}
		return e.tolerantHeader(ref[i], fork[j])
	}
	dp := make([][]int, n+1)
	for i := range dp {
		dp[i] = make([]int, m+1)
	}
	for i := n - 1; i >= 0; i-- {
		for j := m - 1; j >= 0; j-- {
			if eq(i, j) {
				dp[i][j] = dp[i+1][j+1] + 1
			} else if dp[i+1][j] >= dp[i][j+1] {
				dp[i][j] = dp[i+1][j]
			} else {
				dp[i][j] = dp[i][j+1]
			}
		}
	}
	var pr, pf []int
	flush := func() {
		e.unmatchedRun(ref, fork, pr, pf, ctx)
		pr, pf = nil, nil
	}
	i, j := 0, 0
	for i < n && j < m {
		if eq(i, j) {
			flush()
			e.matched(ref[i], fork[j], fstrip[j], ctx)
			i++
			j++
		} else if dp[i+1][j] >= dp[i][j+1] {
			pr = append(pr, i)
			i++
		} else {
			pf = append(pf, j)
			j++
		}
	}
	for ; i < n; i++ {
		pr = append(pr, i)
	}
	for ; j < m; j++ {
		pf = append(pf, j)
	}
	flush()
}

// tolerantHeader: two switch statements with the same tag whose case lists differ only by
// inserted fork cases; or composite literals differing by fork-only keys (handled in printer).
func (e *embedder) tolerantHeader(r, f ast.Stmt) bool {
	rs, ok1 := r.(*ast.SwitchStmt)
	fs, ok2 := f.(*ast.SwitchStmt)
	if !ok1 || !ok2 {
		return false
	}
	if e.ref.expr(rs.Tag) != e.fk.expr(fs.Tag) || (rs.Init == nil) != (fs.Init == nil) {
		return false
	}
	// reference cases must be an ordered subsequence of fork cases
	j := 0
	for _, rc := range rs.Body.List {
		want := e.ref.exprs(rc.(*ast.CaseClause).List)
		found := false
		for ; j < len(fs.Body.List); j++ {
			if e.fk.exprs(fs.Body.List[j].(*ast.CaseClause).List) == want && (rc.(*ast.CaseClause).List == nil) == (fs.Body.List[j].(*ast.CaseClause).List == nil) {
				found = true
				j++
				break
			}
		}
		if !found {
			return false
		}
	}
	return true
}

func (e *embedder) matched(r, f ast.Stmt, strips []ast.Expr, ctx string) {
	e.d.Matched++
	e.d.Pairs = append(e.d.Pairs, [2]ast.Stmt{r, f})
	if len(strips) > 0 {
		e.d.Strips = append(e.d.Strips, &Insertion{Stmt: f, Ctx: ctx, AbsorbRef: -1, Stripped: strips})
	}
	e.alphaCheck(r, f)
	rh, rb := e.ref.header(r)
	_, fb := e.fk.header(f)
	if rb == nil {
		return
	}
	rs, isSw := r.(*ast.SwitchStmt)
	fs, _ := f.(*ast.SwitchStmt)
	if isSw && len(rs.Body.List) != len(fs.Body.List) {
		// align case clauses
		j := 0
		for _, rc := range rs.Body.List {
			want := e.ref.exprs(rc.(*ast.CaseClause).List)
			for ; j < len(fs.Body.List); j++ {
				fc := fs.Body.List[j].(*ast.CaseClause)
				if e.fk.exprs(fc.List) == want {
					e.embed(rc.(*ast.CaseClause).Body, fc.Body, ctx+" > "+clip(rh, 40)+" case "+clip(want, 30))
					j++
					break
				}
				e.d.Ins = append(e.d.Ins, &Insertion{Stmt: f, Ctx: ctx + " > " + clip(rh, 40), AbsorbRef: -1, Case: fc})
			}
		}
		for ; j < len(fs.Body.List); j++ {
			e.d.Ins = append(e.d.Ins, &Insertion{Stmt: f, Ctx: ctx + " > " + clip(rh, 40), AbsorbRef: -1, Case: fs.Body.List[j].(*ast.CaseClause)})
		}
		return
	}
	if len(rb) != len(fb) {
		e.d.RefOnly = append(e.d.RefOnly, r)
		e.d.RefOnlyAt = append(e.d.RefOnlyAt, ctx+" (compound statements with different numbers of bodies)")
		return
	}
	for k := range rb {
		e.embed(rb[k], fb[k], ctx+" > "+clip(rh, 40)+fmt.Sprintf("#%d", k))
	}
}

// unmatchedRun handles a maximal run of unmatched statements between two matches.
var runCounter int

func (e *embedder) unmatchedRun(ref, fork []ast.Stmt, pr, pf []int, ctx string) {
	if len(pr) > 0 {
		// try: all pending reference statements embed into exactly one branch of one inserted `if`
		var pend []ast.Stmt
		for _, i := range pr {
			pend = append(pend, ref[i])
		}
		for _, j := range pf {
			ifs, ok := fork[j].(*ast.IfStmt)
			if !ok {
				continue
			}
			_, bodies := e.fk.header(ifs)
			hit := -1
			var hitDelta *FuncDelta
			for bi, b := range bodies {
				sub := &embedder{w: e.w, ref: e.ref, fk: e.fk, fo: e.fo, recvOnly: e.recvOnly, fkLocals: e.fkLocals, d: &FuncDelta{}}
				sub.embed(pend, b, ctx+" > [inserted if]"+fmt.Sprintf("#%d", bi))
				if len(sub.d.RefOnly) == 0 && sub.d.Matched > 0 {
					if hit >= 0 {
						hit = -2
						break
					}
					hit = bi
					hitDelta = sub.d
				}
			}
			if hit >= 0 {
				e.d.Ins = append(e.d.Ins, &Insertion{Stmt: fork[j], Ctx: ctx, AbsorbRef: hit})
				e.d.Ins = append(e.d.Ins, hitDelta.Ins...)
				e.d.Strips = append(e.d.Strips, hitDelta.Strips...)
				e.d.Matched += hitDelta.Matched
				e.d.Pairs = append(e.d.Pairs, hitDelta.Pairs...)
				e.d.AlphaErr = append(e.d.AlphaErr, hitDelta.AlphaErr...)
				for _, j2 := range pf {
					if j2 != j {
						e.d.Ins = append(e.d.Ins, &Insertion{Stmt: fork[j2], Ctx: ctx, AbsorbRef: -1})
					}
				}
				return
			}
		}
	}
	// all statements handled by one call lie between the same two matched neighbours
	runCounter++
	run := fmt.Sprintf("run%d", runCounter)
	for _, i := range pr {
		e.d.RefOnly = append(e.d.RefOnly, ref[i])
		e.d.RefOnlyAt = append(e.d.RefOnlyAt, ctx)
		e.d.RefOnlyRun = append(e.d.RefOnlyRun, run)
	}
	for _, j := range pf {
		e.d.Ins = append(e.d.Ins, &Insertion{Stmt: fork[j], Ctx: ctx, AbsorbRef: -1, Run: run})
	}
}

// alphaCheck verifies that matched statements use locals consistently (a bijection between
// reference locals and fork locals over the whole function).
func (e *embedder) alphaCheck(r, f ast.Stmt) {
	var rl, fl []types.Object
	rc := &astCanon{info: e.ref.info, alpha: true, locals: &rl}
	fc := &astCanon{info: e.fk.info, alpha: true, locals: &fl, stripZero: e.fk.stripZero}
	rc.header(r)
	save := e.stripLog
	fc.header(f)
	e.stripLog = save
	if len(rl) != len(fl) {
		return // shapes differ only through stripping; locals inside stripped terms are fork-only
	}
	for i := range rl {
		e.bind(rl[i], fl[i], f)
	}
}

var _ = sort.Strings

func (e *embedder) bind(r, f types.Object, at ast.Stmt) {
	if e.d.alpha == nil {
		e.d.alpha = map[types.Object]types.Object{}
		e.d.alphaRev = map[types.Object]types.Object{}
	}
	if prev, ok := e.d.alpha[r]; ok && prev != f {
		e.d.AlphaErr = append(e.d.AlphaErr, fmt.Sprintf("%s: reference local %q corresponds to fork locals %q and %q", e.w.pos(at.Pos()), r.Name(), prev.Name(), f.Name()))
		return
	}
	if prev, ok := e.d.alphaRev[f]; ok && prev != r {
		e.d.AlphaErr = append(e.d.AlphaErr, fmt.Sprintf("%s: fork local %q corresponds to reference locals %q and %q", e.w.pos(at.Pos()), f.Name(), prev.Name(), r.Name()))
		return
	}
	e.d.alpha[r] = f
	e.d.alphaRev[f] = r
}

// declaredLocals returns the objects defined by a statement subtree (:=, var, range, func params).
func declaredLocals(info *types.Info, n ast.Node) map[types.Object]bool {
	out := map[types.Object]bool{}
	ast.Inspect(n, func(x ast.Node) bool {
		if id, ok := x.(*ast.Ident); ok {
			if o := info.Defs[id]; o != nil {
				if v, ok := o.(*types.Var); ok && !v.IsField() {
					out[o] = true
				}
			}
		}
		return true
	})
	return out
}

// embedFunc computes the delta of one DELTA function (two passes: the second one knows the
// fork-only locals introduced by insertions of the first).
func (w *World) embedFunc(pair int, name string, fo *ForkOnly) (*FuncDelta, error) {
	fd, fp := w.FuncDecl(forkPath(pair), name)
	rd, rp := w.FuncDecl(refPath(pair), name)
	if fd == nil || rd == nil || fd.Body == nil || rd.Body == nil {
		return nil, fmt.Errorf("no syntax for %s in fork or reference", name)
	}
	recvOnly := map[string]bool{}
	if fd.Recv != nil && len(fd.Recv.List) == 1 {
		t := fp.TypesInfo.TypeOf(fd.Recv.List[0].Type)
		if p, ok := t.(*types.Pointer); ok {
			t = p.Elem()
		}
		if nt, ok := t.(*types.Named); ok {
			key := fmt.Sprintf("P%d.%s", pair, nt.Obj().Name())
			for k := range fo.FieldNames[key] {
				recvOnly[k] = true
			}
		}
	}
	var d *FuncDelta
	fkLocals := map[types.Object]bool{}
	for pass := 0; pass < 2; pass++ {
		ptrTemps(fp.TypesInfo, fd)
		valTemps(fp.TypesInfo, fd)
		valTemps(rp.TypesInfo, rd)
		e := newEmbedder(w, rp.TypesInfo, fp.TypesInfo, fo, recvOnly, name)
		e.pair = pair
		e.fkLocals = fkLocals
		installLiteralStrip(e)
		rl, fl := rd.Body.List, fd.Body.List
		if fd.Type.Results == nil || len(fd.Type.Results.List) == 0 {
			rl, fl = foldEarlyReturns(rl), foldEarlyReturns(fl) // `if c { …; return }; rest` = `if c { … } else { rest }`
		}
		e.embed(rl, fl, "")
		d = e.d
		next := map[types.Object]bool{}
		for _, in := range d.Ins {
			var n ast.Node = in.Stmt
			if in.Case != nil {
				n = in.Case
			}
			if in.AbsorbRef >= 0 {
				// only the condition / init and the non-absorbing branch introduce fork-only locals
				ifs := in.Stmt.(*ast.IfStmt)
				if ifs.Init != nil {
					for o := range declaredLocals(fp.TypesInfo, ifs.Init) {
						next[o] = true
					}
				}
				continue
			}
			for o := range declaredLocals(fp.TypesInfo, n) {
				next[o] = true
			}
		}
		if len(next) == len(fkLocals) {
			break
		}
		fkLocals = next
	}
	d.FkLocals = fkLocals
	// signature: parameters/results must agree modulo context.Context
	rsig := sigString(&astCanon{info: rp.TypesInfo}, rd)
	fsig := sigString(&astCanon{info: fp.TypesInfo}, fd)
	if rsig != fsig {
		d.SigDiff = fmt.Sprintf("signature differs: fork %s vs reference %s", fsig, rsig)
	}
	return d, nil
}

// sigString: parameter names and types, result types only (naming results does not change behaviour
// as long as every return is explicit, which the embedding of the return statements establishes).
func sigString(c *astCanon, fd *ast.FuncDecl) string {
	var res []string
	if fd.Type.Results != nil {
		for _, f := range fd.Type.Results.List {
			n := len(f.Names)
			if n == 0 {
				n = 1
			}
			for i := 0; i < n; i++ {
				res = append(res, c.expr(f.Type))
			}
		}
	}
	// parameter *types* only: parameter names are bound by the alpha-equivalence check of the body
	var ps []string
	if fd.Type.Params != nil {
		for _, f := range fd.Type.Params.List {
			if tv, ok := c.info.Types[f.Type]; ok && isCtxType(tv.Type) {
				continue
			}
			n := len(f.Names)
			if n == 0 {
				n = 1
			}
			for i := 0; i < n; i++ {
				ps = append(ps, c.expr(f.Type))
			}
		}
	}
	return "(" + strings.Join(ps, ", ") + ")(" + strings.Join(res, ", ") + ")"
}

func stmtText(w *World, info *types.Info, s ast.Node) string {
	c := &astCanon{info: info}
	switch x := s.(type) {
	case ast.Stmt:
		h, _ := c.header(x)
		return clip(h, 140)
	case ast.Expr:
		return clip(c.expr(x), 140)
	case *ast.CaseClause:
		return "case " + clip(c.exprs(x.List), 120)
	}
	return strings.TrimSpace(fmt.Sprintf("%T", s))
}

// installLiteralStrip makes the fork-side printer omit composite-literal elements keyed by a
// fork-only field or fork-only constant, and fields of function-local mirror structs named like
// a fork-only field of the receiver type. Each omission is logged as a stripped term.
func installLiteralStrip(e *embedder) {
	e.fk.skipElt = func(lit *ast.CompositeLit, el ast.Expr) bool {
		kv, ok := el.(*ast.KeyValueExpr)
		if !ok {
			return false
		}
		switch k := kv.Key.(type) {
		case *ast.Ident:
			switch o := e.fk.obj(k).(type) {
			case *types.Var:
				if o.IsField() && (e.fo.Fields[o] || e.recvOnly[o.Name()] && isLocalStructField(e.fk.info, lit)) {
					e.stripLog = append(e.stripLog, el)
					return true
				}
			case *types.Const:
				if e.fo.Consts[o] {
					e.stripLog = append(e.stripLog, el)
					return true
				}
			}
		}
		return false
	}
	e.fk.skipField = func(name string) bool { return e.recvOnly[name] }
}

// isLocalStructField: the literal's type is a struct type declared inside a function.
func isLocalStructField(info *types.Info, lit *ast.CompositeLit) bool {
	t := info.TypeOf(lit)
	if p, ok := t.(*types.Pointer); ok {
		t = p.Elem()
	}
	if nt, ok := t.(*types.Named); ok {
		return nt.Obj().Parent() != nt.Obj().Pkg().Scope()
	}
	return false
}

// normSwitches rewrites, on both sides alike, a tag-less switch whose cases have one condition each and
// whose bodies neither fall through nor break out of it into the if / else-if chain it abbreviates
// (`switch { case c: A; default: B }` = `if c { A } else { B }`). Sub-expressions keep their nodes, so
// resolved objects and types stay available.
func normSwitches(list []ast.Stmt) []ast.Stmt {
	var out []ast.Stmt
	changed := false
	for _, st := range list {
		sw, ok := st.(*ast.SwitchStmt)
		if !ok || sw.Tag != nil || sw.Init != nil || len(sw.Body.List) == 0 {
			out = append(out, st)
			continue
		}
		simple := true
		var def *ast.CaseClause
		var cases []*ast.CaseClause
		for i, cl := range sw.Body.List {
			cc := cl.(*ast.CaseClause)
			if cc.List == nil {
				if i != len(sw.Body.List)-1 {
					simple = false // a default clause that is not last is still taken last: keep the switch
				}
				def = cc
				continue
			}
			if len(cc.List) != 1 {
				simple = false
			}
			cases = append(cases, cc)
		}
		// no break / fallthrough that refers to the switch
		var scan func(n ast.Node, inLoop bool)
		scan = func(n ast.Node, inLoop bool) {
			ast.Inspect(n, func(m ast.Node) bool {
				switch x := m.(type) {
				case *ast.FuncLit:
					return false
				case *ast.ForStmt:
					scan(x.Body, true)
					return false
				case *ast.RangeStmt:
					scan(x.Body, true)
					return false
				case *ast.SwitchStmt, *ast.TypeSwitchStmt, *ast.SelectStmt:
					if m != ast.Node(sw) {
						// a nested switch owns its unlabelled breaks; labelled ones are not followed: keep the switch
						ast.Inspect(m, func(k ast.Node) bool {
							if b, ok := k.(*ast.BranchStmt); ok && b.Label != nil {
								simple = false
							}
							return true
						})
						return false
					}
				case *ast.BranchStmt:
					if x.Tok == token.FALLTHROUGH || x.Label != nil || (x.Tok == token.BREAK && !inLoop) {
						simple = false
					}
				}
				return true
			})
		}
		scan(sw, false)
		if !simple || len(cases) == 0 {
			out = append(out, st)
			continue
		}
		var chain ast.Stmt
		if def != nil {
			chain = &ast.BlockStmt{Lbrace: def.Pos(), List: def.Body, Rbrace: def.End()}
		}
		for i := len(cases) - 1; i >= 0; i-- {
			cc := cases[i]
			chain = &ast.IfStmt{If: cc.Pos(), Cond: cc.List[0], Body: &ast.BlockStmt{Lbrace: cc.Colon, List: cc.Body, Rbrace: cc.End()}, Else: chain}
		}
		out = append(out, chain)
		changed = true
	}
	if !changed {
		return list
	}
	return out
}

// inlineArg: parameters (and receivers) of fork-only helpers whose statement-level calls were expanded in
// place by inlineHelpers, bound to the argument expression of the call; the canonical printer prints
// the parameter as that expression.
var inlineArg = map[types.Object]ast.Expr{}
var inlinedBody = map[*ast.ExprStmt][]ast.Stmt{}

// inlineHelpers replaces a statement `h(args)` / `x.h(args)` of a DELTA function, h a fork-only function of the
// same package, by the statements of h's body, so that inherited statements the fork moved into a helper
// are compared where they execute. Only when nothing can tell the difference: the body has no return,
// defer, go, label or closure; every argument (and the receiver) is a call-free path (or the address of
// one, for a pointer parameter used through selectors); no parameter is re-assigned or has its address
// taken; and no assignment in the body writes a location that an argument path reads.
func (e *embedder) inlineHelpers(list []ast.Stmt) []ast.Stmt {
	var out []ast.Stmt
	changed := false
	info := e.fk.info
	plainCanon := &astCanon{info: info}
	for _, st := range list {
		es, ok := st.(*ast.ExprStmt)
		if !ok {
			out = append(out, st)
			continue
		}
		if body, done := inlinedBody[es]; done {
			if body != nil {
				out = append(out, body...)
				changed = true
			} else {
				out = append(out, st)
			}
			continue
		}
		inlinedBody[es] = nil
		call, ok := es.X.(*ast.CallExpr)
		if !ok || call.Ellipsis.IsValid() {
			out = append(out, st)
			continue
		}
		f, _ := typeutil.Callee(info, call).(*types.Func)
		if f == nil || f.Pkg() == nil || f.Pkg().Path() != forkPath(e.pair) {
			out = append(out, st)
			continue
		}
		// a forwarding helper (one call as its whole body) is replaced by that call, operands substituted: no
		// binding is shared between call sites
		if pk := e.w.Pkgs[forkPath(e.pair)]; pk != nil {
			if in := e.w.forwardedCall(pk, call); in != nil {
				body := []ast.Stmt{&ast.ExprStmt{X: in}}
				inlinedBody[es] = body
				out = append(out, body...)
				changed = true
				continue
			}
		}
		rel := relNameOfFunc(f)
		if rel == "" || e.w.funcIdx[refPath(e.pair)][rel] != nil {
			out = append(out, st)
			continue
		}
		// the recorder's own methods are reviewed calls (TRACER_CALL, TRANSFER_REPLACEMENT), never expanded
		if rt, rpkg := recvTypeName(f); rt != "" && rpkg != nil && rpkg.Path() == forkPath(pkVM) && tracerFamily[rt] {
			out = append(out, st)
			continue
		}
		hd, _ := e.w.FuncDecl(forkPath(e.pair), rel)
		if hd == nil || hd.Body == nil || len(hd.Body.List) == 0 {
			out = append(out, st)
			continue
		}
		if hd.Type.Results != nil && len(hd.Type.Results.List) > 0 {
			out = append(out, st)
			continue
		}
		// bind parameters
		bind := map[types.Object]ast.Expr{}
		okBind := true
		plainPath := func(x ast.Expr) bool {
			pure := true
			ast.Inspect(x, func(n ast.Node) bool {
				switch y := n.(type) {
				case *ast.CallExpr:
					if id, isId := y.Fun.(*ast.Ident); isId {
						if b, isB := info.Uses[id].(*types.Builtin); isB && (b.Name() == "len" || b.Name() == "cap") {
							return true
						}
					}
					if isPureCalleeCall(info, y) && len(y.Args) == 0 {
						return true // a reviewed getter such as caller.Address()
					}
					pure = false
				case *ast.FuncLit, *ast.CompositeLit:
					pure = false
				}
				return pure
			})
			return pure
		}
		bindOne := func(name *ast.Ident, arg ast.Expr) {
			o := info.Defs[name]
			if o == nil || name.Name == "_" {
				return
			}
			arg = ast.Unparen(arg)
			if u, isU := arg.(*ast.UnaryExpr); isU && u.Op == token.AND {
				arg = ast.Unparen(u.X) // a pointer parameter used through selectors names the location itself
			}
			if !plainPath(arg) {
				okBind = false
				return
			}
			bind[o] = arg
		}
		if hd.Recv != nil && len(hd.Recv.List) == 1 && len(hd.Recv.List[0].Names) == 1 {
			if sel, isSel := call.Fun.(*ast.SelectorExpr); isSel {
				bindOne(hd.Recv.List[0].Names[0], sel.X)
			} else {
				okBind = false
			}
		}
		var pnames []*ast.Ident
		for _, fld := range hd.Type.Params.List {
			if _, isV := fld.Type.(*ast.Ellipsis); isV {
				okBind = false
			}
			pnames = append(pnames, fld.Names...)
		}
		if len(pnames) != len(call.Args) {
			okBind = false
		}
		for i := 0; okBind && i < len(pnames); i++ {
			bindOne(pnames[i], call.Args[i])
		}
		// the body; a trailing `if c { …; return }; rest…` is the same as `if c { … } else { rest… }` at the end of a function
		hbody := foldEarlyReturns(hd.Body.List)
		// the body
		var argStrs []string
		for _, a := range bind {
			argStrs = append(argStrs, plainCanon.expr(a))
		}
		if okBind {
			ast.Inspect(&ast.BlockStmt{List: hbody}, func(n ast.Node) bool {
				switch x := n.(type) {
				case *ast.ReturnStmt, *ast.DeferStmt, *ast.GoStmt, *ast.LabeledStmt, *ast.FuncLit, *ast.SelectStmt:
					okBind = false
				case *ast.BranchStmt:
					if x.Label != nil || x.Tok == token.GOTO {
						okBind = false
					}
				case *ast.UnaryExpr:
					if id, isId := ast.Unparen(x.X).(*ast.Ident); isId && x.Op == token.AND && bind[info.Uses[id]] != nil {
						okBind = false
					}
					// explicit dereference of a parameter bound to an address-of argument would print wrongly
				case *ast.StarExpr:
					if id, isId := ast.Unparen(x.X).(*ast.Ident); isId && bind[info.Uses[id]] != nil {
						okBind = false
					}
				case *ast.IncDecStmt:
					if id, isId := ast.Unparen(x.X).(*ast.Ident); isId && bind[info.Uses[id]] != nil {
						okBind = false
					}
				case *ast.AssignStmt:
					sub := &astCanon{info: info, subst: map[types.Object]string{}}
					for o, a := range bind {
						sub.subst[o] = plainCanon.expr(a)
					}
					for _, l := range x.Lhs {
						if id, isId := ast.Unparen(l).(*ast.Ident); isId && bind[info.Uses[id]] != nil {
							okBind = false
						}
						ls := sub.expr(l)
						for _, as := range argStrs {
							if as == ls || strings.HasPrefix(as, ls+".") || strings.HasPrefix(as, ls+"[") {
								okBind = false // the body moves what an argument path names
							}
						}
					}
				case *ast.CallExpr:
					// the helper must not call itself
					if g, _ := typeutil.Callee(info, x).(*types.Func); g == f {
						okBind = false
					}
				}
				return okBind
			})
		}
		if !okBind {
			out = append(out, st)
			continue
		}
		for o, a := range bind {
			if prev, had := inlineArg[o]; had && plainCanon.expr(prev) != plainCanon.expr(a) {
				okBind = false // the helper was expanded at another call site with other arguments
			}
		}
		if !okBind {
			out = append(out, st)
			continue
		}
		for o, a := range bind {
			inlineArg[o] = a
		}
		body := e.inlineHelpers(hbody)
		inlinedBody[es] = body
		out = append(out, body...)
		changed = true
	}
	if !changed {
		return list
	}
	return out
}

// foldEarlyReturns rewrites, at the end of a result-less function body, `…; if c { S; return }; T` into
// `…; if c { S } else { T }` (recursively in T), and drops a bare trailing `return`.
func foldEarlyReturns(list []ast.Stmt) []ast.Stmt {
	if n := len(list); n > 0 {
		if r, ok := list[n-1].(*ast.ReturnStmt); ok && len(r.Results) == 0 {
			return foldEarlyReturns(list[:n-1])
		}
	}
	for i, st := range list {
		ifs, ok := st.(*ast.IfStmt)
		if !ok || ifs.Else != nil || len(ifs.Body.List) == 0 {
			continue
		}
		r, ok := ifs.Body.List[len(ifs.Body.List)-1].(*ast.ReturnStmt)
		if !ok || len(r.Results) != 0 {
			continue
		}
		// no other return inside the then-branch
		inner := false
		for _, b := range ifs.Body.List[:len(ifs.Body.List)-1] {
			ast.Inspect(b, func(n ast.Node) bool {
				if _, isRet := n.(*ast.ReturnStmt); isRet {
					inner = true
				}
				return !inner
			})
		}
		if inner {
			return list
		}
		rest := foldEarlyReturns(list[i+1:])
		folded := &ast.IfStmt{If: ifs.If, Init: ifs.Init, Cond: ifs.Cond,
			Body: &ast.BlockStmt{Lbrace: ifs.Body.Lbrace, List: ifs.Body.List[:len(ifs.Body.List)-1], Rbrace: ifs.Body.Rbrace}}
		if len(rest) > 0 {
			folded.Else = &ast.BlockStmt{Lbrace: rest[0].Pos(), List: rest, Rbrace: rest[len(rest)-1].End()}
		}
		out := append(append([]ast.Stmt{}, list[:i]...), folded)
		return out
	}
	return list
}
