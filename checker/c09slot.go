package main

// C09 R9.7 slot progression: the storage reads of the long-string loop use the keys
// keccak(slot)+0, +1, +2, … . The 256-bit cell that keys the reads is followed through its
// mutations (Add(cell, one), AddUint64(cell, k)); path sums over the control-flow graph give the
// set of increments accumulated (a) from the definition of the base to the first read and (b)
// between two consecutive reads; they must be {0} and {1}. The loop may live in the instruction
// itself or in a helper it calls with the cell as an argument (the base is then defined in the
// caller and must reach the call un-incremented).

import (
	"fmt"
	"go/constant"
	"go/token"
	"sort"
	"strings"

	"golang.org/x/tools/go/ssa"
)

type slotEvent struct {
	kind string // base, add, read, call (cell handed to the loop helper), unknown
	n    int64
	why  string
}

// u256Root: the cell behind a *uint256.Int value (through receiver-returning method results).
func (w *World) u256Root(v ssa.Value, d int) ssa.Value {
	if d == 0 {
		return v
	}
	if c, ok := v.(*ssa.Call); ok {
		if cal := c.Call.StaticCallee(); cal != nil && len(c.Call.Args) > 0 && isBignumPtr(c.Call.Args[0].Type()) && cal.Signature.Recv() != nil && w.recvReturningMemo(cal) {
			return w.u256Root(c.Call.Args[0], d-1)
		}
	}
	return v
}

// cellEvents classifies every instruction of fn that touches the cell.
//   reads: the Bytes32 calls whose result keys a storage read inside a loop
//   baseDep: for a SetBytes to count as the base it must be computed from this Bytes32(slot operand) value (nil: no base expected here)
//   helper/helperArg: a call of helper with the cell at argument helperArg is the event "call"
func (w *World) cellEvents(fn *ssa.Function, cell ssa.Value, reads map[ssa.Instruction]bool, slotOperand ssa.Value, helper *ssa.Function, helperArg int) map[ssa.Instruction]slotEvent {
	events := map[ssa.Instruction]slotEvent{}
	isOne := func(v ssa.Value) bool {
		u, ok := v.(*ssa.UnOp)
		if !ok || u.Op != token.MUL {
			return false
		}
		g, ok := u.X.(*ssa.Global)
		return ok && w.globalUint256Const(g) == 1
	}
	root := func(v ssa.Value) ssa.Value { return w.u256Root(v, 6) }
	for _, b := range fn.Blocks {
		for _, ins := range b.Instrs {
			switch x := ins.(type) {
			case *ssa.Call:
				cal := x.Call.StaticCallee()
				hit := false
				for _, arg := range x.Call.Args {
					if root(arg) == cell {
						hit = true
					}
				}
				if !hit {
					continue
				}
				if helper != nil && cal == helper && helperArg < len(x.Call.Args) && root(x.Call.Args[helperArg]) == cell {
					events[ins] = slotEvent{kind: "call"}
					continue
				}
				if cal == nil || cal.Signature.Recv() == nil || !isBignumPtr(x.Call.Args[0].Type()) {
					events[ins] = slotEvent{kind: "unknown", why: "the cell is passed to " + x.Call.String()}
					continue
				}
				recvIs := root(x.Call.Args[0]) == cell
				if !recvIs || bignumReadOnly[cal.Name()] {
					if reads[ins] {
						events[ins] = slotEvent{kind: "read"}
					}
					continue
				}
				args := x.Call.Args
				switch {
				case cal.Name() == "SetBytes" && len(args) == 2 && slotOperand != nil:
					dep := false
					for _, b2 := range fn.Blocks {
						for _, i2 := range b2.Instrs {
							if c2, ok := i2.(*ssa.Call); ok {
								if cc := c2.Call.StaticCallee(); cc != nil && cc.Name() == "Bytes32" && len(c2.Call.Args) == 1 && c2.Call.Args[0] == slotOperand && dependsOn(args[1], c2, 8) {
									dep = true
								}
							}
						}
					}
					if dep {
						events[ins] = slotEvent{kind: "base"}
					} else {
						events[ins] = slotEvent{kind: "unknown", why: "the cell is set from bytes that do not derive from the slot operand"}
					}
				case cal.Name() == "Add" && len(args) == 3 && ((root(args[1]) == cell && isOne(args[2])) || (root(args[2]) == cell && isOne(args[1]))):
					events[ins] = slotEvent{kind: "add", n: 1}
				case cal.Name() == "AddUint64" && len(args) == 3 && root(args[1]) == cell:
					if k, ok := args[2].(*ssa.Const); ok && k.Value != nil && k.Value.Kind() == constant.Int {
						nn, _ := constant.Int64Val(k.Value)
						events[ins] = slotEvent{kind: "add", n: nn}
					} else {
						events[ins] = slotEvent{kind: "unknown", why: "the cell is advanced by a non-constant amount"}
					}
				default:
					events[ins] = slotEvent{kind: "unknown", why: "the cell is rewritten by " + cal.Name()}
				}
			case *ssa.Store:
				if root(x.Val) == cell {
					events[ins] = slotEvent{kind: "unknown", why: "the cell's address is stored"}
				}
			case *ssa.MakeClosure:
				for _, bnd := range x.Bindings {
					if root(bnd) == cell {
						events[ins] = slotEvent{kind: "unknown", why: "the cell is captured by a closure"}
					}
				}
			}
		}
	}
	return events
}

// cellSums: the sets of increments accumulated from `start` (exclusive; nil = function entry) to the
// next event of kind stopKind; "" on success, otherwise why the analysis gave up.
func (w *World) cellSums(fn *ssa.Function, events map[ssa.Instruction]slotEvent, start ssa.Instruction, stopKinds map[string]bool) (map[int64]bool, string) {
	out := map[int64]bool{}
	entry := map[*ssa.BasicBlock]map[int64]bool{}
	var work []*ssa.BasicBlock
	run := func(b *ssa.BasicBlock, from int, in map[int64]bool) string {
		cur := map[int64]bool{}
		for k := range in {
			cur[k] = true
		}
		for i := from; i < len(b.Instrs); i++ {
			ev, ok := events[b.Instrs[i]]
			if !ok {
				continue
			}
			if stopKinds[ev.kind] {
				for k := range cur {
					out[k] = true
				}
				return ""
			}
			switch ev.kind {
			case "unknown":
				return ev.why + " at " + w.pos(b.Instrs[i].Pos())
			case "base":
				return "" // re-based: judged from the new base
			case "add":
				nx := map[int64]bool{}
				for k := range cur {
					nx[k+ev.n] = true
				}
				cur = nx
			}
		}
		for _, s := range b.Succs {
			if entry[s] == nil {
				entry[s] = map[int64]bool{}
			}
			grew := false
			for k := range cur {
				if !entry[s][k] {
					entry[s][k] = true
					grew = true
				}
			}
			if len(entry[s]) > 6 {
				return "unbounded increments on a path without a read"
			}
			if grew {
				work = append(work, s)
			}
		}
		return ""
	}
	if start == nil {
		if why := run(fn.Blocks[0], 0, map[int64]bool{0: true}); why != "" {
			return nil, why
		}
	} else {
		sb := start.Block()
		idx := 0
		for i, ins := range sb.Instrs {
			if ins == start {
				idx = i + 1
			}
		}
		if why := run(sb, idx, map[int64]bool{0: true}); why != "" {
			return nil, why
		}
	}
	for len(work) > 0 {
		b := work[len(work)-1]
		work = work[:len(work)-1]
		if why := run(b, 0, entry[b]); why != "" {
			return nil, why
		}
	}
	return out, ""
}

func showSums(m map[int64]bool) string {
	var ks []int64
	for k := range m {
		ks = append(ks, k)
	}
	sort.Slice(ks, func(i, j int) bool { return ks[i] < ks[j] })
	var ss []string
	for _, k := range ks {
		ss = append(ss, fmt.Sprint(k))
	}
	return "{" + strings.Join(ss, ",") + "}"
}

func addSlotProgressionRule(w *World, r *Report, rule string) {
	key := "vm.opReferenceChangeJournal"
	fn := w.Func(forkPath(pkVM), "opReferenceChangeJournal")
	if fn == nil {
		r.undecided(rule, key, "-", "function not found")
		return
	}
	save, n, _ := journalSave(fn)
	if n != 1 || len(save.Call.Args) < 3 {
		r.undecided(rule, key, w.pos(fn.Pos()), "no single recorder call in the instruction (R9.2)")
		return
	}
	slotOperand := save.Call.Args[2]
	if save.Parent() != fn {
		r.undecided(rule, key, w.pos(fn.Pos()), "the recorder call is not in the instruction body")
		return
	}
	// the function holding the read loop: the instruction or one of its helpers
	var loopFn *ssa.Function
	var loopReads []*ssa.Call
	for _, f2 := range journalFamilyFuncs(fn) {
		var rs []*ssa.Call
		for _, b := range f2.Blocks {
			for _, ins := range b.Instrs {
				if c, ok := ins.(*ssa.Call); ok && c.Call.IsInvoke() && c.Call.Method.Name() == "GetState" && blockReaches(b, b) {
					rs = append(rs, c)
				}
			}
		}
		if len(rs) > 0 {
			if loopFn != nil {
				r.undecided(rule, key, w.pos(f2.Pos()), "storage reads in loops of more than one function")
				return
			}
			loopFn, loopReads = f2, rs
		}
	}
	if loopFn == nil {
		r.undecided(rule, key, w.pos(fn.Pos()), "no storage read inside a loop: the multi-slot form of a string is not read word by word")
		return
	}
	// the cell keying the reads
	var cell ssa.Value
	readAt := map[ssa.Instruction]bool{}
	for _, g := range loopReads {
		k := g.Call.Args[1]
		if ct, ok := k.(*ssa.ChangeType); ok {
			k = ct.X
		}
		// a local holding the 32-byte form
		if u, ok := k.(*ssa.UnOp); ok && u.Op == token.MUL {
			if al, ok := u.X.(*ssa.Alloc); ok {
				var stored ssa.Value
				cnt := 0
				for _, rf := range *al.Referrers() {
					if st, ok := rf.(*ssa.Store); ok && st.Addr == ssa.Value(al) {
						stored = st.Val
						cnt++
					}
				}
				if cnt == 1 {
					k = stored
				}
			}
		}
		kc, ok := k.(*ssa.Call)
		var cal *ssa.Function
		if ok {
			cal = kc.Call.StaticCallee()
		}
		if !ok || cal == nil || cal.Name() != "Bytes32" || len(kc.Call.Args) != 1 || !isBignumPtr(kc.Call.Args[0].Type()) {
			r.undecided(rule, key+"/key", w.pos(g.Pos()), "the key of the storage read in the loop is not the 32-byte form of a 256-bit cell; slot progression cannot be read off")
			return
		}
		c := w.u256Root(kc.Call.Args[0], 6)
		if cell != nil && cell != c {
			r.undecided(rule, key+"/key", w.pos(g.Pos()), "the loop reads are keyed by different cells")
			return
		}
		cell = c
		readAt[kc] = true
	}
	stopRead := map[string]bool{"read": true}
	report := func(k string, pos token.Pos, m map[int64]bool, why string, want int64, good, badPrefix string) {
		switch {
		case why != "":
			r.undecided(rule, k, w.pos(pos), "slot progression not analysable: "+why)
		case len(m) == 1 && m[want]:
			r.holds(rule, k, w.pos(pos), good)
		case len(m) == 0 && want == 1:
			r.holds(rule, k, w.pos(pos), "no further read follows this one")
		case len(m) == 0:
			r.undecided(rule, k, w.pos(pos), "no storage read reachable from the base definition")
		default:
			r.violated(rule, k, w.pos(pos), badPrefix+showSums(m))
		}
	}
	firstGood := "on every path from keccak(slot) to the first storage read of the loop the key is keccak(slot)+0"
	firstBad := "the first data word of a multi-slot string lives at keccak(slot); the first storage read of the loop uses keccak(slot)+"
	switch c := cell.(type) {
	case *ssa.Alloc:
		if loopFn != fn {
			// the whole out-of-place read (base and loop) lives in a helper: the slot operand it starts from must be
			// the instruction's, handed over at the helper's single call site
			var hSlot ssa.Value
			nCall := 0
			for _, f2 := range journalFamilyFuncs(fn) {
				for _, b := range f2.Blocks {
					for _, ins := range b.Instrs {
						call, ok := ins.(*ssa.Call)
						if !ok || call.Call.StaticCallee() != loopFn {
							continue
						}
						nCall++
						for j, arg := range call.Call.Args {
							if arg == slotOperand && j < len(loopFn.Params) {
								hSlot = loopFn.Params[j]
							}
						}
					}
				}
			}
			if nCall != 1 || hSlot == nil {
				r.undecided(rule, key+"/key", w.pos(loopFn.Pos()), "the loop helper keys its reads by a cell of its own and is not handed the instruction's slot operand at a single call site")
				return
			}
			fn, slotOperand = loopFn, hSlot
			key += "/" + loopFn.Name()
		}
		events := w.cellEvents(fn, cell, readAt, slotOperand, nil, 0)
		nBase := 0
		for _, b := range fn.Blocks {
			for _, ins := range b.Instrs {
				if ev, ok := events[ins]; ok && ev.kind == "base" {
					nBase++
					m, why := w.cellSums(fn, events, ins, stopRead)
					report(fmt.Sprintf("%s/first-read#%d", key, nBase), ins.Pos(), m, why, 0, firstGood, firstBad)
				}
			}
		}
		if nBase == 0 {
			r.undecided(rule, key+"/base", w.pos(fn.Pos()), "no definition of the data base keccak(slot operand) found for the cell keying the loop reads")
		}
		w.reportSteps(r, rule, key, fn, events)
	case *ssa.Parameter:
		// the loop lives in a helper and is keyed by its parameter
		pi := -1
		for k, p := range loopFn.Params {
			if p == c {
				pi = k
			}
		}
		if pi < 0 || loopFn == fn {
			r.undecided(rule, key+"/key", w.pos(loopFn.Pos()), "the cell keying the loop reads is a parameter of the instruction itself")
			return
		}
		// inside the helper: entry -> first read = 0, read -> read = 1
		hev := w.cellEvents(loopFn, cell, readAt, nil, nil, 0)
		m, why := w.cellSums(loopFn, hev, nil, stopRead)
		report(key+"/first-read-in-helper", loopFn.Pos(), m, why, 0, "from the entry of "+relName(loopFn)+" to the first storage read the key is its argument +0", firstBad)
		w.reportSteps(r, rule, key, loopFn, hev)
		// in the instruction: base -> call of the helper = 0, and the argument is the base cell
		nCall := 0
		for _, b := range fn.Blocks {
			for _, ins := range b.Instrs {
				call, ok := ins.(*ssa.Call)
				if !ok || call.Call.StaticCallee() != loopFn || pi >= len(call.Call.Args) {
					continue
				}
				nCall++
				base := w.u256Root(call.Call.Args[pi], 6)
				if _, isAlloc := base.(*ssa.Alloc); !isAlloc {
					r.undecided(rule, key+"/base", w.pos(call.Pos()), "the cell handed to the loop helper is not a local allocation of the instruction")
					continue
				}
				cev := w.cellEvents(fn, base, nil, slotOperand, loopFn, pi)
				nBase := 0
				for _, b2 := range fn.Blocks {
					for _, i2 := range b2.Instrs {
						if ev, ok := cev[i2]; ok && ev.kind == "base" {
							nBase++
							m, why := w.cellSums(fn, cev, i2, map[string]bool{"call": true})
							report(fmt.Sprintf("%s/base-to-helper#%d", key, nBase), i2.Pos(), m, why, 0, "the base keccak(slot) reaches "+relName(loopFn)+" un-incremented", firstBad)
						}
					}
				}
				if nBase == 0 {
					r.undecided(rule, key+"/base", w.pos(call.Pos()), "no definition of the data base keccak(slot operand) found for the cell handed to the loop helper")
				}
			}
		}
		if nCall != 1 {
			r.undecided(rule, key+"/helper-call", w.pos(fn.Pos()), fmt.Sprintf("expected exactly one call of the loop helper %s in the instruction, found %d", relName(loopFn), nCall))
		}
	default:
		r.undecided(rule, key+"/key", w.pos(loopReads[0].Pos()), fmt.Sprintf("the cell keying the loop reads is neither a local allocation nor a helper parameter (%T)", cell))
	}
}

// reportSteps: between two consecutive reads the key advances by exactly 1.
func (w *World) reportSteps(r *Report, rule, key string, fn *ssa.Function, events map[ssa.Instruction]slotEvent) {
	nRead := 0
	for _, b := range fn.Blocks {
		for _, ins := range b.Instrs {
			ev, ok := events[ins]
			if !ok || ev.kind != "read" {
				continue
			}
			nRead++
			m, why := w.cellSums(fn, events, ins, map[string]bool{"read": true})
			k := fmt.Sprintf("%s/step#%d", key, nRead)
			switch {
			case why != "":
				r.undecided(rule, k, w.pos(ins.Pos()), "slot progression not analysable: "+why)
			case len(m) == 1 && m[1]:
				r.holds(rule, k, w.pos(ins.Pos()), "between two consecutive storage reads of the loop the key advances by exactly 1")
			case len(m) == 0:
				r.holds(rule, k, w.pos(ins.Pos()), "no further read follows this one")
			default:
				r.violated(rule, k, w.pos(ins.Pos()), "consecutive data words live in consecutive slots; between two reads the key advances by "+showSums(m))
			}
		}
	}
}
