package main

// R1.6 — the premise of E1's zero-state reasoning, checked. The insertion classes FORK_GUARD, FORK_LOOP,
// the zero-addend strip and the zero-state summaries all argue "without Aspect state this fork-only
// field holds its zero value, so the inserted code is dead". That is only true of a field that ordinary
// execution never writes. The rule therefore demands, for every field the fork ADDED to a struct that
// also exists in the reference (callFrame.JoinPoints, callFrame.joinPoint, EVMInterpreter.<new>, …):
// every store to it in the fork packages lies
//   (a) in a fork-only function that no inherited (CLONE or DELTA) function reaches through static calls —
//       the Aspect event handlers and the host-facing setters, which only aspect-core or the host invoke —, or
//   (b) in the construction of the object (a composite literal, or a store into an object allocated in the
//       same function: NewEVM, NewEVMInterpreter, NewEVMTxContext), or
//   (c) it is one of the reviewed always-on fields, which E1 never treats as zero (the recorder pointers and the
//       join-point enable flag: table below, one line of reason each).
// A cache added to an inherited struct and filled by an inherited instruction (e.g. "input of the last
// KECCAK256") is written in ordinary execution: an `if cache != nil && …` around inherited statements is then
// NOT dead without Aspects, and this rule reports the store.

import (
	"fmt"
	"go/types"
	"sort"
	"strings"

	"golang.org/x/tools/go/ssa"
)

// alwaysOnForkFields: fork-only fields of inherited structs that are set in every execution and that no
// zero-state judgement may rely on (insclass.go never sees them as guards: IsExecuteJP has its own class).
var alwaysOnForkFields = map[string]string{
	"P0.EVM.IsExecuteJP": "join-point enable flag, true by default; judged by JP_REGION and R5.5, never as a zero guard",
}

func addZeroStatePremiseRule(w *World, r *Report, rule string, pairs ...int) {
	fo := w.forkOnly()
	cls := w.funcClasses()
	// functions reachable from inherited code through static calls
	reach := map[*ssa.Function]bool{}
	var stack []*ssa.Function
	for fn, c := range cls {
		if c != ClsNew {
			stack = append(stack, fn)
		}
	}
	for len(stack) > 0 {
		fn := stack[len(stack)-1]
		stack = stack[:len(stack)-1]
		if reach[fn] {
			continue
		}
		reach[fn] = true
		for _, f2 := range withAnon(fn) {
			for _, b := range f2.Blocks {
				for _, ins := range b.Instrs {
					if ci, ok := ins.(ssa.CallInstruction); ok {
						if cal := ci.Common().StaticCallee(); cal != nil && isForkPkg(cal.Pkg) && !reach[cal] {
							stack = append(stack, cal)
						}
					}
				}
			}
		}
	}
	inPairs := map[string]bool{}
	for _, p := range pairs {
		inPairs[forkPath(p)] = true
	}
	type site struct {
		fn  *ssa.Function
		ins ssa.Instruction
	}
	writes := map[string][]site{}
	fieldOf := map[string]*types.Var{}
	for _, fn := range w.forkFuncsAll() {
		for _, b := range fn.Blocks {
			for _, ins := range b.Instrs {
				var addr ssa.Value
				switch x := ins.(type) {
				case *ssa.Store:
					addr = x.Addr
				case *ssa.MapUpdate:
					if u, ok := x.Map.(*ssa.UnOp); ok {
						addr = u.X
					}
				}
				fa, ok := addr.(*ssa.FieldAddr)
				if !ok {
					continue
				}
				st, ok := derefStruct(fa.X.Type())
				if !ok || fa.Field >= st.NumFields() {
					continue
				}
				fv := st.Field(fa.Field)
				if !fo.Fields[fv] {
					continue
				}
				// only fields added to a struct that also exists in the reference
				owner := namedOwner(fa.X.Type())
				tn, isTn := owner.(*types.TypeName)
				if !isTn || fo.Types[tn] || tn.Pkg() == nil || !inPairs[tn.Pkg().Path()] {
					continue
				}
				id := fieldID(fa)
				// (b) the object under construction: the address chain starts at an allocation of this function
				root := fa.X
				for {
					switch y := root.(type) {
					case *ssa.FieldAddr:
						root = y.X
						continue
					case *ssa.IndexAddr:
						root = y.X
						continue
					}
					break
				}
				if _, isAlloc := root.(*ssa.Alloc); isAlloc {
					continue
				}
				// (d) the generated JSON decoders store what was serialised; fork fields are serialised only when non-empty
				// (R18.4), so a decoded value is non-zero only if Aspect state existed when it was written
				if fn.Name() == "UnmarshalJSON" {
					continue
				}
				writes[id] = append(writes[id], site{fn, ins})
				fieldOf[id] = fv
			}
		}
	}
	var ids []string
	for id := range writes {
		ids = append(ids, id)
	}
	sort.Strings(ids)
	n := 0
	for _, id := range ids {
		key := "fork-field:" + id
		if why, ok := alwaysOnForkFields[id]; ok {
			r.holds(rule, key, w.pos(writes[id][0].ins.Pos()), "always-on field (never used as a zero-state guard): "+why)
			n++
			continue
		}
		var bad []string
		for _, s := range writes[id] {
			top := s.fn
			for top.Parent() != nil {
				top = top.Parent()
			}
			c, known := cls[top]
			switch {
			case !known || c != ClsNew:
				bad = append(bad, "stored in the inherited function "+relName(top)+" at "+w.pos(s.ins.Pos()))
			case reach[top]:
				bad = append(bad, "stored in "+relName(top)+", which inherited code reaches through static calls, at "+w.pos(s.ins.Pos()))
			}
		}
		n++
		if len(bad) > 0 {
			r.violated(rule, key, w.pos(writes[id][0].ins.Pos()), "a field the fork added to an inherited struct is written in ordinary execution ("+strings.Join(dedup(bad), "; ")+"): E1's argument that code guarded by this field is dead without Aspect state does not hold")
		} else {
			r.holds(rule, key, w.pos(writes[id][0].ins.Pos()), fmt.Sprintf("%d stores, all in fork-only functions that inherited code does not reach (Aspect event handlers, host-facing setters) or in constructors", len(writes[id])))
		}
	}
	r.need(rule, 1)
	_ = n
}

// R12.7 — the interpreter's hash scratch really is scratch: in every fork function, a use of
// EVMInterpreter.hasherBuf other than as the destination of hasher.Read is dominated by such a Read in the same
// function. No instruction consumes a digest that another instruction left behind; so the journal instructions,
// which hash through the same buffer, cannot change what a later instruction computes.
func addScratchDisciplineRule(w *World, r *Report, rule string) {
	n := 0
	for _, fn := range w.forkFuncsAll() {
		type use struct {
			ins   ssa.Instruction
			write bool
		}
		var uses []use
		for _, b := range fn.Blocks {
			for _, ins := range b.Instrs {
				fa, ok := ins.(*ssa.FieldAddr)
				if !ok || fieldNameOf(fa) != "hasherBuf" || typeBaseName(fa.X.Type()) != "EVMInterpreter" {
					continue
				}
				// the destination of hasher.Read(hasherBuf[:])?
				isDst := false
				for _, ref := range *fa.Referrers() {
					sl, ok := ref.(*ssa.Slice)
					if !ok {
						continue
					}
					for _, r2 := range *sl.Referrers() {
						if ci, ok := r2.(ssa.CallInstruction); ok && ci.Common().IsInvoke() && ci.Common().Method.Name() == "Read" {
							isDst = true
						}
					}
				}
				uses = append(uses, use{ins, isDst})
			}
		}
		if len(uses) == 0 {
			continue
		}
		n++
		key := relName(fn) + "/hasherBuf"
		var bad []string
		for _, u := range uses {
			if u.write {
				continue
			}
			ok := false
			for _, wv := range uses {
				if !wv.write {
					continue
				}
				wb, ub := wv.ins.Block(), u.ins.Block()
				if wb == ub {
					for _, ins := range wb.Instrs {
						if ins == wv.ins {
							ok = true
							break
						}
						if ins == u.ins {
							break
						}
					}
				} else if wb.Dominates(ub) {
					ok = true
				}
			}
			if !ok {
				bad = append(bad, "the scratch digest buffer is read at "+w.pos(u.ins.Pos())+" on a path that has not hashed into it in this function")
			}
		}
		if len(bad) > 0 {
			r.violated(rule, key, w.pos(fn.Pos()), strings.Join(dedup(bad), "; ")+": the value may be the digest another instruction (e.g. a journal instruction) left there")
		} else {
			r.holds(rule, key, w.pos(fn.Pos()), fmt.Sprintf("%d uses of the scratch digest buffer, every read dominated by hasher.Read into it", len(uses)))
		}
	}
	r.need(rule, 2)
	_ = n
}
