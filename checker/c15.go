package main

// C15: Cancun additions (EIP-1153, EIP-5656): E1 clone facts, E5 table facts, sibling agreement
// between the MCOPY instruction, its memory-size function and its gas function.

import (
	"fmt"
	"go/ast"
	"go/constant"
	"go/token"
	"go/types"
	"strings"

	"golang.org/x/tools/go/ssa"
)

func init() {
	register("C15", true, true, checkC15)
}

func checkC15(w *World, tier string) *Report {
	r := newReport("C15")
	r.Explanation = "R15.1 (clone rule): opTload, opTstore (incl. the read-only test before the state write), memoryCopierGas, memoryGasCost, toWordSize, calcMemSize64(+WithUint), Memory.Resize/Set and the interpreter loop are SSA clones of go-ethereum v1.12.0; enable1153 embeds the reference with the renumbered opcode bytes; R15.1r the vm/runtime entry points (which call StateDB.Prepare, where transient storage is emptied at a transaction boundary) are clones; " +
		"R15.2 (table facts): TLOAD/TSTORE have constantGas = params.WarmStorageReadCostEIP2929, no dynamic gas, stacks (1,1)/(2,0); MCOPY has constantGas = GasFastestStep, dynamicGas = gasMcopy = memoryCopierGas(2), stacks (3,0), memorySize = memoryMcopy; the Cancun constructor is the Shanghai constructor plus enable1153 and enable5656; NewEVMInterpreter tests IsCancun first and selects that table; 0x5c-0x5e are written by no other function and the enablers are referenced from nowhere else, so the bytes are invalid before Cancun; " +
		"R15.3 (operand agreement of siblings): opMcopy pops (dst, src, len) from positions 0,1,2 and passes them to Memory.Copy in that order; memoryMcopy sizes memory as calcMemSize64(max(Back(0), Back(1)), Back(2)); the gas function reads position 2; Memory.Copy is copy(store[dst:], store[src:src+len]) guarded by len != 0 (zero-length copies touch nothing, memory having not been expanded). " +
		"memmove semantics of the builtin copy, the transient-storage journal of the StateDB and equality with an executable EIP-5656 model are not decided (no newer reference implementation on disk)."
	s := w.e1()
	want := map[string]bool{"opTload": true, "opTstore": true, "enable1153": true, "memoryCopierGas": true, "memoryGasCost": true, "toWordSize": true, "calcMemSize64": true, "calcMemSize64WithUint": true,
		"(*Memory).Resize": true, "(*Memory).Set": true, "(*Memory).Len": true, "(*EVMInterpreter).Run": true, "newShanghaiInstructionSet": true, "validate": true, "NewEVMInterpreter": true}
	s.cloneRule(r, "R15.1", pkVM, func(name string, pr *PairResult) bool { return want[name] })
	r.need("R15.1", 12)
	// the execution harness that starts a transaction (runtime.Execute/Create/Call) calls StateDB.Prepare, the only
	// place where transient storage is emptied at a transaction boundary: it must be the reference's
	s.cloneRule(r, "R15.1r", pkRuntime, nil)
	r.need("R15.1r", 3)
	// transient storage is kept per contract address: the address a frame's code operates on is the reference's
	// (the caller's under CALLCODE/DELEGATECALL) — shared with C10 R10.4
	{
		addrOf := map[string]bool{"(*Contract).Address": true, "(*Contract).AsDelegate": true, "NewContract": true, "(*EVM).DelegateCall": true, "(*EVM).CallCode": true,
			"opDelegateCall": true, "opCallCode": true, "(*Contract).Caller": true, "(*Contract).SetCallCode": true, "(*Contract).SetCodeOptionalHash": true}
		s.cloneRule(r, "R10.4", pkVM, func(name string, pr *PairResult) bool { return addrOf[name] })
		r.need("R10.4", 7)
		r.Explanation += " R10.4 (shared with C10) the address a frame's code operates on (Contract.Address, the CALLCODE/DELEGATECALL frame constructors) is the reference's: transient storage is keyed by it."
	}
	// seventh batch: "restored when a frame reverts" rests on the frame entry points reverting to their snapshot on
	// every failure (a CREATE whose code deposit runs out of gas included): C04's path rule R4.1 over the five
	// entry points, and the embedding of create; and "the fixed fee" rests on the instruction-set constructors
	emitReturnRule(w, r, "R4.1", nil)
	s.cloneRule(r, "R15.4", pkVM, func(name string, pr *PairResult) bool { return name == "(*EVM).create" || name == "(*EVM).Call" })
	r.need("R15.4", 2)
	r.Explanation += " R4.1 (shared with C04) every failing path of the five frame entry points passes RevertToSnapshot, which is what rolls transient storage back; R15.4 (shared with C01) Call and create embed the reference's bodies."
	addR152(w, r, "R15.2")
	addTableRules(w, r, "R15.2t")
	addR153(w, r, "R15.3")
	r.Assumptions = append(r.Assumptions, "StateDB.Get/SetTransientState implement per-address transient storage that is journaled and cleared per transaction (external)", "the builtin copy has memmove semantics (Go specification)")
	return r
}

func constOf(info *types.Info, e ast.Expr) constant.Value {
	if e == nil {
		return nil
	}
	if tv, ok := info.Types[e]; ok {
		return tv.Value
	}
	return nil
}

func addR152(w *World, r *Report, rule string) {
	vm := w.Pkgs[forkPath(pkVM)]
	info := vm.TypesInfo
	pkgConst := func(pkgPath, name string) constant.Value {
		for _, imp := range vm.Types.Imports() {
			if imp.Path() == pkgPath {
				if c, ok := imp.Scope().Lookup(name).(*types.Const); ok {
					return c.Val()
				}
			}
		}
		if pkgPath == "" {
			if c, ok := vm.Types.Scope().Lookup(name).(*types.Const); ok {
				return c.Val()
			}
		}
		return nil
	}
	warm := pkgConst("github.com/ethereum/go-ethereum/params", "WarmStorageReadCostEIP2929")
	fastest := pkgConst("", "GasFastestStep")
	type want struct {
		slot             int64
		name, exec, inst string
		cgas             constant.Value
		dyn, mem         string
		pops, pushes     int64
	}
	wants := []want{
		{0x5c, "TLOAD", "opTload", "enable1153", warm, "", "", 1, 1},
		{0x5d, "TSTORE", "opTstore", "enable1153", warm, "", "", 2, 0},
		{0x5e, "MCOPY", "opMcopy", "enable5656", fastest, "gasMcopy", "memoryMcopy", 3, 0},
	}
	lits := w.slotLits(0x5c, 0x5e)
	for _, wt := range wants {
		key := fmt.Sprintf("slot 0x%02x %s", wt.slot, wt.name)
		var found []journalSlot
		for _, l := range lits {
			if l.slot == wt.slot {
				found = append(found, l)
			}
		}
		if len(found) != 1 {
			r.violated(rule, key, "-", fmt.Sprintf("expected exactly one literal installing the slot, found %d", len(found)))
			continue
		}
		l := found[0]
		var bad []string
		if l.execute != wt.exec {
			bad = append(bad, "execute is "+l.execute+", expected "+wt.exec)
		}
		if l.installer != wt.inst {
			bad = append(bad, "installed by "+l.installer+", expected "+wt.inst)
		}
		cg := constOf(info, l.fields["constantGas"])
		if cg == nil || wt.cgas == nil || !constant.Compare(cg, token.EQL, wt.cgas) {
			bad = append(bad, fmt.Sprintf("constantGas is %v, the EIP requires %v", cg, wt.cgas))
		}
		identName := func(e ast.Expr) string {
			if id, ok := e.(*ast.Ident); ok {
				return id.Name
			}
			if e == nil {
				return ""
			}
			return "<expr>"
		}
		if got := identName(l.fields["dynamicGas"]); got != wt.dyn {
			bad = append(bad, "dynamicGas is `"+got+"`, expected `"+wt.dyn+"`")
		}
		if got := identName(l.fields["memorySize"]); got != wt.mem {
			bad = append(bad, "memorySize is `"+got+"`, expected `"+wt.mem+"`")
		}
		mn, mnP, ok1 := stackArgs(info, l.fields["minStack"], "minStack")
		mx, mxP, ok2 := stackArgs(info, l.fields["maxStack"], "maxStack")
		if !ok1 || !ok2 || mn != wt.pops || mx != wt.pops || mnP != wt.pushes || mxP != wt.pushes {
			bad = append(bad, fmt.Sprintf("declared stack effect is not (%d pops, %d pushes)", wt.pops, wt.pushes))
		}
		if len(bad) > 0 {
			r.violated(rule, key, w.pos(l.pos), strings.Join(bad, "; "))
		} else {
			r.holds(rule, key, w.pos(l.pos), fmt.Sprintf("execute %s, constantGas %v, dynamicGas `%s`, memorySize `%s`, stack (%d,%d), installed by %s", wt.exec, cg, wt.dyn, wt.mem, wt.pops, wt.pushes, wt.inst))
		}
	}
	addGasMcopyRule(w, r, rule)
	// Cancun constructor
	{
		key := "vm.newCancunInstructionSet"
		fd, _ := w.FuncDecl(forkPath(pkVM), "newCancunInstructionSet")
		if fd == nil {
			r.undecided(rule, key, "-", "constructor not found")
		} else {
			calls := map[string]bool{}
			base := ""
			for i, st := range fd.Body.List {
				for _, c := range callsIn(st) {
					if id, ok := c.Fun.(*ast.Ident); ok && isPkgLevel(info.Uses[id]) {
						calls[id.Name] = true
						if i == 0 && base == "" {
							base = id.Name
						}
					}
				}
			}
			var bad []string
			if base != "newShanghaiInstructionSet" {
				bad = append(bad, "the table is not built on newShanghaiInstructionSet() (found "+base+")")
			}
			// every path of the constructor applies the enablers and the validation (directly, or through a fork
			// helper that does so on every one of its paths)
			ctor := w.Func(forkPath(pkVM), "newCancunInstructionSet")
			var always func(f *ssa.Function, name string, depth int) bool
			always = func(f *ssa.Function, name string, depth int) bool {
				if f == nil || f.Blocks == nil || depth > 3 {
					return false
				}
				return mustCallBeforeReturn(f, func(c ssa.CallInstruction) bool {
					cal := c.Common().StaticCallee()
					if cal == nil || !isForkPkg(cal.Pkg) {
						return false
					}
					return cal.Name() == name || (cal != f && always(cal, name, depth+1))
				}, nil) == nil
			}
			for _, need := range []string{"enable1153", "enable5656", "validate"} {
				if !always(ctor, need, 0) {
					bad = append(bad, need+" is not applied on every path")
				}
			}
			_ = calls
			if len(bad) > 0 {
				r.violated(rule, key, w.pos(fd.Pos()), strings.Join(bad, "; "))
			} else {
				r.holds(rule, key, w.pos(fd.Pos()), "Shanghai table + enable1153 + enable5656, validated")
			}
		}
	}
	// NewEVMInterpreter: IsCancun is decided before every other fork rule and selects &cancunInstructionSet (on SSA:
	// holds for a leading switch case as well as for an `if IsCancun { … } else { switch … }`)
	{
		key := "vm.NewEVMInterpreter/table-switch"
		fn := w.Func(forkPath(pkVM), "NewEVMInterpreter")
		ok, why, pos := false, "no decision on IsCancun found", token.NoPos
		ruleField := func(v ssa.Value) string {
			u, isU := v.(*ssa.UnOp)
			if !isU || u.Op != token.MUL {
				return ""
			}
			fa, isFa := u.X.(*ssa.FieldAddr)
			if !isFa {
				return ""
			}
			if n := fieldNameOf(fa); strings.HasPrefix(n, "Is") && typeBaseName(fa.X.Type()) == "Rules" {
				return n
			}
			return ""
		}
		if fn != nil {
			var cancun *ssa.BasicBlock
			for _, b := range fn.Blocks {
				if iff, isIf := b.Instrs[len(b.Instrs)-1].(*ssa.If); isIf && ruleField(iff.Cond) == "IsCancun" {
					cancun = b
					pos = iff.Pos()
				}
			}
			if cancun != nil {
				ok, why = true, ""
				for _, b := range fn.Blocks {
					if iff, isIf := b.Instrs[len(b.Instrs)-1].(*ssa.If); isIf && b != cancun && ruleField(iff.Cond) != "" && !cancun.Dominates(b) {
						ok, why = false, "the decision on "+ruleField(iff.Cond)+" is not taken after the one on IsCancun: an earlier fork's table would shadow Cancun"
					}
				}
				// on the true side the table that reaches the join is &cancunInstructionSet
				t := cancun.Succs[0]
				selected := false
				for _, b := range fn.Blocks {
					for _, ins := range b.Instrs {
						phi, isPhi := ins.(*ssa.Phi)
						if !isPhi {
							continue
						}
						for k, e := range phi.Edges {
							g, isG := e.(*ssa.Global)
							if !isG || g.Name() != "cancunInstructionSet" {
								continue
							}
							p := b.Preds[k]
							if (p == cancun && t == b) || (len(t.Preds) == 1 && t.Dominates(p)) {
								selected = true
							}
						}
					}
				}
				if ok && !selected {
					ok, why = false, "the IsCancun side does not select &cancunInstructionSet"
				}
			}
		}
		if ok {
			r.holds(rule, key, w.pos(pos), "IsCancun is tested first and selects &cancunInstructionSet")
		} else {
			r.violated(rule, key, w.pos(pos), why)
		}
	}
	r.need(rule, 6)
}

// backIndex: v is the result of (*Stack).Back(stack, k) -> k
func backIndex(v ssa.Value) (int64, bool) {
	c, ok := v.(*ssa.Call)
	if !ok {
		return 0, false
	}
	cal := c.Call.StaticCallee()
	if cal == nil || cal.Name() != "Back" || cal.Signature.Recv() == nil || typeBaseName(cal.Signature.Recv().Type()) != "Stack" || len(c.Call.Args) != 2 {
		return 0, false
	}
	k, ok := c.Call.Args[1].(*ssa.Const)
	if !ok || k.Value == nil {
		return 0, false
	}
	return constant.Int64Val(k.Value)
}

func addR153(w *World, r *Report, rule string) {
	// (a) opMcopy
	{
		key := "vm.opMcopy"
		fn := w.Func(forkPath(pkVM), "opMcopy")
		if fn == nil {
			r.undecided(rule, key, "-", "function not found")
		} else {
			var popAllocs []ssa.Value
			var copyCall *ssa.Call
			for _, b := range fn.Blocks {
				for _, ins := range b.Instrs {
					c, ok := ins.(*ssa.Call)
					if !ok {
						continue
					}
					cal := c.Call.StaticCallee()
					if cal == nil || cal.Signature.Recv() == nil {
						continue
					}
					switch typeBaseName(cal.Signature.Recv().Type()) + "." + cal.Name() {
					case "Stack.pop":
						var dst ssa.Value
						for _, u := range *c.Referrers() {
							if st, ok := u.(*ssa.Store); ok && st.Val == ssa.Value(c) {
								dst = st.Addr
							}
						}
						popAllocs = append(popAllocs, dst)
						if b != fn.Blocks[0] {
							popAllocs = append(popAllocs, nil) // forces a mismatch
						}
					case "Memory.Copy":
						copyCall = c
					}
				}
			}
			bad := ""
			switch {
			case len(popAllocs) != 3:
				bad = fmt.Sprintf("expected 3 unconditional pops, found %d", len(popAllocs))
			case copyCall == nil || len(copyCall.Call.Args) != 4:
				bad = "no Memory.Copy(dst, src, len) call"
			default:
				for i := 0; i < 3; i++ {
					a, ok := copyCall.Call.Args[i+1].(*ssa.Call)
					okArg := false
					if ok {
						if cal := a.Call.StaticCallee(); cal != nil && cal.Name() == "Uint64" && len(a.Call.Args) == 1 && popAllocs[i] != nil && a.Call.Args[0] == popAllocs[i] {
							okArg = true
						}
					}
					if !okArg {
						bad = fmt.Sprintf("argument %d of Memory.Copy is not the low 64 bits of operand %d (the operands are dst, src, len in pop order)", i+1, i)
						break
					}
				}
			}
			if bad != "" {
				r.violated(rule, key, w.pos(fn.Pos()), bad)
			} else {
				r.holds(rule, key, w.pos(fn.Pos()), "pops dst, src, len (positions 0,1,2) and calls Memory.Copy(dst, src, len)")
			}
		}
	}
	// (b) memoryMcopy
	{
		key := "vm.memoryMcopy"
		fn := w.Func(forkPath(pkVM), "memoryMcopy")
		if fn == nil {
			r.undecided(rule, key, "-", "function not found")
		} else {
			retBad := ""
			bad := "no return of calcMemSize64(start, Back(2)) found"
			for _, b := range fn.Blocks {
				for _, ins := range b.Instrs {
					ret, ok := ins.(*ssa.Return)
					if !ok {
						continue
					}
					// return of a tuple call: results are Extracts of one call
					var call *ssa.Call
					for _, rv := range ret.Results {
						if ex, ok := rv.(*ssa.Extract); ok {
							if c, ok := ex.Tuple.(*ssa.Call); ok {
								call = c
							}
						}
					}
					if call == nil {
						bad = "the result is not the pair returned by calcMemSize64"
						if retBad == "" {
							retBad = bad
						}
						continue
					}
					cal := call.Call.StaticCallee()
					if cal == nil || cal.Name() != "calcMemSize64" || len(call.Call.Args) != 2 {
						bad = "the result is not the pair returned by calcMemSize64"
						if retBad == "" {
							retBad = bad
						}
						continue
					}
					if k, ok := backIndex(call.Call.Args[1]); !ok || k != 2 {
						bad = "the length argument is not stack position 2"
						if retBad == "" {
							retBad = bad
						}
						continue
					}
					if k, direct := backIndex(call.Call.Args[0]); direct {
						// one return per outcome of the comparison: this one must be on the side where position k is the larger
						if why := largerOnThisSide(call.Block(), k); why != "" && retBad == "" {
							retBad = why
						}
						bad = retBad
						continue
					}
					bad = maxOfBack01(call.Call.Args[0])
					if bad != "" && retBad == "" {
						retBad = bad
					}
					bad = retBad
				}
			}
			if bad != "" {
				r.violated(rule, key, w.pos(fn.Pos()), "memory must be sized to cover both the source and the destination range: "+bad)
			} else {
				r.holds(rule, key, w.pos(fn.Pos()), "calcMemSize64(max(Back(0), Back(1)), Back(2))")
			}
		}
	}
	// (c) Memory.Copy
	{
		key := "vm.(*Memory).Copy"
		fn := w.Func(forkPath(pkVM), "(*Memory).Copy")
		if fn == nil || len(fn.Params) != 4 {
			r.undecided(rule, key, "-", "function not found")
		} else {
			dst, src, ln := fn.Params[1], fn.Params[2], fn.Params[3]
			bad := "no builtin copy found"
			for _, b := range fn.Blocks {
				for _, ins := range b.Instrs {
					c, ok := ins.(*ssa.Call)
					if !ok {
						continue
					}
					bi, ok := c.Call.Value.(*ssa.Builtin)
					if !ok || bi.Name() != "copy" {
						continue
					}
					d, ok1 := c.Call.Args[0].(*ssa.Slice)
					s, ok2 := c.Call.Args[1].(*ssa.Slice)
					isStore := func(v ssa.Value) bool {
						ld, ok := v.(*ssa.UnOp)
						if !ok {
							return false
						}
						fa, ok := ld.X.(*ssa.FieldAddr)
						return ok && fieldID(fa) == "P0.Memory.store" && fa.X == ssa.Value(fn.Params[0])
					}
					isSum := func(v ssa.Value) bool {
						bo, ok := v.(*ssa.BinOp)
						return ok && bo.Op == token.ADD && ((bo.X == ssa.Value(src) && bo.Y == ssa.Value(ln)) || (bo.X == ssa.Value(ln) && bo.Y == ssa.Value(src)))
					}
					switch {
					case !ok1 || !ok2 || !isStore(d.X) || !isStore(s.X):
						bad = "copy does not operate on two slices of m.store"
					case d.Low != ssa.Value(dst) || (d.High != nil && !isSumOf(d.High, dst, ln)):
						bad = "the destination is not m.store[dst:] / m.store[dst:dst+len]"
					case s.Low != ssa.Value(src) || s.High == nil || !isSum(s.High):
						bad = "the source is not m.store[src:src+len]"
					case !dominatedByNonZero(b, ln):
						bad = "the copy is not guarded by len != 0: a zero-length MCOPY with an out-of-range offset must touch nothing (memory is not expanded for it)"
					default:
						bad = ""
					}
				}
			}
			if bad != "" {
				r.violated(rule, key, w.pos(fn.Pos()), bad)
			} else {
				r.holds(rule, key, w.pos(fn.Pos()), "copy(m.store[dst:], m.store[src:src+len]) under len != 0")
			}
		}
	}
	r.need(rule, 3)
}

func isSumOf(v ssa.Value, a, b ssa.Value) bool {
	bo, ok := v.(*ssa.BinOp)
	return ok && bo.Op == token.ADD && ((bo.X == a && bo.Y == b) || (bo.X == b && bo.Y == a))
}

// dominatedByNonZero: block b is reached only through the non-zero edge of a test `p == 0` / `p != 0`.
func dominatedByNonZero(b *ssa.BasicBlock, p ssa.Value) bool {
	for d := b; d != nil; d = d.Idom() {
		id := d.Idom()
		if id == nil {
			break
		}
		iff, ok := id.Instrs[len(id.Instrs)-1].(*ssa.If)
		if !ok {
			continue
		}
		bo, ok := iff.Cond.(*ssa.BinOp)
		if !ok || (bo.Op != token.EQL && bo.Op != token.NEQ && bo.Op != token.GTR) {
			continue
		}
		var other ssa.Value
		if bo.X == p {
			other = bo.Y
		} else if bo.Y == p && bo.Op != token.GTR {
			other = bo.X
		} else {
			continue
		}
		k, ok := other.(*ssa.Const)
		if !ok || k.Value == nil || constant.Sign(k.Value) != 0 {
			continue
		}
		// which successor is the non-zero edge?
		nz := id.Succs[1] // p == 0: false edge
		if bo.Op != token.EQL {
			nz = id.Succs[0]
		}
		if nz == d && len(d.Preds) == 1 {
			return true
		}
	}
	return false
}

// largerOnThisSide: block b is reached only through the side of a Gt/Lt comparison of stack positions 0 and 1
// on which position k holds the larger value (ties go either way).
func largerOnThisSide(b *ssa.BasicBlock, k int64) string {
	for d := b; d != nil; d = d.Idom() {
		id := d.Idom()
		if id == nil {
			break
		}
		iff, ok := id.Instrs[len(id.Instrs)-1].(*ssa.If)
		if !ok || id.Succs[0] == id.Succs[1] {
			continue
		}
		cmp, ok := iff.Cond.(*ssa.Call)
		if !ok || cmp.Call.StaticCallee() == nil || len(cmp.Call.Args) != 2 {
			continue
		}
		a, okA := backIndex(cmp.Call.Args[0])
		c, okC := backIndex(cmp.Call.Args[1])
		if !okA || !okC || a == c || a > 1 || c > 1 {
			continue
		}
		var largerIfTrue int64
		switch cmp.Call.StaticCallee().Name() {
		case "Gt":
			largerIfTrue = a
		case "Lt":
			largerIfTrue = c
		default:
			continue
		}
		onTrue := id.Succs[0] == d && len(d.Preds) == 1
		onFalse := id.Succs[1] == d && len(d.Preds) == 1
		switch {
		case onTrue && k == largerIfTrue, onFalse && k == 1-largerIfTrue:
			return ""
		case onTrue || onFalse:
			return "the start argument is the smaller of stack positions 0 and 1 on this side of the comparison"
		}
	}
	return "the start argument is one stack position chosen without comparing positions 0 and 1"
}

// maxOfBack01: v is phi(Back(0), Back(1)) selected by a comparison of the two that picks the larger.
func maxOfBack01(v ssa.Value) string {
	// the choice may be made by a helper that returns the larger of its two arguments
	if c, isCall := v.(*ssa.Call); isCall {
		if h := c.Call.StaticCallee(); h != nil && isForkPkg(h.Pkg) && h.Blocks != nil && len(h.Params) == 2 && len(c.Call.Args) == 2 {
			a, okA := backIndex(c.Call.Args[0])
			b, okB := backIndex(c.Call.Args[1])
			if !okA || !okB || a == b || a > 1 || b > 1 {
				return "the helper choosing the start is not applied to stack positions 0 and 1"
			}
			return maxOfParams(h)
		}
	}
	phi, ok := v.(*ssa.Phi)
	if !ok || len(phi.Edges) != 2 {
		return "the start argument is not a choice between stack positions 0 and 1"
	}
	blk := phi.Block()
	idx := [2]int64{}
	for i, e := range phi.Edges {
		k, ok := backIndex(e)
		if !ok || (k != 0 && k != 1) {
			return "the start argument is not a choice between stack positions 0 and 1"
		}
		idx[i] = k
	}
	if idx[0] == idx[1] {
		return "only one of the two start positions is ever used"
	}
	// find the branch: one predecessor is the block holding the If (fallthrough edge), the other the then-block
	var ifBlk *ssa.BasicBlock
	for _, p := range blk.Preds {
		if _, ok := p.Instrs[len(p.Instrs)-1].(*ssa.If); ok {
			ifBlk = p
		}
	}
	if ifBlk == nil {
		return "no comparison selects between the two starts"
	}
	iff := ifBlk.Instrs[len(ifBlk.Instrs)-1].(*ssa.If)
	cmp, ok := iff.Cond.(*ssa.Call)
	if !ok || cmp.Call.StaticCallee() == nil || len(cmp.Call.Args) != 2 {
		return "the selecting condition is not a Gt/Lt comparison of the two starts"
	}
	a, okA := backIndex(cmp.Call.Args[0])
	b, okB := backIndex(cmp.Call.Args[1])
	if !okA || !okB || a == b || a > 1 || b > 1 {
		return "the selecting condition does not compare stack positions 0 and 1"
	}
	name := cmp.Call.StaticCallee().Name()
	// larger operand when the condition is true
	var largerIfTrue int64
	switch name {
	case "Gt":
		largerIfTrue = a
	case "Lt":
		largerIfTrue = b
	default:
		return "the selecting condition is not a Gt/Lt comparison of the two starts"
	}
	// value chosen when the condition is true: the phi edge that comes from the then-side
	var chosenIfTrue int64 = -1
	for i, p := range blk.Preds {
		if p == ifBlk {
			// direct edge from the If block: it is the true edge iff Succs[0] == blk
			if ifBlk.Succs[0] == blk {
				chosenIfTrue = idx[i]
			}
		} else if ifBlk.Succs[0] == p {
			chosenIfTrue = idx[i]
		}
	}
	if chosenIfTrue < 0 {
		return "cannot relate the comparison to the chosen start"
	}
	if chosenIfTrue != largerIfTrue {
		return "the comparison selects the smaller of the two starts"
	}
	return ""
}


// maxOfParams: the two-parameter helper returns, on every path, one of its parameters, and the one it
// returns when its Gt/Lt comparison of the two holds is the larger one.
func maxOfParams(h *ssa.Function) string {
	pidx := func(v ssa.Value) int {
		for i, p := range h.Params {
			if v == ssa.Value(p) {
				return i
			}
		}
		return -1
	}
	var iff *ssa.If
	for _, b := range h.Blocks {
		if x, ok := b.Instrs[len(b.Instrs)-1].(*ssa.If); ok {
			if iff != nil {
				return "the helper choosing the start has more than one branch"
			}
			iff = x
		}
	}
	if iff == nil {
		return "the helper choosing the start makes no comparison"
	}
	cmp, ok := iff.Cond.(*ssa.Call)
	if !ok || cmp.Call.StaticCallee() == nil || len(cmp.Call.Args) != 2 {
		return "the helper's condition is not a Gt/Lt comparison of its two arguments"
	}
	a, b := pidx(cmp.Call.Args[0]), pidx(cmp.Call.Args[1])
	if a < 0 || b < 0 || a == b {
		return "the helper's condition does not compare its two arguments"
	}
	larger := -1
	switch cmp.Call.StaticCallee().Name() {
	case "Gt":
		larger = a
	case "Lt":
		larger = b
	default:
		return "the helper's condition is not a Gt/Lt comparison of its two arguments"
	}
	ib := iff.Block()
	valueOn := func(succ *ssa.BasicBlock, other *ssa.BasicBlock) int {
		// the parameter returned on the path through succ (a return block, or a join with a phi)
		for _, blk := range h.Blocks {
			ret, ok := blk.Instrs[len(blk.Instrs)-1].(*ssa.Return)
			if !ok || len(ret.Results) != 1 {
				continue
			}
			if blk == succ || (succ.Dominates(blk) && !other.Dominates(blk) && blk != other) {
				if phi, isPhi := ret.Results[0].(*ssa.Phi); isPhi {
					_ = phi
					continue
				}
				return pidx(ret.Results[0])
			}
		}
		// a join block with a phi
		for _, blk := range h.Blocks {
			ret, ok := blk.Instrs[len(blk.Instrs)-1].(*ssa.Return)
			if !ok || len(ret.Results) != 1 {
				continue
			}
			if phi, isPhi := ret.Results[0].(*ssa.Phi); isPhi && phi.Block() == blk {
				for i, pr := range blk.Preds {
					if pr == succ || (pr == ib && blk == succ) {
						return pidx(phi.Edges[i])
					}
				}
			}
		}
		return -1
	}
	t, f := valueOn(ib.Succs[0], ib.Succs[1]), valueOn(ib.Succs[1], ib.Succs[0])
	if t < 0 || f < 0 || t == f {
		return "the helper choosing the start does not return one argument on each side of its comparison"
	}
	if t != larger {
		return "the comparison selects the smaller of the two starts"
	}
	return ""
}

// addGasMcopyRule: the gas function of MCOPY is memoryCopierGas(2) — per-word copy gas on the length operand
// plus memory expansion (shared by C15 and C20: without it the work of a copy is not paid for).
func addGasMcopyRule(w *World, r *Report, rule string) {
	vm := w.Pkgs[forkPath(pkVM)]
	info := vm.TypesInfo
	// gasMcopy = memoryCopierGas(2)
	{
		key := "var gasMcopy"
		ok, pos := false, token.NoPos
		for _, f := range vm.Syntax {
			for _, d := range f.Decls {
				gd, isG := d.(*ast.GenDecl)
				if !isG || gd.Tok != token.VAR {
					continue
				}
				for _, sp := range gd.Specs {
					vs := sp.(*ast.ValueSpec)
					for i, n := range vs.Names {
						if n.Name != "gasMcopy" || i >= len(vs.Values) {
							continue
						}
						pos = n.Pos()
						if call, isCall := vs.Values[i].(*ast.CallExpr); isCall && len(call.Args) == 1 {
							if id, isId := call.Fun.(*ast.Ident); isId && id.Name == "memoryCopierGas" && isPkgLevel(info.Uses[id]) {
								if c := constOf(info, call.Args[0]); c != nil && constant.Compare(c, token.EQL, constant.MakeInt64(2)) {
									ok = true
								}
							}
						}
					}
				}
			}
		}
		if ok {
			r.holds(rule, key, w.pos(pos), "memoryCopierGas(2): per-word copy gas on the length operand (stack position 2) plus memory expansion")
		} else {
			r.violated(rule, key, w.pos(pos), "gasMcopy must be memoryCopierGas(2): the length of MCOPY is its third operand")
		}
	}
}
