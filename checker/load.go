package main

import (
	"fmt"
	"go/ast"
	"go/token"
	"go/types"
	"os"
	"path/filepath"
	"sort"
	"strings"

	"golang.org/x/tools/go/packages"
	"golang.org/x/tools/go/ssa"
	"golang.org/x/tools/go/ssa/ssautil"
)

const forkMod = "github.com/artela-network/artela-evm"
const refMod = "github.com/ethereum/go-ethereum"

// pkgPairs maps fork packages onto their reference counterparts.
var pkgPairs = [][2]string{
	{forkMod + "/vm", refMod + "/core/vm"},
	{forkMod + "/vm/runtime", refMod + "/core/vm/runtime"},
	{forkMod + "/tracers", refMod + "/eth/tracers"},
	{forkMod + "/tracers/native", refMod + "/eth/tracers/native"},
	{forkMod + "/tracers/logger", refMod + "/eth/tracers/logger"},
	{forkMod + "/core", refMod + "/core"},
}

// World is everything one check run looks at.
type World struct {
	RepoDir string
	Fset    *token.FileSet
	Pkgs    map[string]*packages.Package // by package path
	Prog    *ssa.Program
	SSA     map[string]*ssa.Package
	WithRef bool

	allFuncs map[*ssa.Function]bool
	funcIdx  map[string]map[string]*ssa.Function // pkg path -> RelString -> fn
	e1cache  *e1State
	frameCache map[string]*frameResult
	renv       *rangeEnv
	nilable    map[string]string
	retNonNil  map[*ssa.Function]bool
	mayNilRet  map[*ssa.Function]map[int]nilRet
	alias      *aliasEngine
	helperMemo map[string]map[string]string
}

func repoDir() string {
	if d := os.Getenv("VERIF_REPO"); d != "" {
		return d
	}
	return "/repo"
}

// loadWorld loads and type-checks the fork packages (and the reference packages
// when withRef) from the current working tree of the repository, and builds SSA
// for exactly those packages. Any load or type error is fatal for the check.
func loadWorld(withRef bool, withSSA bool) (*World, error) {
	dir := repoDir()
	// private -modfile so that /repo/go.mod and /repo/go.sum are never touched
	tmp, err := os.MkdirTemp("", "verifchk-mod-")
	if err != nil {
		return nil, err
	}
	defer os.RemoveAll(tmp)
	for _, f := range []string{"go.mod", "go.sum"} {
		b, err := os.ReadFile(filepath.Join(dir, f))
		if err != nil {
			return nil, fmt.Errorf("read %s: %v", f, err)
		}
		if err := os.WriteFile(filepath.Join(tmp, f), b, 0o644); err != nil {
			return nil, err
		}
	}
	env := []string{}
	for _, e := range os.Environ() {
		if strings.HasPrefix(e, "GOFLAGS=") || strings.HasPrefix(e, "GOWORK=") || strings.HasPrefix(e, "GOPROXY=") ||
			strings.HasPrefix(e, "GOSUMDB=") || strings.HasPrefix(e, "GOTOOLCHAIN=") {
			continue
		}
		env = append(env, e)
	}
	env = append(env, "GOFLAGS=-mod=mod -modfile="+filepath.Join(tmp, "go.mod"), "GOWORK=off", "GOPROXY=off", "GOSUMDB=off", "GOTOOLCHAIN=local")
	mode := packages.LoadAllSyntax
	if !withSSA {
		mode = packages.LoadSyntax
	}
	cfg := &packages.Config{Mode: mode, Dir: dir, Tests: false, Env: env}
	var pats []string
	for _, p := range pkgPairs {
		pats = append(pats, p[0])
		if withRef {
			pats = append(pats, p[1])
		}
	}
	pkgs, err := packages.Load(cfg, pats...)
	if err != nil {
		return nil, fmt.Errorf("packages.Load: %v", err)
	}
	w := &World{RepoDir: dir, Pkgs: map[string]*packages.Package{}, SSA: map[string]*ssa.Package{}, WithRef: withRef}
	nerr := 0
	for _, p := range pkgs {
		w.Fset = p.Fset
		w.Pkgs[p.PkgPath] = p
		for _, e := range p.Errors {
			fmt.Fprintf(os.Stderr, "load error: %s: %v\n", p.PkgPath, e)
			nerr++
		}
		if p.Types == nil || len(p.Syntax) == 0 {
			fmt.Fprintf(os.Stderr, "load error: package %s has no syntax/types\n", p.PkgPath)
			nerr++
		}
	}
	if nerr > 0 {
		return nil, fmt.Errorf("%d load/type errors", nerr)
	}
	for _, p := range pats {
		if w.Pkgs[p] == nil {
			return nil, fmt.Errorf("package %s not loaded", p)
		}
	}
	if withSSA {
		prog, spkgs := ssautil.AllPackages(pkgs, ssa.InstantiateGenerics)
		w.Prog = prog
		for _, sp := range spkgs {
			if sp != nil {
				w.SSA[sp.Pkg.Path()] = sp
			}
		}
		for _, p := range pats {
			sp := w.SSA[p]
			if sp == nil {
				return nil, fmt.Errorf("no SSA package for %s", p)
			}
			sp.Build()
		}
		w.indexFuncs(pats)
	}
	return w, nil
}

// indexFuncs indexes every source-level function (incl. methods) of the given packages.
func (w *World) indexFuncs(pats []string) {
	w.funcIdx = map[string]map[string]*ssa.Function{}
	w.allFuncs = map[*ssa.Function]bool{}
	for _, path := range pats {
		sp := w.SSA[path]
		idx := map[string]*ssa.Function{}
		w.funcIdx[path] = idx
		add := func(fn *ssa.Function) {
			if fn == nil || fn.Synthetic != "" {
				return
			}
			idx[fn.RelString(sp.Pkg)] = fn
			w.allFuncs[fn] = true
		}
		for _, m := range sp.Members {
			switch m := m.(type) {
			case *ssa.Function:
				if m.Name() == "init" && m.Synthetic != "" {
					continue
				}
				add(m)
			case *ssa.Type:
				for _, t := range []types.Type{m.Type(), types.NewPointer(m.Type())} {
					ms := w.Prog.MethodSets.MethodSet(t)
					for i := 0; i < ms.Len(); i++ {
						fn := w.Prog.MethodValue(ms.At(i))
						if fn != nil && fn.Pkg == sp && fn.Synthetic == "" {
							add(fn)
						}
					}
				}
			}
		}
		// source-level init functions (init#1 ...)
		for name, m := range sp.Members {
			if strings.HasPrefix(name, "init#") {
				if fn, ok := m.(*ssa.Function); ok {
					add(fn)
				}
			}
		}
		// ... which are not package members: they are the callees of the synthetic package initializer
		if pi := sp.Func("init"); pi != nil {
			for _, b := range pi.Blocks {
				for _, ins := range b.Instrs {
					if c, ok := ins.(*ssa.Call); ok {
						if fn := c.Call.StaticCallee(); fn != nil && fn.Pkg == sp && strings.HasPrefix(fn.Name(), "init#") && idx[fn.RelString(sp.Pkg)] == nil {
							add(fn)
						}
					}
				}
			}
		}
	}
}

// Funcs returns the source functions of a package sorted by name.
func (w *World) Funcs(pkg string) []*ssa.Function {
	var names []string
	for n := range w.funcIdx[pkg] {
		names = append(names, n)
	}
	sort.Strings(names)
	var out []*ssa.Function
	for _, n := range names {
		out = append(out, w.funcIdx[pkg][n])
	}
	return out
}

// Func resolves pkg-relative function name (e.g. "(*EVM).Call"); nil if absent.
func (w *World) Func(pkg, rel string) *ssa.Function {
	return w.funcIdx[pkg][rel]
}

// withAnon returns fn and all functions nested in it.
func withAnon(fn *ssa.Function) []*ssa.Function {
	out := []*ssa.Function{fn}
	for _, a := range fn.AnonFuncs {
		out = append(out, withAnon(a)...)
	}
	return out
}

func (w *World) pos(p token.Pos) string {
	if !p.IsValid() {
		return "-"
	}
	ps := w.Fset.Position(p)
	f := ps.Filename
	if strings.HasPrefix(f, w.RepoDir+"/") {
		f = strings.TrimPrefix(f, w.RepoDir+"/")
	} else if i := strings.Index(f, "/pkg/mod/"); i >= 0 {
		f = f[i+len("/pkg/mod/"):]
	}
	return fmt.Sprintf("%s:%d", f, ps.Line)
}

// FuncDecl finds the syntax of a top-level function by pkg-relative name as printed by ssa RelString.
func (w *World) FuncDecl(pkg, rel string) (*ast.FuncDecl, *packages.Package) {
	p := w.Pkgs[pkg]
	if p == nil {
		return nil, nil
	}
	for _, f := range p.Syntax {
		for _, d := range f.Decls {
			fd, ok := d.(*ast.FuncDecl)
			if !ok {
				continue
			}
			if declRelName(fd) == rel {
				return fd, p
			}
		}
	}
	return nil, p
}

func declRelName(fd *ast.FuncDecl) string {
	n := fd.Name.Name
	if fd.Recv != nil && len(fd.Recv.List) == 1 {
		t := fd.Recv.List[0].Type
		ptr := false
		if s, ok := t.(*ast.StarExpr); ok {
			ptr = true
			t = s.X
		}
		if ix, ok := t.(*ast.IndexExpr); ok {
			t = ix.X
		}
		if id, ok := t.(*ast.Ident); ok {
			if ptr {
				return "(*" + id.Name + ")." + n
			}
			return "(" + id.Name + ")." + n
		}
	}
	return n
}

func forkPath(i int) string { return pkgPairs[i][0] }
func refPath(i int) string  { return pkgPairs[i][1] }

const (
	pkVM = iota
	pkRuntime
	pkTracers
	pkNative
	pkLogger
	pkCore
)
