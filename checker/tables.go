package main

// E5: queries on the instruction and precompile tables (AST + constant values from go/types).

import (
	"fmt"
	"go/ast"
	"go/constant"
	"go/token"
	"go/types"
	"reflect"
	"sort"
	"strings"
)

// forkSlots: opcode bytes that exist only in the fork (or were renumbered), and where each may be installed.
var forkSlots = map[int64]string{
	0x5c: "enable1153", 0x5d: "enable1153", 0x5e: "enable5656",
	0xe0: "newFrontierInstructionSet", 0xe1: "newFrontierInstructionSet", 0xe2: "newFrontierInstructionSet", 0xe3: "newFrontierInstructionSet",
	0xe4: "newFrontierInstructionSet", 0xe5: "newFrontierInstructionSet", 0xe6: "newFrontierInstructionSet", 0xe7: "newFrontierInstructionSet",
}

// enablerCallers: who may call the enablers of fork-only slots.
var enablerCallers = map[string]map[string]bool{
	"enable1153": {"newCancunInstructionSet": true},
	"enable5656": {"newCancunInstructionSet": true},
}

type slotWrite struct {
	fn   string
	slot int64
	pos  token.Pos
	elt  ast.Expr // the operation literal, when available
}

// jumpTableWrites finds every `tbl[K] = …`, `tbl[K].f = …` and keyed JumpTable literal element.
func (w *World) jumpTableWrites() []slotWrite {
	p := w.Pkgs[forkPath(pkVM)]
	info := p.TypesInfo
	isJT := func(t types.Type) bool {
		if pt, ok := t.(*types.Pointer); ok {
			t = pt.Elem()
		}
		nt, ok := t.(*types.Named)
		return ok && nt.Obj().Name() == "JumpTable" && nt.Obj().Pkg() == p.Types
	}
	constIdx := func(e ast.Expr) (int64, bool) {
		tv, ok := info.Types[e]
		if !ok || tv.Value == nil || tv.Value.Kind() != constant.Int {
			return 0, false
		}
		v, ok := constant.Int64Val(tv.Value)
		return v, ok
	}
	var out []slotWrite
	for _, f := range p.Syntax {
		for _, d := range f.Decls {
			fd, ok := d.(*ast.FuncDecl)
			if !ok || fd.Body == nil {
				continue
			}
			name := declRelName(fd)
			ast.Inspect(fd.Body, func(n ast.Node) bool {
				switch x := n.(type) {
				case *ast.AssignStmt:
					for i, l := range x.Lhs {
						// strip field selectors: tbl[K].f
						e := l
						for {
							if s, ok := e.(*ast.SelectorExpr); ok {
								e = s.X
								continue
							}
							break
						}
						ix, ok := e.(*ast.IndexExpr)
						if !ok {
							continue
						}
						bt := info.TypeOf(ix.X)
						if bt == nil || !isJT(bt) {
							continue
						}
						k, ok := constIdx(ix.Index)
						if !ok {
							out = append(out, slotWrite{name, -1, x.Pos(), nil})
							continue
						}
						var elt ast.Expr
						if e == l && i < len(x.Rhs) {
							elt = x.Rhs[i]
							// `op := &operation{…}; tbl[K] = op`: look through a local assigned once
							if id, ok := ast.Unparen(elt).(*ast.Ident); ok {
								if init := localSingleInit(info, fd, id); init != nil {
									elt = init
								}
							}
						}
						out = append(out, slotWrite{name, k, x.Pos(), w.expandOpHelper(info, elt)})
					}
				case *ast.CompositeLit:
					t := info.TypeOf(x)
					if t == nil || !isJT(t) {
						return true
					}
					for _, el := range x.Elts {
						kv, ok := el.(*ast.KeyValueExpr)
						if !ok {
							continue
						}
						if k, ok := constIdx(kv.Key); ok {
							out = append(out, slotWrite{name, k, kv.Pos(), w.expandOpHelper(info, kv.Value)})
						}
					}
				}
				return true
			})
		}
	}
	return out
}

// callersOf returns the functions (by pkg-relative name) of vm that mention the function object name
// as a called or referenced value (AST uses resolved through go/types).
func (w *World) usersOfFunc(pair int, target string) map[string]token.Pos {
	p := w.Pkgs[forkPath(pair)]
	obj := p.Types.Scope().Lookup(target)
	out := map[string]token.Pos{}
	if obj == nil {
		return out
	}
	for _, f := range p.Syntax {
		for _, d := range f.Decls {
			where := ""
			switch x := d.(type) {
			case *ast.FuncDecl:
				where = declRelName(x)
			case *ast.GenDecl:
				where = "package-level " + x.Tok.String()
			}
			ast.Inspect(d, func(n ast.Node) bool {
				if id, ok := n.(*ast.Ident); ok && p.TypesInfo.Uses[id] == obj {
					if gd, ok := d.(*ast.GenDecl); ok {
						for _, sp := range gd.Specs {
							if vs, ok := sp.(*ast.ValueSpec); ok && vs.Pos() <= id.Pos() && id.Pos() < vs.End() && len(vs.Names) > 0 {
								where = "var " + vs.Names[0].Name
							}
						}
					}
					out[where] = id.Pos()
				}
				return true
			})
		}
	}
	return out
}

// addTableRules (R1.5 / R2.2t): fork-only and renumbered opcode slots are installed only where
// reviewed, so no table of a fork <= Shanghai differs from the reference's in a standard slot
// (the constructors themselves are clones, R1.1) and none contains a fork-only slot other than
// 0xe0-0xe7 from the frontier literal.
func addTableRules(w *World, r *Report, rule string) {
	ws := w.jumpTableWrites()
	n := 0
	for _, sw := range ws {
		if sw.slot < 0 {
			// a computed index is the reference's own code when the statement belongs to a CLONE
			// function or to the matched part of a DELTA function
			if w.WithRef {
				s := w.e1()
				if pr := s.cls[pkVM].Results[sw.fn]; pr != nil {
					if pr.Class == ClsClone {
						continue
					}
					if pr.Class == ClsDelta {
						if d, err := s.delta(pkVM, sw.fn); err == nil {
							inIns := false
							for _, in := range d.Ins {
								if in.Stmt.Pos() <= sw.pos && sw.pos < in.Stmt.End() {
									inIns = true
								}
							}
							if !inIns {
								continue
							}
						}
					}
				}
			}
			r.undecided(rule, "vm."+sw.fn+"/slot-write:non-constant", w.pos(sw.pos), "jump-table slot written with a non-constant index")
			continue
		}
		want, isFork := forkSlots[sw.slot]
		if !isFork {
			continue
		}
		n++
		key := fmt.Sprintf("vm.%s/slot-write:0x%02x", sw.fn, sw.slot)
		if sw.fn == want {
			r.holds(rule, key, w.pos(sw.pos), "fork-only slot installed by its reviewed installer")
		} else {
			r.violated(rule, key, w.pos(sw.pos), fmt.Sprintf("fork-only/renumbered opcode slot 0x%02x is written in %s; only %s may install it", sw.slot, sw.fn, want))
		}
	}
	r.Analysed["jump_table_slot_writes"] += len(ws)
	var enablers []string
	for e := range enablerCallers {
		enablers = append(enablers, e)
	}
	sort.Strings(enablers)
	for _, en := range enablers {
		users := w.usersOfFunc(pkVM, en)
		var names []string
		for u := range users {
			names = append(names, u)
		}
		sort.Strings(names)
		for _, u := range names {
			key := "vm." + en + "/used-by:" + u
			if enablerCallers[en][u] || u == "var activators" {
				r.holds(rule, key, w.pos(users[u]), "reviewed user of the enabler (Cancun constructor / extra-EIP activator table)")
			} else if w.onlyUsedBy(u, enablerCallers[en], 0) {
				r.holds(rule, key, w.pos(users[u]), "a fork-only helper that is itself referenced only from the reviewed user(s) of the enabler")
			} else {
				r.violated(rule, key, w.pos(users[u]), en+" is referenced from "+u+": a fork-only slot would leak into another instruction set")
			}
		}
	}
	// the Cancun table is selected only by NewEVMInterpreter (under the IsCancun case, checked by CASE_INSERT)
	for _, tbl := range []string{"cancunInstructionSet", "newCancunInstructionSet"} {
		users := w.usersOfFunc(pkVM, tbl)
		for u, pos := range users {
			key := "vm." + tbl + "/used-by:" + u
			ok := (tbl == "cancunInstructionSet" && (u == "NewEVMInterpreter" || u == "var cancunInstructionSet")) ||
				(tbl == "newCancunInstructionSet" && u == "var cancunInstructionSet")
			if ok {
				r.holds(rule, key, w.pos(pos), "reviewed user")
			} else {
				r.violated(rule, key, w.pos(pos), tbl+" is referenced from "+u)
			}
		}
	}
	r.need(rule, 11)
	_ = n
}

// addOmitEmpty (R18.4): every fork-only field of a serialised frame type that also exists in the
// reference is left out of the JSON output when empty (omitempty or "-"), in the named type and in
// the local mirror struct of its generated MarshalJSON; otherwise output without Aspects would
// differ from the reference's.
func addOmitEmpty(w *World, r *Report, rule string) {
	s := w.e1()
	p := w.Pkgs[forkPath(pkNative)]
	var keys []string
	for k := range s.fo.FieldNames {
		if strings.HasPrefix(k, fmt.Sprintf("P%d.", pkNative)) {
			keys = append(keys, k)
		}
	}
	sort.Strings(keys)
	for _, k := range keys {
		tname := strings.TrimPrefix(k, fmt.Sprintf("P%d.", pkNative))
		tn, _ := p.Types.Scope().Lookup(tname).(*types.TypeName)
		if tn == nil {
			continue
		}
		st := tn.Type().Underlying().(*types.Struct)
		for i := 0; i < st.NumFields(); i++ {
			f := st.Field(i)
			if !s.fo.FieldNames[k][f.Name()] {
				continue
			}
			key := "native." + tname + "." + f.Name()
			if !f.Exported() {
				r.trivial(rule, key, w.pos(f.Pos()), "unexported: never serialised")
				continue
			}
			tag := reflect.StructTag(st.Tag(i)).Get("json")
			if tag == "-" || strings.Contains(tag, ",omitempty") {
				r.holds(rule, key, w.pos(f.Pos()), "json tag `"+tag+"` omits the field when empty")
			} else {
				r.violated(rule, key, w.pos(f.Pos()), "fork-only field is serialised even when empty (json tag `"+tag+"`): output without Aspects differs from the reference")
			}
		}
		// local mirror structs in generated codecs
		for _, m := range []string{"(" + tname + ").MarshalJSON", "(*" + tname + ").MarshalJSON"} {
			fd, _ := w.FuncDecl(forkPath(pkNative), m)
			if fd == nil {
				continue
			}
			ast.Inspect(fd, func(n ast.Node) bool {
				ts, ok := n.(*ast.TypeSpec)
				if !ok {
					return true
				}
				stt, ok := ts.Type.(*ast.StructType)
				if !ok {
					return true
				}
				for _, fld := range stt.Fields.List {
					for _, nm := range fld.Names {
						if !s.fo.FieldNames[k][nm.Name] {
							continue
						}
						tag := ""
						if fld.Tag != nil {
							tag = reflect.StructTag(strings.Trim(fld.Tag.Value, "`")).Get("json")
						}
						key := "native." + m + "/" + ts.Name.Name + "." + nm.Name
						if tag == "-" || strings.Contains(tag, ",omitempty") {
							r.holds(rule, key, w.pos(nm.Pos()), "json tag `"+tag+"` omits the field when empty")
						} else {
							r.violated(rule, key, w.pos(nm.Pos()), "fork-only field of the codec's mirror struct is serialised even when empty (json tag `"+tag+"`)")
						}
					}
				}
				return true
			})
		}
	}
	r.need(rule, 4)
}


// localSingleInit: the initialiser of a local variable that is assigned exactly once in fd (by := or var).
func localSingleInit(info *types.Info, fd *ast.FuncDecl, id *ast.Ident) ast.Expr {
	obj := info.Uses[id]
	if obj == nil {
		return nil
	}
	var init ast.Expr
	n := 0
	ast.Inspect(fd.Body, func(nd ast.Node) bool {
		switch x := nd.(type) {
		case *ast.AssignStmt:
			for i, l := range x.Lhs {
				if lid, ok := l.(*ast.Ident); ok && (info.Defs[lid] == obj || info.Uses[lid] == obj) {
					n++
					if len(x.Rhs) == len(x.Lhs) {
						init = x.Rhs[i]
					}
				}
			}
		case *ast.ValueSpec:
			for i, nm := range x.Names {
				if info.Defs[nm] == obj {
					n++
					if i < len(x.Values) {
						init = x.Values[i]
					}
				}
			}
		case *ast.UnaryExpr:
			// address taken of the variable itself: may be written elsewhere
			if uid, ok := x.X.(*ast.Ident); ok && x.Op == token.AND && info.Uses[uid] == obj {
				n += 2
			}
		}
		return true
	})
	if n != 1 {
		return nil
	}
	return init
}

// expandOpHelper: a table element built by a fork helper whose whole body is `return <operation literal>`
// (e.g. newJournalOperation(execute, pops)) is read as that literal with the helper's parameters replaced by
// the arguments of the call; the rules on table literals then apply unchanged.
func (w *World) expandOpHelper(info *types.Info, elt ast.Expr) ast.Expr {
	if elt == nil {
		return nil
	}
	call, ok := ast.Unparen(elt).(*ast.CallExpr)
	if !ok || call.Ellipsis.IsValid() {
		return elt
	}
	id, ok := call.Fun.(*ast.Ident)
	if !ok {
		return elt
	}
	f, ok := info.Uses[id].(*types.Func)
	if !ok || f.Pkg() == nil || f.Pkg().Path() != forkPath(pkVM) {
		return elt
	}
	hd, _ := w.FuncDecl(forkPath(pkVM), f.Name())
	if hd == nil || hd.Body == nil || len(hd.Body.List) != 1 || hd.Recv != nil {
		return elt
	}
	ret, ok := hd.Body.List[0].(*ast.ReturnStmt)
	if !ok || len(ret.Results) != 1 {
		return elt
	}
	res := ast.Unparen(ret.Results[0])
	lit := res
	if u, isU := res.(*ast.UnaryExpr); isU && u.Op == token.AND {
		lit = ast.Unparen(u.X)
	}
	if _, isLit := lit.(*ast.CompositeLit); !isLit {
		return elt
	}
	bind := map[types.Object]ast.Expr{}
	i := 0
	for _, fld := range hd.Type.Params.List {
		if _, isV := fld.Type.(*ast.Ellipsis); isV {
			return elt
		}
		for _, nm := range fld.Names {
			if i >= len(call.Args) {
				return elt
			}
			bind[info.Defs[nm]] = call.Args[i]
			i++
		}
	}
	if i != len(call.Args) {
		return elt
	}
	var sub func(e ast.Expr) ast.Expr
	sub = func(e ast.Expr) ast.Expr {
		switch x := e.(type) {
		case *ast.Ident:
			if a, ok := bind[info.Uses[x]]; ok {
				return a
			}
		case *ast.ParenExpr:
			return &ast.ParenExpr{Lparen: x.Lparen, X: sub(x.X), Rparen: x.Rparen}
		case *ast.CallExpr:
			n := &ast.CallExpr{Fun: sub(x.Fun), Lparen: x.Lparen, Ellipsis: x.Ellipsis, Rparen: x.Rparen}
			for _, a := range x.Args {
				n.Args = append(n.Args, sub(a))
			}
			return n
		case *ast.UnaryExpr:
			return &ast.UnaryExpr{OpPos: x.OpPos, Op: x.Op, X: sub(x.X)}
		case *ast.BinaryExpr:
			return &ast.BinaryExpr{X: sub(x.X), OpPos: x.OpPos, Op: x.Op, Y: sub(x.Y)}
		case *ast.KeyValueExpr:
			return &ast.KeyValueExpr{Key: x.Key, Colon: x.Colon, Value: sub(x.Value)}
		case *ast.CompositeLit:
			n := &ast.CompositeLit{Type: x.Type, Lbrace: x.Lbrace, Rbrace: x.Rbrace}
			for _, el := range x.Elts {
				n.Elts = append(n.Elts, sub(el))
			}
			return n
		}
		return e
	}
	return sub(res)
}

// onlyUsedBy: the function named u (package vm) is fork-only and every reference to it lies in a function of
// `allowed`, or in another fork-only function for which the same holds.
func (w *World) onlyUsedBy(u string, allowed map[string]bool, depth int) bool {
	if depth > 3 || w.funcIdx[refPath(pkVM)][u] != nil || w.funcIdx[forkPath(pkVM)][u] == nil {
		return false
	}
	users := w.usersOfFunc(pkVM, u)
	if len(users) == 0 {
		return false
	}
	for v := range users {
		if allowed[v] {
			continue
		}
		if v == u || !w.onlyUsedBy(v, allowed, depth+1) {
			return false
		}
	}
	return true
}
