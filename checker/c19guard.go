package main

// C19 R19.7 on SSA: the sibling flattening functions discard a frame's Result under the same condition,
// a condition over the record being flattened only. The condition is taken as a boolean function of
// atomic comparisons (its truth table), so `if a != "" && a != r { discard }` and
// `keep := a == "" || a == r; if !keep { discard }` are the same guard.

import (
	"fmt"
	"go/token"
	"sort"
	"strings"

	"golang.org/x/tools/go/ssa"
)

// bform: a boolean formula over named atoms.
type bform struct {
	eval  func(env map[string]bool) bool
	atoms map[string]bool
}

func bconst(v bool) *bform {
	return &bform{eval: func(map[string]bool) bool { return v }, atoms: map[string]bool{}}
}
func batom(name string) *bform {
	return &bform{eval: func(e map[string]bool) bool { return e[name] }, atoms: map[string]bool{name: true}}
}
func bnot(a *bform) *bform {
	return &bform{eval: func(e map[string]bool) bool { return !a.eval(e) }, atoms: a.atoms}
}
func bjoin(a, b *bform, and bool) *bform {
	at := map[string]bool{}
	for k := range a.atoms {
		at[k] = true
	}
	for k := range b.atoms {
		at[k] = true
	}
	if and {
		return &bform{eval: func(e map[string]bool) bool { return a.eval(e) && b.eval(e) }, atoms: at}
	}
	return &bform{eval: func(e map[string]bool) bool { return a.eval(e) || b.eval(e) }, atoms: at}
}

// table prints the formula as its sorted atoms and truth table.
func (f *bform) table() string {
	var as []string
	for a := range f.atoms {
		as = append(as, a)
	}
	sort.Strings(as)
	if len(as) > 10 {
		return "too many atoms"
	}
	var sb strings.Builder
	for m := 0; m < 1<<len(as); m++ {
		env := map[string]bool{}
		for i, a := range as {
			env[a] = m&(1<<i) != 0
		}
		if f.eval(env) {
			sb.WriteByte('1')
		} else {
			sb.WriteByte('0')
		}
	}
	return strings.Join(as, " ; ") + " -> " + sb.String()
}

type guardBuilder struct {
	depth int
	fail  string
}

// value: the formula of a boolean SSA value.
func (g *guardBuilder) value(v ssa.Value) *bform {
	g.depth++
	defer func() { g.depth-- }()
	if g.depth > 12 {
		g.fail = "condition too deep"
		return bconst(false)
	}
	switch x := v.(type) {
	case *ssa.Const:
		if x.Value != nil {
			return bconst(x.Value.String() == "true")
		}
	case *ssa.UnOp:
		if x.Op == token.NOT {
			return bnot(g.value(x.X))
		}
	case *ssa.BinOp:
		if x.Op == token.EQL || x.Op == token.NEQ {
			l, r := canonCond(x.X, "", 0), canonCond(x.Y, "", 0)
			if r < l {
				l, r = r, l
			}
			a := batom(l + " == " + r)
			if x.Op == token.NEQ {
				return bnot(a)
			}
			return a
		}
	case *ssa.Phi:
		// the value chosen by the way the block was entered
		stop := x.Block().Idom()
		if stop == nil {
			break
		}
		out := bconst(false)
		for i, e := range x.Edges {
			p := x.Block().Preds[i]
			out = bjoin(out, bjoin(bjoin(g.reach(p, stop, map[*ssa.BasicBlock]bool{}), g.edge(p, x.Block()), true), g.value(e), true), false)
		}
		return out
	}
	return batom(canonCond(v, "", 0))
}

// edge: the condition under which control goes from p to b.
func (g *guardBuilder) edge(p, b *ssa.BasicBlock) *bform {
	iff, ok := p.Instrs[len(p.Instrs)-1].(*ssa.If)
	if !ok || p.Succs[0] == p.Succs[1] {
		return bconst(true)
	}
	c := g.value(iff.Cond)
	if p.Succs[0] == b {
		return c
	}
	return bnot(c)
}

// reach: the condition under which b is reached, given that stop (a dominator of b) was.
func (g *guardBuilder) reach(b, stop *ssa.BasicBlock, onPath map[*ssa.BasicBlock]bool) *bform {
	if b == stop {
		return bconst(true)
	}
	if onPath[b] || !stop.Dominates(b) {
		g.fail = "the guard lies in a loop or is entered from outside its region"
		return bconst(false)
	}
	onPath[b] = true
	defer delete(onPath, b)
	out := bconst(false)
	for _, p := range b.Preds {
		out = bjoin(out, bjoin(g.reach(p, stop, onPath), g.edge(p, b), true), false)
	}
	return out
}

// addSiblingGuardRule (R19.7).
func addSiblingGuardRule(w *World, r *Report, rule string) {
	type guard struct {
		fn    string
		table string
		pos   token.Pos
		fail  string
	}
	var gs []guard
	fns, _ := flattenFuncs(w)
	for _, fn := range fns {
		for _, b := range fn.Blocks {
			for _, ins := range b.Instrs {
				st, ok := ins.(*ssa.Store)
				if !ok {
					continue
				}
				fa, ok := st.Addr.(*ssa.FieldAddr)
				k, isConst := st.Val.(*ssa.Const)
				if !ok || fieldNameOf(fa) != "Result" || !isConst || !k.IsNil() {
					continue
				}
				// the region of the guard: from the dominator of the block where control merges again
				stop := b.Idom()
				if len(b.Succs) == 1 && b.Succs[0].Idom() != nil && b.Succs[0].Idom().Dominates(b) {
					stop = b.Succs[0].Idom()
				}
				g := &guardBuilder{}
				f := bconst(true)
				if stop != nil {
					f = g.reach(b, stop, map[*ssa.BasicBlock]bool{})
				}
				gs = append(gs, guard{fn.Name(), f.table(), st.Pos(), g.fail})
			}
		}
	}
	if len(gs) < 2 {
		r.undecided(rule, "tracers/native.flatten/result-discard", "-", fmt.Sprintf("expected a result-discard guard in each of the flattening functions, found %d: the rule's anchors no longer resolve", len(gs)))
		return
	}
	for _, g := range gs {
		key := "tracers/native." + g.fn + "/result-discard"
		atoms := g.table
		if i := strings.Index(atoms, " -> "); i >= 0 {
			atoms = atoms[:i]
		}
		onInput := !strings.Contains(atoms, "?") && !strings.Contains(atoms, "param#1") && !strings.Contains(atoms, "param#2") && !strings.Contains(atoms, "param#3")
		switch {
		case g.fail != "":
			r.undecided(rule, key, w.pos(g.pos), "the guard that discards the frame's Result could not be read as a boolean function: "+g.fail)
		case !onInput:
			r.violated(rule, key, w.pos(g.pos), "the guard that discards the frame's Result is not a condition over the record being flattened (`"+g.table+"`): fields of the frame under construction have already been rewritten (parity error conversion)")
		case g.table != gs[0].table:
			r.violated(rule, key, w.pos(g.pos), "the guard that discards the frame's Result (`"+g.table+"`) differs from its sibling's in "+gs[0].fn+" (`"+gs[0].table+"`)")
		default:
			r.holds(rule, key, w.pos(g.pos), "same condition over the input record as in the sibling flattening function(s): "+g.table)
		}
	}
	r.need(rule, 2)
}
