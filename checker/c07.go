package main

import (
	"golang.org/x/tools/go/types/typeutil"
	"fmt"
	"go/ast"
	"go/token"
	"go/types"
	"sort"
	"strings"

	"golang.org/x/tools/go/ssa"
)

func init() {
	register("C07", false, true, checkC07)
}

// addR71: SaveCall + deferred ExitCall pairing on every path of Call and create.
func addR71(w *World, r *Report, rule string) {
	for _, rel := range []string{"(*EVM).Call", "(*EVM).create"} {
		fl := w.newFlow(forkPath(pkVM), rel)
		if fl == nil {
			r.undecided(rule, "vm."+rel, "-", "function not found")
			continue
		}
		var viol []string
		var firstPos token.Pos
		nRet, nDefer := 0, 0
		deferIn := func(n ast.Node) bool {
			d, ok := n.(*ast.DeferStmt)
			if !ok {
				return false
			}
			found := false
			ast.Inspect(d, func(x ast.Node) bool {
				if c, ok := x.(*ast.CallExpr); ok && fl.calleeIs(c, "Tracer", "ExitCall") {
					found = true
				}
				return true
			})
			return found
		}
		rule1 := &flowRule{}
		seenRet := map[ast.Node]bool{}
		seenDef := map[ast.Node]bool{}
		add := func(pos token.Pos, m string) {
			for _, v := range viol {
				if v == m {
					return
				}
			}
			if len(viol) == 0 {
				firstPos = pos
			}
			viol = append(viol, m)
		}
		rule1.visit = func(fl *Flow, f facts, n ast.Node) {
			if _, ok := n.(*ast.ReturnStmt); ok {
				if !seenRet[n] {
					seenRet[n] = true
					nRet++
				}
				if !f["saved"] {
					add(n.Pos(), "a return at "+w.pos(n.Pos())+" is reachable without this frame having been recorded (SaveCall)")
				}
				if !f["deferExit"] {
					add(n.Pos(), "a return at "+w.pos(n.Pos())+" is reachable without the deferred ExitCall having been registered: the call-tree cursor would stay on this frame")
				}
			}
			if deferIn(n) {
				if !seenDef[n] {
					seenDef[n] = true
					nDefer++
				}
				if f["deferExit"] {
					add(n.Pos(), "the deferred ExitCall can be registered twice on one path")
				}
				if !f["saved"] {
					add(n.Pos(), "the deferred ExitCall is registered before SaveCall")
				}
			}
			for _, c := range callsIn(n) {
				if fl.calleeIs(c, "Tracer", "SaveCall") && f["saved"] {
					add(c.Pos(), "SaveCall can execute twice on one path")
				}
				// nothing that can fail or recurse may run between SaveCall and the defer registration
				if f["saved"] && !f["deferExit"] && !deferIn(n) {
					if fl.calleeIs(c, "EVMInterpreter", "Run") || isJPCall(fl, c) != "" {
						add(c.Pos(), "a nested execution can start before the deferred ExitCall is registered")
					}
				}
			}
		}
		rule1.transfer = func(fl *Flow, f facts, n ast.Node) {
			for _, c := range callsIn(n) {
				if fl.calleeIs(c, "Tracer", "SaveCall") {
					f["saved"] = true
				}
			}
			if deferIn(n) {
				f["deferExit"] = true
			}
		}
		fl.run(rule1, facts{})
		// the defer must not sit in a loop
		for _, cs := range w.callSitesOf(funcIs("Tracer", "ExitCall")) {
			if cs.fn == "vm."+rel && (cs.inLoop || !cs.deferd) {
				add(cs.call.Pos(), "ExitCall is called inside a loop or outside a deferred closure")
			}
		}
		key := "vm." + rel
		if nDefer != 1 {
			add(fl.fd.Pos(), fmt.Sprintf("%d deferred ExitCall registrations, expected exactly one", nDefer))
		}
		if len(viol) > 0 {
			r.violated(rule, key, w.pos(firstPos), strings.Join(viol, " | "))
		} else {
			r.holds(rule, key, w.pos(fl.fd.Pos()), fmt.Sprintf("SaveCall and exactly one deferred ExitCall precede every one of the %d returns on all paths (%d path states)", nRet, fl.States))
		}
		r.Analysed["cfg_path_states"] += fl.States
	}
	r.need(rule, 2)
}

// whoMayCall emits one obligation: the enclosing functions of all call sites of a callee are exactly want.
func whoMayCall(w *World, r *Report, rule, label string, pred func(*types.Func) bool, want map[string]bool, needDeferred bool) {
	sites := w.callSitesOf(pred)
	got := map[string]bool{}
	var bad []string
	pos := "-"
	helpers := w.privateHelpersOf(want)
	for _, s := range sites {
		got[s.fn] = true
		pos = w.pos(s.call.Pos())
		if !want[s.fn] && helpers[s.fn] == "" {
			bad = append(bad, s.fn+" at "+w.pos(s.call.Pos()))
		}
		if needDeferred && !s.deferd && helpers[s.fn] == "" {
			bad = append(bad, s.fn+" (not in a deferred closure) at "+w.pos(s.call.Pos()))
		}
	}
	for f := range want {
		if !got[f] {
			// reached through a private helper of f?
			via := false
			for h, owner := range helpers {
				if got[h] && strings.Contains(owner, f) {
					via = true
				}
			}
			if !via {
				bad = append(bad, "expected caller "+f+" no longer calls it")
			}
		}
	}
	sort.Strings(bad)
	if len(bad) > 0 {
		r.violated(rule, "who-may-call:"+label, pos, "callers differ from the reviewed set: "+strings.Join(bad, "; "))
	} else {
		var ws []string
		for f := range want {
			ws = append(ws, f)
		}
		sort.Strings(ws)
		r.holds(rule, "who-may-call:"+label, pos, fmt.Sprintf("%d call sites, all in {%s}", len(sites), strings.Join(ws, ", ")))
	}
}

// whoMayWrite emits one obligation per field: stores / map updates through the field occur only in the allowed functions.
func whoMayWrite(w *World, r *Report, rule string, fields map[string]map[string]bool) {
	writers := map[string]map[string]token.Pos{}
	var paths []string
	for p := range w.funcIdx {
		if strings.HasPrefix(p, forkMod) {
			paths = append(paths, p)
		}
	}
	sort.Strings(paths)
	n := 0
	for _, p := range paths {
		for _, fn := range w.Funcs(p) {
			n++
			for _, e := range w.effectsOf(fn, effectOpts{maxDepth: 0}) {
				if e.Kind != "store" && e.Kind != "mapupdate" {
					continue
				}
				what := strings.TrimPrefix(strings.TrimPrefix(e.What, "copy into "), "delete into ")
				if _, tracked := fields[what]; tracked {
					if writers[what] == nil {
						writers[what] = map[string]token.Pos{}
					}
					writers[what][pkgShortOf(p)+"."+fn.RelString(fn.Pkg.Pkg)] = e.Pos
				}
			}
		}
	}
	r.Analysed["functions_scanned_for_writes"] += n
	var fs []string
	for f := range fields {
		fs = append(fs, f)
	}
	sort.Strings(fs)
	for _, f := range fs {
		var bad []string
		pos := "-"
		var ws []string
		for wr, p := range writers[f] {
			ws = append(ws, wr)
			if !fields[f][wr] && w.privateHelpersOf(fields[f])[wr] == "" {
				bad = append(bad, wr+" at "+w.pos(p))
				pos = w.pos(p)
			}
		}
		sort.Strings(ws)
		sort.Strings(bad)
		if len(bad) > 0 {
			r.violated(rule, "who-may-write:"+f, pos, "written outside its reviewed writers: "+strings.Join(bad, "; "))
		} else {
			r.holds(rule, "who-may-write:"+f, pos, "writers: {"+strings.Join(ws, ", ")+"}")
		}
	}
}

func checkC07(w *World, tier string) *Report {
	r := newReport("C07")
	r.Explanation = "R7.1 (go/cfg, all paths of Call and create): SaveCall executes exactly once before every return and exactly one deferred closure calling ExitCall is registered after it and before any return or nested execution, outside loops; " +
		"R7.2 (resolved call sites and SSA store inventory over all fork packages): CallTree.add is called only by Tracer.SaveCall, which is called only by Call and create; CallTree.exit only by Tracer.ExitCall, only from those deferred closures; the fields root/current/count/lookup of CallTree and Index/Parent/Children of Call are stored only in add/exit; " +
		"R7.3 (SSA def-use on add and exit): count is stored once as load(count)+1; the new node's Index and the lookup key are loads of count that precede that store; Parent is the cursor loaded before the cursor is moved; lookup[count] = the new node; the append to the parent's Children is guarded by cursor != nil and appends the new node; exit moves the cursor to its Parent on every path with a non-nil cursor. R7.4 (all SSA paths of every function that stores to root, count or lookup outside the constructor): the lookup table is replaced if and only if the counter is set back to 0 on the same path (the keys of lookup stay exactly 0..count-1 across repeated top-level invocations on one EVM), and entries are never deleted. R7.5 write sets: exit stores only the outcome fields of the closing node (RemainingGas, Ret, Err) and the cursor; add stores, besides the new node's own fields, only count, root, current, the lookup entry and the parent's Children (by append) — neither un-links children nor re-parents nodes. These are necessary conditions of dense indices, parent links and a closed cursor; exported SaveCall/ExitCall called by a host are outside the repository."
	addR71(w, r, "R7.1")
	vmCall, vmCreate := "vm.(*EVM).Call", "vm.(*EVM).create"
	whoMayCall(w, r, "R7.2", "CallTree.add", funcIs("CallTree", "add"), map[string]bool{"vm.(*Tracer).SaveCall": true}, false)
	whoMayCall(w, r, "R7.2", "Tracer.SaveCall", funcIs("Tracer", "SaveCall"), map[string]bool{vmCall: true, vmCreate: true}, false)
	whoMayCall(w, r, "R7.2", "CallTree.exit", funcIs("CallTree", "exit"), map[string]bool{"vm.(*Tracer).ExitCall": true}, false)
	whoMayCall(w, r, "R7.2", "Tracer.ExitCall", funcIs("Tracer", "ExitCall"), map[string]bool{vmCall: true, vmCreate: true}, true)
	add, exit := "vm.(*CallTree).add", "vm.(*CallTree).exit"
	whoMayWrite(w, r, "R7.2", map[string]map[string]bool{
		"P0.CallTree.root": {add: true}, "P0.CallTree.current": {add: true, exit: true}, "P0.CallTree.count": {add: true}, "P0.CallTree.lookup": {add: true},
		"P0.Call.Index": {}, "P0.Call.Parent": {}, "P0.Call.Children": {add: true},
		"P0.Call.RemainingGas": {exit: true}, "P0.Call.Ret": {exit: true}, "P0.Call.Err": {exit: true},
		"P0.Call.Data": {}, "P0.Call.From": {}, "P0.Call.To": {}, "P0.Call.Value": {}, "P0.Call.Gas": {},
	})
	r.need("R7.2", 15)
	addR73(w, r, "R7.3")
	addR74(w, r, "R7.4")
	addR75(w, r, "R7.5")
	// seventh batch: R7.1 pairs the calls of Tracer.SaveCall/ExitCall; the tree is opened and closed by CallTree.add/exit
	// behind them, so the two forwarding methods must be unconditional (C08 R8.3) — a flag that makes either return
	// early, read at different times on entry and exit, unbalances the cursor
	addR83(w, r, "R8.3")
	r.Explanation += " R8.3 (shared with C08) Tracer.SaveCall/ExitCall are straight-line forwarders to CallTree.add/exit: the pairing of R7.1 is the pairing of the tree operations."
	r.Assumptions = append(r.Assumptions, "one goroutine per EVM; exported Tracer.SaveCall/ExitCall are not called by the host")
	return r
}

// ---- R7.3: SSA def-use facts on CallTree.add / exit ---------------------------------------------

func fieldAddrOf(v ssa.Value, field string) (*ssa.FieldAddr, bool) {
	fa, ok := v.(*ssa.FieldAddr)
	if !ok {
		return nil, false
	}
	st := fa.X.Type().Underlying().(*types.Pointer).Elem().Underlying().(*types.Struct)
	return fa, st.Field(fa.Field).Name() == field
}

// loadOfField: v is a load of <x>.<field>
func loadOfField(v ssa.Value, field string) (*ssa.UnOp, ssa.Value, bool) {
	u, ok := v.(*ssa.UnOp)
	if !ok || u.Op != token.MUL {
		return nil, nil, false
	}
	fa, ok := fieldAddrOf(u.X, field)
	if !ok {
		return nil, nil, false
	}
	return u, fa.X, true
}

// instrBefore: a precedes b on every path (same block earlier, or a's block strictly dominates b's).
func instrBefore(a, b ssa.Instruction) bool {
	// a is never executed after b: a is not reachable from b
	if a.Block() == b.Block() {
		if blockReaches(a.Block(), a.Block()) {
			return false
		}
		for _, i := range a.Block().Instrs {
			if i == a {
				return true
			}
			if i == b {
				return false
			}
		}
		return false
	}
	return !blockReaches(b.Block(), a.Block())
}

// blockReaches: is there a path of at least one edge from 'from' to 'to'?
func blockReaches(from, to *ssa.BasicBlock) bool {
	seen := map[*ssa.BasicBlock]bool{}
	var dfs func(b *ssa.BasicBlock) bool
	dfs = func(b *ssa.BasicBlock) bool {
		for _, s := range b.Succs {
			if s == to {
				return true
			}
			if !seen[s] {
				seen[s] = true
				if dfs(s) {
					return true
				}
			}
		}
		return false
	}
	return dfs(from)
}

func addR73(w *World, r *Report, rule string) {
	add := w.Func(forkPath(pkVM), "(*CallTree).add")
	exit := w.Func(forkPath(pkVM), "(*CallTree).exit")
	if add == nil || exit == nil {
		r.undecided(rule, "vm.(*CallTree).add/exit", "-", "functions not found")
		return
	}
	recv := add.Params[0]
	var countStore, currentStore *ssa.Store
	var newCall ssa.Value
	stores := map[string][]*ssa.Store{}
	var lookupUpd []*ssa.MapUpdate
	for _, b := range add.Blocks {
		for _, ins := range b.Instrs {
			switch x := ins.(type) {
			case *ssa.Alloc:
				if typeBaseName(x.Type()) == "Call" {
					newCall = x
				}
			case *ssa.Store:
				if fa, ok := x.Addr.(*ssa.FieldAddr); ok {
					st := fa.X.Type().Underlying().(*types.Pointer).Elem().Underlying().(*types.Struct)
					owner := typeBaseName(fa.X.Type())
					stores[owner+"."+st.Field(fa.Field).Name()] = append(stores[owner+"."+st.Field(fa.Field).Name()], x)
				}
			case *ssa.MapUpdate:
				lookupUpd = append(lookupUpd, x)
			}
		}
	}
	pos := w.pos(add.Pos())
	check := func(key string, ok bool, good, bad string) {
		if ok {
			r.holds(rule, "vm.(*CallTree).add/"+key, pos, good)
		} else {
			r.violated(rule, "vm.(*CallTree).add/"+key, pos, bad)
		}
	}
	// count: one store of load(count)+1
	okCount := false
	var incs []*ssa.Store
	for _, st := range stores["CallTree.count"] {
		// a reset to the constant 0 is governed by R7.4 (it must come with a fresh lookup table)
		if k, ok := st.Val.(*ssa.Const); ok && k.Value != nil && k.Value.ExactString() == "0" {
			continue
		}
		incs = append(incs, st)
	}
	if ss := incs; len(ss) == 1 {
		countStore = ss[0]
		if bo, ok := countStore.Val.(*ssa.BinOp); ok && bo.Op == token.ADD {
			if _, base, ok := loadOfField(bo.X, "count"); ok && base == recv {
				if c, ok := bo.Y.(*ssa.Const); ok && c.Value != nil && c.Value.ExactString() == "1" {
					okCount = true
				}
			}
		}
	}
	check("count-increment", okCount, "exactly one store to count, of load(count)+1", "count is not incremented by exactly one, exactly once: indices would not be dense")
	if ss := stores["CallTree.current"]; len(ss) == 1 {
		currentStore = ss[0]
	}
	check("cursor-moves-to-new-node", currentStore != nil && currentStore.Val == newCall && newCall != nil, "current = the newly allocated node", "the cursor is not moved to the newly allocated node exactly once")
	// Index = load(count) before the increment
	okIdx := false
	if ss := stores["Call.Index"]; len(ss) == 1 && countStore != nil {
		if ld, base, ok := loadOfField(ss[0].Val, "count"); ok && base == recv && instrBefore(ld, countStore) && ss[0].Addr.(*ssa.FieldAddr).X == newCall {
			okIdx = true
		}
	}
	check("index-is-count-before-increment", okIdx, "the new node's Index is count loaded before the increment", "the new node's Index is not the pre-increment count")
	// Parent = load(current) before the cursor moves
	okPar := false
	if ss := stores["Call.Parent"]; len(ss) == 1 && currentStore != nil {
		if ld, base, ok := loadOfField(ss[0].Val, "current"); ok && base == recv && instrBefore(ld, currentStore) && ss[0].Addr.(*ssa.FieldAddr).X == newCall {
			okPar = true
		}
	}
	check("parent-is-cursor-before-move", okPar, "the new node's Parent is the cursor loaded before the cursor moves", "the new node's Parent is not the cursor as it was on entry")
	// lookup[count] = newCall, key loaded before the increment
	okLk := false
	if len(lookupUpd) == 1 && countStore != nil {
		mu := lookupUpd[0]
		_, mbase, mok := loadOfField(mu.Map, "lookup")
		kld, kbase, kok := loadOfField(mu.Key, "count")
		if mok && kok && mbase == recv && kbase == recv && mu.Value == newCall && instrBefore(kld, countStore) {
			okLk = true
		}
		// or the key is read back from the new node's own Index field, which (above) holds the pre-increment count
		// and is stored exactly once
		if !okLk && mok && mbase == recv && mu.Value == newCall && okIdx {
			if ld, base, ok := loadOfField(mu.Key, "Index"); ok && base == newCall {
				if idxStore := stores["Call.Index"][0]; instrBefore(idxStore, ld) {
					okLk = true
				}
			}
		}
	}
	check("lookup-registers-new-node-under-its-index", okLk, "lookup[count before increment] = the new node", "the lookup table does not map the new node's index to the new node")
	// Children append: store to load(current).Children of append(load(...Children), newCall), under current != nil, before the cursor moves
	okCh := false
	if ss := stores["Call.Children"]; len(ss) == 1 && currentStore != nil {
		st := ss[0]
		fa := st.Addr.(*ssa.FieldAddr)
		if ld, base, ok := loadOfField(fa.X, "current"); ok && base == recv && instrBefore(ld, currentStore) {
			// value: append(children, newCall...) — go/ssa: Call to builtin append with a slice built from newCall
			if call, ok := st.Val.(*ssa.Call); ok {
				if bi, ok := call.Call.Value.(*ssa.Builtin); ok && bi.Name() == "append" && len(call.Call.Args) == 2 {
					if sliceHolds(call.Call.Args[1], newCall) {
						if _, _, ok := loadOfField(call.Call.Args[0], "Children"); ok {
							// guard: the block is control-dependent on current != nil
							if guardedByNonNil(st.Block(), "current", recv) {
								okCh = true
							}
						}
					}
				}
			}
		}
	}
	check("children-append-under-parent", okCh, "the new node is appended to the old cursor's Children under cursor != nil, before the cursor moves", "the new node is not appended (exactly once, guarded by cursor != nil) to the Children of the cursor it was entered from")
	// exit: current = load(current).Parent whenever current != nil
	okExit := false
	var exitStores []*ssa.Store
	for _, b := range exit.Blocks {
		for _, ins := range b.Instrs {
			if st, ok := ins.(*ssa.Store); ok {
				if _, ok := fieldAddrOf(st.Addr, "current"); ok {
					exitStores = append(exitStores, st)
				}
			}
		}
	}
	erecv := exit.Params[0]
	if len(exitStores) == 1 {
		st := exitStores[0]
		if _, base, ok := loadOfField(st.Val, "Parent"); ok {
			if _, b2, ok := loadOfField(base, "current"); ok && b2 == erecv {
				// the only return not dominated by the store is the one under current == nil
				okExit = true
				for _, b := range exit.Blocks {
					if len(b.Instrs) == 0 {
						continue
					}
					if _, isRet := b.Instrs[len(b.Instrs)-1].(*ssa.Return); isRet && !st.Block().Dominates(b) && b != st.Block() {
						if !guardedByNil(b, "current", erecv) {
							okExit = false
						}
					}
				}
			}
		}
	}
	if okExit {
		r.holds(rule, "vm.(*CallTree).exit/cursor-returns-to-parent", w.pos(exit.Pos()), "current = current.Parent on every path with a non-nil cursor")
	} else {
		r.violated(rule, "vm.(*CallTree).exit/cursor-returns-to-parent", w.pos(exit.Pos()), "exit does not move the cursor to its Parent on every path with a non-nil cursor: calls would be left open or the cursor would skip a frame")
	}
	r.need(rule, 7)
}

// sliceHolds: v is the one-element slice that go/ssa builds for append(x, elem): a Slice of an
// Alloc [1]T whose element 0 was stored with elem.
func sliceHolds(v ssa.Value, elem ssa.Value) bool {
	sl, ok := v.(*ssa.Slice)
	if !ok {
		return false
	}
	al, ok := sl.X.(*ssa.Alloc)
	if !ok {
		return false
	}
	for _, ref := range *al.Referrers() {
		if ia, ok := ref.(*ssa.IndexAddr); ok {
			for _, r2 := range *ia.Referrers() {
				if st, ok := r2.(*ssa.Store); ok && st.Val == elem {
					return true
				}
			}
		}
	}
	return false
}

// guardedByNonNil: block b is reached only through the true edge of `load(recv.field) != nil`
// (or the false edge of `== nil`).
func guardedByNonNil(b *ssa.BasicBlock, field string, recv ssa.Value) bool {
	return guardedBy(b, field, recv, true)
}
func guardedByNil(b *ssa.BasicBlock, field string, recv ssa.Value) bool {
	return guardedBy(b, field, recv, false)
}

func guardedBy(b *ssa.BasicBlock, field string, recv ssa.Value, nonNil bool) bool {
	for d := b; d != nil; d = d.Idom() {
		id := d.Idom()
		if id == nil {
			break
		}
		iff, ok := id.Instrs[len(id.Instrs)-1].(*ssa.If)
		if !ok {
			continue
		}
		bo, ok := iff.Cond.(*ssa.BinOp)
		if !ok || (bo.Op != token.NEQ && bo.Op != token.EQL) {
			continue
		}
		_, base, ok := loadOfField(bo.X, field)
		if !ok || base != recv {
			continue
		}
		if c, ok := bo.Y.(*ssa.Const); !ok || !c.IsNil() {
			continue
		}
		// which successor leads to d?
		trueSide := id.Succs[0] == d || (id.Succs[0].Dominates(d) && id.Succs[0] != id.Succs[1])
		falseSide := id.Succs[1] == d || (id.Succs[1].Dominates(d) && id.Succs[0] != id.Succs[1])
		condNonNilOnTrue := bo.Op == token.NEQ
		if trueSide && !falseSide && condNonNilOnTrue == nonNil {
			return true
		}
		if falseSide && !trueSide && condNonNilOnTrue != nonNil {
			return true
		}
	}
	return false
}

// ---- R7.4: the index space is never restarted inconsistently ---------------------------------------------

// addR74: dense indices 0..n-1 with FindCall(i).Index == i rest on the invariant "the keys of lookup are
// exactly 0..count-1". add keeps it by lookup[count] = node; count++. Any other write must keep it too:
// on every path of every function other than the constructor, the lookup table is replaced (a store to the
// field itself) if and only if the counter is set back to the constant 0, and a path that does either also
// clears or re-assigns root. Deleting entries from lookup is never allowed.
func addR74(w *World, r *Report, rule string) {
	vm := forkPath(pkVM)
	n := 0
	for _, top := range w.Funcs(vm) {
		for _, fn := range withAnon(top) {
			touches := false
			for _, b := range fn.Blocks {
				for _, ins := range b.Instrs {
					switch x := ins.(type) {
					case *ssa.Store:
						if fa, ok := x.Addr.(*ssa.FieldAddr); ok {
							switch fieldID(fa) {
							case "P0.CallTree.lookup", "P0.CallTree.count", "P0.CallTree.root":
								if _, isAlloc := fa.X.(*ssa.Alloc); !isAlloc {
									touches = true
								}
							}
						}
					case *ssa.Call:
						if bi, ok := x.Call.Value.(*ssa.Builtin); ok && (bi.Name() == "delete" || bi.Name() == "clear") && len(x.Call.Args) > 0 {
							if u, ok := x.Call.Args[0].(*ssa.UnOp); ok && u.Op == token.MUL {
								if fa, ok := u.X.(*ssa.FieldAddr); ok && fieldID(fa) == "P0.CallTree.lookup" {
									n++
									r.violated(rule, relName(fn)+"/delete", w.pos(x.Pos()), "entries are removed from the index lookup table: FindCall would no longer return every recorded node")
								}
							}
						}
					}
				}
			}
			if !touches {
				continue
			}
			n++
			key := relName(fn)
			// enumerate acyclic paths
			type flags struct{ lookup, zero, root, other bool }
			var bad []string
			paths := 0
			var walk func(b *ssa.BasicBlock, onPath map[*ssa.BasicBlock]bool, f flags)
			walk = func(b *ssa.BasicBlock, onPath map[*ssa.BasicBlock]bool, f flags) {
				if onPath[b] || paths > 2000 {
					return
				}
				onPath[b] = true
				defer delete(onPath, b)
				for _, ins := range b.Instrs {
					st, ok := ins.(*ssa.Store)
					if !ok {
						continue
					}
					fa, ok := st.Addr.(*ssa.FieldAddr)
					if !ok {
						continue
					}
					switch fieldID(fa) {
					case "P0.CallTree.lookup":
						f.lookup = true
					case "P0.CallTree.root":
						f.root = true
					case "P0.CallTree.count":
						if k, ok := st.Val.(*ssa.Const); ok && k.Value != nil && k.Value.ExactString() == "0" {
							f.zero = true
						} else if bo, ok := st.Val.(*ssa.BinOp); ok && bo.Op == token.ADD {
							// the increment (R7.3 checks its exact form)
						} else {
							f.other = true
						}
					}
				}
				if _, ok := b.Instrs[len(b.Instrs)-1].(*ssa.Return); ok || len(b.Succs) == 0 {
					paths++
					switch {
					case f.other:
						bad = append(bad, "a path stores something other than 0 or count+1 into the call counter")
					case f.lookup != f.zero:
						if f.lookup {
							bad = append(bad, "a path replaces the index lookup table without setting the call counter back to 0: later nodes get indices that continue the old numbering while the nodes carrying the earlier indices are forgotten")
						} else {
							bad = append(bad, "a path sets the call counter back to 0 without replacing the index lookup table: new nodes overwrite the entries of earlier ones")
						}
					case f.lookup && !f.root:
						bad = append(bad, "a path restarts the index space but keeps the old root")
					}
					return
				}
				for _, s := range b.Succs {
					walk(s, onPath, f)
				}
			}
			if len(fn.Blocks) > 0 {
				walk(fn.Blocks[0], map[*ssa.BasicBlock]bool{}, flags{})
			}
			bad = dedup(bad)
			if paths > 2000 {
				r.undecided(rule, key, w.pos(fn.Pos()), "too many paths")
			} else if len(bad) > 0 {
				r.violated(rule, key, w.pos(fn.Pos()), strings.Join(bad, " | "))
			} else {
				r.holds(rule, key, w.pos(fn.Pos()), fmt.Sprintf("%d paths: lookup table replaced iff counter reset, on every path", paths))
			}
		}
	}
	r.need(rule, 1)
	_ = n
}


// addR75: write sets of the two tree mutators.
func addR75(w *World, r *Report, rule string) {
	vm := forkPath(pkVM)
	allowed := map[string]map[string]bool{
		"(*CallTree).exit": {"P0.Call.RemainingGas": true, "P0.Call.Ret": true, "P0.Call.Err": true, "P0.CallTree.current": true},
		"(*CallTree).add":  {"P0.CallTree.count": true, "P0.CallTree.root": true, "P0.CallTree.current": true, "P0.Call.Children": true, "P0.CallTree.lookup": true},
	}
	for _, rel := range []string{"(*CallTree).add", "(*CallTree).exit"} {
		fn := w.Func(vm, rel)
		key := "vm." + rel + "/write-set"
		if fn == nil {
			r.undecided(rule, key, "-", "function not found")
			continue
		}
		var bad []string
		for _, b := range fn.Blocks {
			for _, ins := range b.Instrs {
				st, ok := ins.(*ssa.Store)
				if !ok {
					continue
				}
				fa, ok := st.Addr.(*ssa.FieldAddr)
				if !ok {
					continue
				}
				if _, isAlloc := fa.X.(*ssa.Alloc); isAlloc {
					continue // the node under construction
				}
				id := fieldID(fa)
				if !allowed[rel][id] {
					bad = append(bad, "stores to "+id+" at "+w.pos(st.Pos()))
					continue
				}
				if id == "P0.Call.Children" {
					// only by appending to the list that is there
					okApp := false
					if c, isCall := st.Val.(*ssa.Call); isCall {
						if bi, isB := c.Call.Value.(*ssa.Builtin); isB && bi.Name() == "append" {
							okApp = true
						}
					}
					if !okApp {
						bad = append(bad, "replaces a node's Children (not an append) at "+w.pos(st.Pos()))
					}
				}
			}
		}
		if len(bad) > 0 {
			r.violated(rule, key, w.pos(fn.Pos()), strings.Join(bad, "; ")+": links between recorded nodes are changed after the fact")
		} else {
			r.holds(rule, key, w.pos(fn.Pos()), "stores only to its own part of the tree")
		}
	}
	r.need(rule, 2)
}


// privateHelpersOf: unexported fork functions all of whose call sites lie in functions of the given set
// (or in other such helpers): code factored out of a reviewed function is still that function's code.
// Returns helper name -> the reviewed functions it (transitively) serves.
func (w *World) privateHelpersOf(set map[string]bool) map[string]string {
	key := ""
	{
		var ks []string
		for k := range set {
			ks = append(ks, k)
		}
		sort.Strings(ks)
		key = strings.Join(ks, "|")
	}
	if w.helperMemo == nil {
		w.helperMemo = map[string]map[string]string{}
	}
	if m, ok := w.helperMemo[key]; ok {
		return m
	}
	// all unexported fork functions with their callers
	type fnInfo struct {
		obj     *types.Func
		name    string
		callers map[string]bool
	}
	var cands []*fnInfo
	for path, p := range w.Pkgs {
		if !strings.HasPrefix(path, forkMod) {
			continue
		}
		for _, f := range p.Syntax {
			for _, d := range f.Decls {
				fd, ok := d.(*ast.FuncDecl)
				if !ok || fd.Body == nil || fd.Name.IsExported() {
					continue
				}
				if fo, ok := p.TypesInfo.Defs[fd.Name].(*types.Func); ok {
					cands = append(cands, &fnInfo{obj: fo, name: pkgShortOf(path) + "." + declRelName(fd)})
				}
			}
		}
	}
	byObj := map[*types.Func]*fnInfo{}
	for _, c := range cands {
		byObj[c.obj] = c
		c.callers = map[string]bool{}
	}
	for _, cs := range w.callSitesOf(func(f *types.Func) bool { return byObj[f] != nil }) {
		if fo, ok := typeutil.Callee(cs.pkg.TypesInfo, cs.call).(*types.Func); ok {
			if c := byObj[fo]; c != nil {
				c.callers[cs.fn] = true
			}
		}
	}
	out := map[string]string{}
	for changed := true; changed; {
		changed = false
		for _, c := range cands {
			if out[c.name] != "" || set[c.name] || len(c.callers) == 0 {
				continue
			}
			ok := true
			var owners []string
			for cl := range c.callers {
				switch {
				case set[cl]:
					owners = append(owners, cl)
				case out[cl] != "":
					owners = append(owners, out[cl])
				default:
					ok = false
				}
			}
			if ok {
				sort.Strings(owners)
				out[c.name] = strings.Join(owners, ",")
				changed = true
			}
		}
	}
	w.helperMemo[key] = out
	return out
}
