package main

// C19 R19.10: "each call under the frame or Aspect execution that issued it". In callTracer.CaptureExit
// (and the fork helpers it calls) a finished call is appended either to the Calls of the parent frame or
// to the Calls of the parent's last Aspect execution. The two appends are guarded by conditions over
// the parent's Aspect marker (joinPoint) and the length of its JoinPoints; as boolean functions of
// those atoms (truth tables, so any spelling of the conditions will do):
//   - exactly one of the two appends executes, whatever the atoms are;
//   - the append under the Aspect execution executes only while the marker is set;
//   - whenever the marker is not set, the call goes to the parent frame.

import (
	"sort"
	"strings"

	"golang.org/x/tools/go/ssa"
)

func addAttachRule(w *World, r *Report, rule string) {
	key := "tracers/native.(*callTracer).CaptureExit/attach"
	root := w.Func(forkPath(pkNative), "(*callTracer).CaptureExit")
	if root == nil {
		r.undecided(rule, key, "-", "function not found")
		return
	}
	// the function holding the appends: CaptureExit or a fork helper it calls
	type site struct {
		st    *ssa.Store
		under string // "frame" | "aspect"
	}
	var fn *ssa.Function
	var sites []site
	seen := map[*ssa.Function]bool{}
	var visit func(f *ssa.Function, depth int)
	visit = func(f *ssa.Function, depth int) {
		if f == nil || seen[f] || f.Blocks == nil || depth > 2 {
			return
		}
		seen[f] = true
		var here []site
		for _, b := range f.Blocks {
			for _, ins := range b.Instrs {
				switch x := ins.(type) {
				case *ssa.Store:
					fa, ok := x.Addr.(*ssa.FieldAddr)
					if !ok || fieldNameOf(fa) != "Calls" {
						continue
					}
					if c, isCall := x.Val.(*ssa.Call); !isCall {
						continue
					} else if bi, isB := c.Call.Value.(*ssa.Builtin); !isB || bi.Name() != "append" {
						continue
					}
					switch typeBaseName(fa.X.Type()) {
					case "callFrame":
						here = append(here, site{x, "frame"})
					case "aspectCallFrame":
						here = append(here, site{x, "aspect"})
					}
				case *ssa.Call:
					if g := x.Call.StaticCallee(); g != nil && g.Pkg != nil && g.Pkg.Pkg.Path() == forkPath(pkNative) {
						visit(g, depth+1)
					}
				}
			}
		}
		if len(here) > 0 && fn == nil {
			fn, sites = f, here
		}
	}
	visit(root, 0)
	var frameSt, aspectSt *ssa.Store
	for _, s := range sites {
		switch s.under {
		case "frame":
			if frameSt != nil {
				r.undecided(rule, key, w.pos(s.st.Pos()), "more than one append to a frame's Calls")
				return
			}
			frameSt = s.st
		case "aspect":
			if aspectSt != nil {
				r.undecided(rule, key, w.pos(s.st.Pos()), "more than one append to an Aspect execution's Calls")
				return
			}
			aspectSt = s.st
		}
	}
	if frameSt == nil || aspectSt == nil {
		r.undecided(rule, key, w.pos(root.Pos()), "the two appends (to the parent frame's Calls and to its Aspect execution's Calls) were not both found: the rule's anchor does not resolve")
		return
	}
	// region entry: the nearest block dominating both
	stop := frameSt.Block()
	for stop != nil && !stop.Dominates(aspectSt.Block()) {
		stop = stop.Idom()
	}
	if stop == nil {
		r.undecided(rule, key, w.pos(frameSt.Pos()), "no common dominator")
		return
	}
	g := &guardBuilder{}
	fF := g.reach(frameSt.Block(), stop, map[*ssa.BasicBlock]bool{})
	fA := g.reach(aspectSt.Block(), stop, map[*ssa.BasicBlock]bool{})
	if g.fail != "" {
		r.undecided(rule, key, w.pos(frameSt.Pos()), "the guards of the two appends could not be read as boolean functions: "+g.fail)
		return
	}
	atoms := map[string]bool{}
	for a := range fF.atoms {
		atoms[a] = true
	}
	for a := range fA.atoms {
		atoms[a] = true
	}
	var as []string
	marker := ""
	for a := range atoms {
		as = append(as, a)
		// `<frame>.joinPoint == 0`: the marker holds the zero value (JoinPointRunType_Unknown), no Aspect is running
		if parts := strings.SplitN(a, " == ", 2); len(parts) == 2 {
			if (parts[0] == "0" && strings.HasSuffix(parts[1], ".joinPoint")) || (parts[1] == "0" && strings.HasSuffix(parts[0], ".joinPoint")) {
				marker = a
			}
		}
	}
	sort.Strings(as)
	if marker == "" || len(as) > 8 {
		r.violated(rule, key, w.pos(aspectSt.Pos()), "the choice between the parent frame and its Aspect execution does not test the frame's Aspect marker (atoms: "+strings.Join(as, " ; ")+")")
		return
	}
	// is the marker atom `marker == Unknown` (true = no Aspect running)? the constant compared with is the zero value
	var bad []string
	for m := 0; m < 1<<len(as); m++ {
		env := map[string]bool{}
		for i, a := range as {
			env[a] = m&(1<<i) != 0
		}
		f, a := fF.eval(env), fA.eval(env)
		if f == a {
			bad = append(bad, "for some outcome of the tests the finished call is attached twice or not at all")
			break
		}
		if a && env[marker] {
			bad = append(bad, "the call is put under an Aspect execution although the frame's marker says none is running")
			break
		}
		if env[marker] && !f {
			bad = append(bad, "with no Aspect execution running the call is not attached to the parent frame")
			break
		}
	}
	if len(bad) > 0 {
		r.violated(rule, key, w.pos(aspectSt.Pos()), strings.Join(bad, "; ")+" (frame: "+fF.table()+"; aspect: "+fA.table()+")")
	} else {
		r.holds(rule, key, w.pos(aspectSt.Pos()), "exactly one of the two appends executes; the Aspect one only while the marker is set; without a marker always the parent frame ("+fA.table()+")")
	}
	r.need(rule, 1)
}
