package main

// C08: the call tree records every attempt with inputs as made and outcome as seen.
// R8.1 provenance of the SaveCall / ExitCall arguments (AST, resolved objects) + R7.1 pairing;
// R8.2 borrowed-reference retention (E4): nothing that may alias live interpreter memory or the
// live operand stack is stored into recorder-owned memory.

import (
	"fmt"
	"go/ast"
	"go/token"
	"go/types"
	"sort"
	"strings"

	"golang.org/x/tools/go/ssa"
)

func init() {
	register("C08", true, true, checkC08)
}

func checkC08(w *World, tier string) *Report {
	r := newReport("C08")
	r.Explanation = "R8.1p (go/cfg, all paths of Call and create): SaveCall executes exactly once before every return — so attempts refused by the depth, balance, nonce and collision checks are recorded — and exactly one deferred ExitCall closes the node; " +
		"R8.1a (resolved AST): SaveCall is preceded only by obtaining the recorder and its arguments are built from exactly this call's parameters (caller.Address(), &addr | nil, input | codeAndHash.code, value, gas), none of which is assigned before; ExitCall receives the function's own named results (leftover gas, ret, err); " +
		"R8.2 (SSA borrowed-reference retention over all fork packages): a reference that may alias live interpreter memory (Memory.GetPtr, slices of Memory.store) or the live operand stack (Stack.peek/Back), directly or through parameters and struct fields it was passed/stored into, never reaches a store into recorder-owned memory (Call nodes, storage keys, change lists) without passing a copying call. Results of calls are followed through result-aliases-parameter summaries (interface calls resolved to every implementation in the fork, e.g. all precompile Run methods; captured result variables through the deferred closure); calls through function values (the opcode table) are resolved by signature to every address-taken fork function. R8.4 the one ownership exception — the data a finished frame hands back points into that frame's own Memory, which is dead afterwards — rests on a checked premise: NewMemory returns a fresh allocation on every path and no Memory is ever pooled or stored globally. R8.5 the exported creation entry points (Create, Create2) reach create — where the attempt is recorded — on every path: no refusal is decided before the recorder has seen the attempt. R8.3 SaveCall/ExitCall forward their parameters positionally to add/exit, and there every parameter is stored into a field of the node on every recording path (add: a store that every return passes; exit: on every path with a non-nil cursor) — an outcome stored only for some error classes is not the outcome as seen. Program order of siblings and equality of recorded values with an independent log are not decided."
	addR71(w, r, "R8.1p")
	addR81a(w, r, "R8.1a")
	addR82(w, r, "R8.2")
	addR83(w, r, "R8.3")
	addR84(w, r, "R8.4")
	addR85(w, r, "R8.5")
	// shared (fourth batch of seeded changes): a node is one object — what add links under its parent and what the index
	// table hands out is the same allocation (C07 R7.3/R7.5), so the outcome stored at exit is seen by every observer;
	// and nothing between create and its caller rewrites the outcome after the node was closed (Create, Create2 and the
	// create instructions are the reference's)
	addR73(w, r, "R7.3")
	addR75(w, r, "R7.5")
	w.e1().cloneRule(r, "R8.6", pkVM, func(name string, pr *PairResult) bool {
		return name == "(*EVM).Create" || name == "(*EVM).Create2" || name == "opCreate" || name == "opCreate2"
	})
	r.need("R8.6", 4)
	r.Explanation += " R7.3/R7.5 (shared with C07) the node linked under its parent, the node the cursor points at and the node the index table hands out are one allocation, and exit stores the outcome into it; R8.6 Create, Create2, opCreate and opCreate2 are SSA clones of the reference (no result is rewritten after the node of the creation frame was closed)."
	r.Assumptions = append(r.Assumptions, "the byte slice returned by a finished frame (EVMInterpreter.Run, precompiles, join points) is not written by anyone else afterwards", "hosts calling EVM.Call/Create directly do not reuse the input buffer while the call tree is alive (only opcode-originated calls are analysed)")
	return r
}

func addR81a(w *World, r *Report, rule string) {
	type spec struct {
		rel      string
		saveArgs []string
		exitRes  []int // indices of the named results passed to ExitCall, in order
	}
	for _, sp := range []spec{
		// $k = the k-th parameter of the function (0 = ctx): Call(ctx, caller, addr, input, gas, value),
		// create(ctx, caller, codeAndHash, gas, value, address, typ)
		{"(*EVM).Call", []string{"$1.Address()", "&$2", "$3", "$5", "$4"}, []int{1, 0, 2}},
		{"(*EVM).create", []string{"$1.Address()", "nil", "$2.code", "$4", "$3"}, []int{2, 0, 3}},
	} {
		fd, p := w.FuncDecl(forkPath(pkVM), sp.rel)
		key := "vm." + sp.rel
		if fd == nil {
			r.undecided(rule, key, "-", "function not found")
			continue
		}
		// calls of forwarding helpers (also a helper deferred directly) are read as the calls they stand for
		if nl := w.expandForwarding(p, fd.Body.List); len(nl) > 0 && &nl[0] != &fd.Body.List[0] {
			cp := *fd
			cp.Body = &ast.BlockStmt{Lbrace: fd.Body.Lbrace, List: nl, Rbrace: fd.Body.Rbrace}
			fd = &cp
		}
		info := p.TypesInfo
		c := &astCanon{info: info}
		params := map[types.Object]bool{}
		for _, f := range fd.Type.Params.List {
			for _, n := range f.Names {
				params[info.Defs[n]] = true
			}
		}
		shape := paramShape(info, fd)
		var results []types.Object
		if fd.Type.Results != nil {
			for _, f := range fd.Type.Results.List {
				for _, n := range f.Names {
					results = append(results, info.Defs[n])
				}
			}
		}
		var bad []string
		// locate the SaveCall statement among the top-level statements
		saveIdx := -1
		var save *ast.CallExpr
		for i, s := range fd.Body.List {
			for _, call := range callsIn(s) {
				if fo := calleeFn(info, call); fo != nil && funcIs("Tracer", "SaveCall")(fo) {
					if saveIdx >= 0 {
						bad = append(bad, "more than one SaveCall statement")
					}
					saveIdx, save = i, call
				}
			}
			if saveIdx >= 0 {
				break
			}
		}
		if save == nil {
			r.violated(rule, key, w.pos(fd.Pos()), "no top-level SaveCall statement: the attempt is not recorded on entry")
			continue
		}
		// statements before it: only `x := evm.Tracer()`-like pure recorder access
		for _, s := range fd.Body.List[:saveIdx] {
			as, ok := s.(*ast.AssignStmt)
			okStmt := false
			if ok && as.Tok == token.DEFINE && len(as.Rhs) == 1 {
				if call, ok := as.Rhs[0].(*ast.CallExpr); ok {
					if fo := calleeFn(info, call); fo != nil && funcIs("EVM", "Tracer")(fo) {
						okStmt = true
					}
				}
			}
			if !okStmt {
				bad = append(bad, "statement `"+clip(c.stmtOrExpr(s), 60)+"` runs before the attempt is recorded")
			}
		}
		// arguments
		if len(save.Args) != 5 {
			bad = append(bad, "unexpected SaveCall arity")
		} else {
			for i, want := range sp.saveArgs {
				arg := save.Args[i]
				if i >= 3 { // uint256.MustFromBig(value) / uint256.NewInt(gas)
					call, ok := arg.(*ast.CallExpr)
					fo := (*types.Func)(nil)
					if ok {
						fo = calleeFn(info, call)
					}
					if fo == nil || fo.Pkg() == nil || fo.Pkg().Path() != "github.com/holiman/uint256" || len(call.Args) != 1 {
						bad = append(bad, fmt.Sprintf("argument %d is not a fresh uint256 conversion of the parameter %s", i+1, want))
						continue
					}
					arg = call.Args[0]
				}
				got := shape(arg)
				if got != want {
					bad = append(bad, fmt.Sprintf("argument %d is `%s`, expected this call's `%s`", i+1, got, want))
					continue
				}
				if id := rootIdent(arg); id != nil && want != "nil" && !params[info.Uses[id]] {
					bad = append(bad, fmt.Sprintf("argument %d `%s` is not rooted in a parameter of the function", i+1, got))
				}
			}
		}
		// ExitCall arguments = named results
		nExit := 0
		ast.Inspect(fd.Body, func(n ast.Node) bool {
			call, ok := n.(*ast.CallExpr)
			if !ok {
				return true
			}
			if fo := calleeFn(info, call); fo == nil || !funcIs("Tracer", "ExitCall")(fo) {
				return true
			}
			nExit++
			if len(call.Args) != 3 || len(results) <= 3 && sp.rel == "(*EVM).create" {
				bad = append(bad, "unexpected ExitCall arity / result list")
				return true
			}
			for i, ri := range sp.exitRes {
				id, ok := call.Args[i].(*ast.Ident)
				if !ok || ri >= len(results) || info.Uses[id] != results[ri] {
					bad = append(bad, fmt.Sprintf("ExitCall argument %d is not the function's own named result #%d", i+1, ri))
				}
			}
			return true
		})
		if nExit != 1 {
			bad = append(bad, fmt.Sprintf("%d ExitCall sites, expected 1", nExit))
		}
		if len(bad) > 0 {
			r.violated(rule, key, w.pos(save.Pos()), strings.Join(bad, "; "))
		} else {
			r.holds(rule, key, w.pos(save.Pos()), "SaveCall("+strings.Join(sp.saveArgs, ", ")+") is the first effect; ExitCall receives the named results")
		}
	}
	r.need(rule, 2)
}

func calleeFn(info *types.Info, call *ast.CallExpr) *types.Func {
	var id *ast.Ident
	switch f := call.Fun.(type) {
	case *ast.Ident:
		id = f
	case *ast.SelectorExpr:
		id = f.Sel
	}
	if id == nil {
		return nil
	}
	fo, _ := info.Uses[id].(*types.Func)
	return fo
}

func (c *astCanon) stmtOrExpr(n ast.Node) string {
	if s, ok := n.(ast.Stmt); ok {
		return exprOrStmt(s)
	}
	return ""
}

// ---- R8.2 borrowed-reference retention -------------------------------------------------------------

// borrowSources: calls whose result aliases live interpreter state.
func borrowSource(c *ssa.Call) string {
	cal := c.Call.StaticCallee()
	if cal == nil || cal.Signature.Recv() == nil || !isForkPkg(cal.Pkg) {
		return ""
	}
	switch typeBaseName(cal.Signature.Recv().Type()) + "." + cal.Name() {
	case "Memory.GetPtr", "Memory.Data":
		return "Memory." + cal.Name()
	case "Stack.peek", "Stack.Back", "Stack.Data":
		return "Stack." + cal.Name()
	}
	return ""
}

func isRefType(t types.Type) bool {
	switch u := t.Underlying().(type) {
	case *types.Slice:
		return true
	case *types.Pointer:
		// pointers to big numbers (operand stack slots); other pointers are object identities, not buffers
		if nt, ok := u.Elem().(*types.Named); ok && nt.Obj().Name() == "Int" {
			return true
		}
	}
	return false
}

func addR82(w *World, r *Report, rule string) {
	all := w.forkFuncsAll()
	fam := map[*ssa.Function]bool{}
	for _, f := range w.tracerFamilyFuncs() {
		for _, g := range withAnon(f) {
			fam[g] = true
		}
	}
	// roots (parameters / borrow-source calls / field loads) a value may be an alias of: alias.go
	type root = aroot
	eng := w.aliasEngine()
	rootsOf := eng.rootsOf
	// retained parameters of recorder functions (fixed point through family calls)
	retained := map[*ssa.Parameter]token.Pos{}
	retainedField := map[*ssa.Parameter]string{}
	type storeSite struct {
		fn    *ssa.Function
		field string
		pos   token.Pos
		val   ssa.Value
	}
	var stores []storeSite
	for f := range fam {
		for _, b := range f.Blocks {
			for _, ins := range b.Instrs {
				switch x := ins.(type) {
				case *ssa.Store:
					if !isRefType(x.Val.Type()) {
						continue
					}
					switch a := x.Addr.(type) {
					case *ssa.FieldAddr:
						stores = append(stores, storeSite{f, fieldID(a), x.Pos(), x.Val})
					case *ssa.IndexAddr:
						stores = append(stores, storeSite{f, "element of " + normType(a.X.Type()), x.Pos(), x.Val})
					}
				case *ssa.MapUpdate:
					if isRefType(x.Value.Type()) {
						stores = append(stores, storeSite{f, "value of " + normType(x.Map.Type()), x.Pos(), x.Value})
					}
				}
			}
		}
	}
	for changed := true; changed; {
		changed = false
		mark := func(p *ssa.Parameter, pos token.Pos, field string) {
			if _, ok := retained[p]; !ok {
				retained[p] = pos
				retainedField[p] = field
				changed = true
			}
		}
		for _, s := range stores {
			for _, rt := range rootsOf(s.val, map[ssa.Value]bool{}) {
				if rt.param != nil {
					mark(rt.param, s.pos, s.field)
				}
			}
		}
		for f := range fam {
			for _, b := range f.Blocks {
				for _, ins := range b.Instrs {
					ci, ok := ins.(ssa.CallInstruction)
					if !ok {
						continue
					}
					cal := ci.Common().StaticCallee()
					if cal == nil || !fam[cal] || len(ci.Common().Args) != len(cal.Params) {
						continue
					}
					for i, a := range ci.Common().Args {
						if _, isRet := retained[cal.Params[i]]; !isRet || !isRefType(a.Type()) {
							continue
						}
						for _, rt := range rootsOf(a, map[ssa.Value]bool{}) {
							if rt.param != nil {
								mark(rt.param, ins.Pos(), retainedField[cal.Params[i]])
							}
						}
					}
				}
			}
		}
	}
	// borrowed parameters and fields of the whole fork (fixed point)
	borrowedParam := map[*ssa.Parameter]string{}
	borrowedField := map[string]string{}
	why := func(rt root) string {
		switch {
		case rt.src != nil:
			return borrowSource(rt.src) + " at " + w.pos(rt.src.Pos())
		case rt.param != nil:
			return borrowedParam[rt.param]
		case rt.field != "":
			return borrowedField[rt.field]
		}
		return ""
	}
	for changed := true; changed; {
		changed = false
		for _, f := range all {
			for _, b := range f.Blocks {
				for _, ins := range b.Instrs {
					switch x := ins.(type) {
					case *ssa.Store:
						fa, ok := x.Addr.(*ssa.FieldAddr)
						if !ok || !isRefType(x.Val.Type()) {
							continue
						}
						id := fieldID(fa)
						if _, done := borrowedField[id]; done {
							continue
						}
						for _, rt := range rootsOf(x.Val, map[ssa.Value]bool{}) {
							if y := why(rt); y != "" {
								borrowedField[id] = y + " -> field " + id
								changed = true
								break
							}
						}
					case ssa.CallInstruction:
						cal := x.Common().StaticCallee()
						if cal == nil || !isForkPkg(cal.Pkg) || cal.Blocks == nil || len(x.Common().Args) != len(cal.Params) {
							continue
						}
						for i, a := range x.Common().Args {
							if !isRefType(a.Type()) {
								continue
							}
							if _, done := borrowedParam[cal.Params[i]]; done {
								continue
							}
							for _, rt := range rootsOf(a, map[ssa.Value]bool{}) {
								if y := why(rt); y != "" {
									borrowedParam[cal.Params[i]] = y + " -> " + relName(cal) + "(" + cal.Params[i].Name() + ")"
									changed = true
									break
								}
							}
						}
					}
				}
			}
		}
	}
	// obligations: one per store site of a reference into recorder memory
	nSrc := 0
	for _, f := range all {
		for _, b := range f.Blocks {
			for _, ins := range b.Instrs {
				if c, ok := ins.(*ssa.Call); ok && borrowSource(c) != "" {
					nSrc++
				}
			}
		}
	}
	r.Analysed["borrow_sources"] = nSrc
	r.Analysed["recorder_reference_stores"] = len(stores)
	r.Analysed["retained_parameters"] = len(retained)
	sort.Slice(stores, func(i, j int) bool { return stores[i].pos < stores[j].pos })
	ord := map[string]int{}
	for _, s := range stores {
		base := relName(s.fn) + "/" + s.field
		ord[base]++
		key := fmt.Sprintf("store:%s#%d", base, ord[base])
		var bad []string
		nontrivial := false
		for _, rt := range rootsOf(s.val, map[ssa.Value]bool{}) {
			nontrivial = true
			if y := why(rt); y != "" {
				bad = append(bad, y)
			}
		}
		if len(bad) > 0 {
			sort.Strings(bad)
			r.violated(rule, key, w.pos(s.pos), "a reference into live interpreter state is retained by the recorder without a copy (later writes by the program would alter the recorded call): "+strings.Join(dedup(bad), " | "))
		} else {
			r.add(rule, key, Holds, w.pos(s.pos), "the stored reference is a fresh value or derives only from arguments that are never borrowed from live memory/stack on any static call chain", nontrivial)
		}
	}
	if nSrc < 8 {
		r.violated(rule, "instance-count:borrow-sources", "-", fmt.Sprintf("expected at least 8 Memory.GetPtr/Stack.peek sites, found %d: the rule's anchors no longer resolve", nSrc))
	}
	r.need(rule, 8)
}


// paramShape prints an expression with the parameters of fd replaced by their position ($0, $1, …;
// $r = receiver), so that rules about "this call's parameters" do not depend on parameter names.
func paramShape(info *types.Info, fd *ast.FuncDecl) func(e ast.Expr) string {
	pidx := map[types.Object]string{}
	k := 0
	for _, f := range fd.Type.Params.List {
		for _, n := range f.Names {
			pidx[info.Defs[n]] = fmt.Sprintf("$%d", k)
			k++
		}
		if len(f.Names) == 0 {
			k++
		}
	}
	if fd.Recv != nil && len(fd.Recv.List) == 1 && len(fd.Recv.List[0].Names) == 1 {
		pidx[info.Defs[fd.Recv.List[0].Names[0]]] = "$r"
	}
	var shape func(e ast.Expr) string
	shape = func(e ast.Expr) string {
		switch x := e.(type) {
		case *ast.Ident:
			if s, ok := pidx[info.Uses[x]]; ok {
				return s
			}
			if x.Name == "nil" {
				return "nil"
			}
			return "?" + x.Name
		case *ast.SelectorExpr:
			return shape(x.X) + "." + x.Sel.Name
		case *ast.CallExpr:
			if len(x.Args) == 0 {
				return shape(x.Fun) + "()"
			}
		case *ast.UnaryExpr:
			if x.Op == token.AND {
				return "&" + shape(x.X)
			}
		case *ast.ParenExpr:
			return shape(x.X)
		}
		return "?"
	}
	return shape
}

// ---- R8.3 every argument of the recorder entry/exit is recorded on every recording path -------------

// addR83: (a) Tracer.SaveCall / Tracer.ExitCall hand their parameters, in order, to CallTree.add /
// CallTree.exit; (b) in add, every parameter is stored (directly or through a copying call) into a
// field of the new node by a store that dominates every return; (c) in exit, every parameter is
// stored into a field of the node under the cursor on every path on which the cursor is non-nil —
// an outcome stored only under a condition on the outcome (e.g. only for successful frames) is not
// "the outcome as seen".
func addR83(w *World, r *Report, rule string) {
	vm := forkPath(pkVM)
	type pair struct{ outer, inner string }
	for _, pr := range []pair{{"(*Tracer).SaveCall", "(*CallTree).add"}, {"(*Tracer).ExitCall", "(*CallTree).exit"}} {
		of, inf := w.Func(vm, pr.outer), w.Func(vm, pr.inner)
		key := "vm." + pr.outer + "->" + pr.inner
		if of == nil || inf == nil {
			r.undecided(rule, key, "-", "function not found: the rule's anchor does not resolve")
			continue
		}
		var call *ssa.Call
		n := 0
		for _, b := range of.Blocks {
			for _, ins := range b.Instrs {
				if c, ok := ins.(*ssa.Call); ok && c.Call.StaticCallee() == inf {
					call = c
					n++
				}
			}
		}
		bad := ""
		switch {
		case n != 1:
			bad = fmt.Sprintf("expected exactly one call of %s, found %d", pr.inner, n)
		case len(of.Blocks) != 1:
			bad = "the forwarding method is not straight-line: the node may be opened/closed conditionally"
		case len(call.Call.Args) != len(of.Params):
			bad = "argument count differs from the parameter count"
		default:
			for i := 1; i < len(of.Params); i++ {
				if call.Call.Args[i] != ssa.Value(of.Params[i]) {
					bad = fmt.Sprintf("argument %d handed to %s is not parameter %d of %s", i, pr.inner, i, pr.outer)
				}
			}
		}
		if bad != "" {
			r.violated(rule, key, w.pos(of.Pos()), bad)
		} else {
			r.holds(rule, key, w.pos(call.Pos()), "parameters forwarded positionally, unconditionally, exactly once")
		}
	}
	// stores of parameters into node fields
	copying := func(v ssa.Value) ssa.Value {
		// dst := make(..); copy(dst, p)
		if mk, ok := v.(*ssa.MakeSlice); ok {
			for _, rf := range *mk.Referrers() {
				if c, ok := rf.(*ssa.Call); ok {
					if bi, ok := c.Call.Value.(*ssa.Builtin); ok && bi.Name() == "copy" && len(c.Call.Args) == 2 && c.Call.Args[0] == ssa.Value(mk) {
						return c.Call.Args[1]
					}
				}
			}
		}
		if c, ok := v.(*ssa.Call); ok {
			// append(nil or fresh, p...) copies p
			if bi, ok := c.Call.Value.(*ssa.Builtin); ok && bi.Name() == "append" && len(c.Call.Args) == 2 {
				switch b := c.Call.Args[0].(type) {
				case *ssa.Const:
					if b.Value == nil {
						return c.Call.Args[1]
					}
				case *ssa.MakeSlice:
					return c.Call.Args[1]
				}
			}
			if f := c.Call.StaticCallee(); f != nil && len(c.Call.Args) == 1 {
				switch normPath(f.String()) {
				case "github.com/ethereum/go-ethereum/common.CopyBytes", "bytes.Clone":
					return c.Call.Args[0]
				}
			}
		}
		return v
	}
	for _, rel := range []string{"(*CallTree).add", "(*CallTree).exit"} {
		fn := w.Func(vm, rel)
		if fn == nil {
			r.undecided(rule, "vm."+rel, "-", "function not found")
			continue
		}
		// blocks where the cursor is known nil (exit only): successors of `current == nil` tests
		nilSide := map[*ssa.BasicBlock]bool{}
		nilEdge := map[[2]*ssa.BasicBlock]bool{} // the edge taken when the cursor is nil (there is no node to fill)
		for _, b := range fn.Blocks {
			iff, ok := b.Instrs[len(b.Instrs)-1].(*ssa.If)
			if !ok {
				continue
			}
			bo, ok := iff.Cond.(*ssa.BinOp)
			if !ok || (bo.Op != token.EQL && bo.Op != token.NEQ) {
				continue
			}
			var other ssa.Value
			if k, ok := bo.Y.(*ssa.Const); ok && k.Value == nil {
				other = bo.X
			} else if k, ok := bo.X.(*ssa.Const); ok && k.Value == nil {
				other = bo.Y
			}
			u, ok := other.(*ssa.UnOp)
			if !ok || u.Op != token.MUL {
				continue
			}
			if fa, ok := u.X.(*ssa.FieldAddr); !ok || fieldID(fa) != "P0.CallTree.current" {
				continue
			}
			ns := b.Succs[0]
			if bo.Op == token.NEQ {
				ns = b.Succs[1]
			}
			if len(ns.Preds) == 1 {
				nilSide[ns] = true
			}
			nilEdge[[2]*ssa.BasicBlock{b, ns}] = true
		}
		for i := 1; i < len(fn.Params); i++ {
			p := fn.Params[i]
			key := fmt.Sprintf("vm.%s/param#%d", rel, i)
			storeBlocks := map[*ssa.BasicBlock]bool{}
			fld := ""
			for _, b := range fn.Blocks {
				for _, ins := range b.Instrs {
					st, ok := ins.(*ssa.Store)
					if !ok || copying(st.Val) != ssa.Value(p) {
						continue
					}
					fa, ok := st.Addr.(*ssa.FieldAddr)
					if !ok || !strings.HasPrefix(fieldID(fa), "P0.Call.") {
						continue
					}
					storeBlocks[b] = true
					fld = fieldID(fa)
				}
			}
			if len(storeBlocks) == 0 {
				r.violated(rule, key, w.pos(fn.Pos()), fmt.Sprintf("parameter %d (%s) is not stored into a field of the call node", i, p.Type()))
				continue
			}
			// every path from the entry to a return passes a storing block or the cursor-is-nil side
			seen := map[*ssa.BasicBlock]bool{}
			var leak *ssa.BasicBlock
			var dfs func(b *ssa.BasicBlock)
			dfs = func(b *ssa.BasicBlock) {
				if seen[b] || storeBlocks[b] || nilSide[b] || leak != nil {
					return
				}
				seen[b] = true
				if _, ok := b.Instrs[len(b.Instrs)-1].(*ssa.Return); ok {
					leak = b
					return
				}
				for _, s := range b.Succs {
					if !nilEdge[[2]*ssa.BasicBlock{b, s}] {
						dfs(s)
					}
				}
			}
			dfs(fn.Blocks[0])
			if leak != nil {
				r.violated(rule, key, w.pos(leak.Instrs[len(leak.Instrs)-1].Pos()), fmt.Sprintf("a path reaches this return without storing parameter %d into %s: the node then does not carry the value the caller saw (the store is conditional)", i, fld))
			} else {
				r.holds(rule, key, w.pos(fn.Pos()), fmt.Sprintf("stored into %s on every recording path", fld))
			}
		}
	}
	r.need(rule, 10)
}

// ---- R8.4 a frame's memory is dead once the frame is gone -----------------------------------------------

// addR84: the premise of treating Run's result as owned by the caller: NewMemory returns a fresh
// allocation on every path, and no Memory object is ever handed to a pool or stored into a
// package-level variable (a recycled buffer would be written by a later frame while an earlier frame's
// return data, recorded in the call tree, still points into it).
func addR84(w *World, r *Report, rule string) {
	fn := w.Func(forkPath(pkVM), "NewMemory")
	if fn == nil {
		r.undecided(rule, "vm.NewMemory", "-", "function not found: the rule's anchor does not resolve")
	} else if !returnsFreshAlloc(fn) {
		r.violated(rule, "vm.NewMemory", w.pos(fn.Pos()), "NewMemory does not return a fresh allocation on every path (e.g. it takes a recycled object from a pool): return data of a finished frame, which the call tree keeps, would be overwritten by a later frame")
	} else {
		r.holds(rule, "vm.NewMemory", w.pos(fn.Pos()), "fresh allocation on every path")
	}
	isMem := func(t types.Type) bool { return typeBaseName(t) == "Memory" }
	var bad []string
	for _, f := range w.forkFuncsAll() {
		for _, b := range f.Blocks {
			for _, ins := range b.Instrs {
				switch x := ins.(type) {
				case ssa.CallInstruction:
					cal := x.Common().StaticCallee()
					if cal == nil || cal.Name() != "Put" || cal.Signature.Recv() == nil || !strings.HasSuffix(cal.Signature.Recv().Type().String(), "sync.Pool") {
						continue
					}
					for _, a := range x.Common().Args[1:] {
						v := a
						if mi, ok := v.(*ssa.MakeInterface); ok {
							v = mi.X
						}
						if isMem(v.Type()) {
							bad = append(bad, relName(f)+" puts a Memory into a pool at "+w.pos(ins.Pos()))
						}
					}
				case *ssa.Store:
					if g, ok := x.Addr.(*ssa.Global); ok && isMem(x.Val.Type()) {
						bad = append(bad, relName(f)+" stores a Memory into the package-level variable "+g.Name()+" at "+w.pos(ins.Pos()))
					}
				}
			}
		}
	}
	if len(bad) > 0 {
		sort.Strings(bad)
		r.violated(rule, "memory-recycling", "-", strings.Join(bad, "; "))
	} else {
		r.holds(rule, "memory-recycling", "-", "no Memory object is pooled or stored into a package-level variable anywhere in the fork")
	}
	r.need(rule, 2)
}


// addR85: Create and Create2 hand every attempt to create (which records it before any refusal check).
func addR85(w *World, r *Report, rule string) {
	n := 0
	for _, fn := range w.Funcs(forkPath(pkVM)) {
		// wrappers: methods of EVM that call create
		calls := false
		for _, b := range fn.Blocks {
			for _, ins := range b.Instrs {
				if ci, ok := ins.(ssa.CallInstruction); ok {
					if cal := ci.Common().StaticCallee(); cal != nil && cal.Name() == "create" && isForkPkg(cal.Pkg) && cal != fn {
						calls = true
					}
				}
			}
		}
		if !calls || fn.Name() == "create" {
			continue
		}
		n++
		key := relName(fn) + "/always->create"
		leak := mustCallBeforeReturn(fn, func(c ssa.CallInstruction) bool {
			cal := c.Common().StaticCallee()
			return cal != nil && cal.Name() == "create" && isForkPkg(cal.Pkg)
		}, nil)
		if leak != nil {
			r.violated(rule, key, w.pos(leak.Pos()), "a path returns without calling create: an attempt refused here never reaches SaveCall and is missing from the call tree")
		} else {
			r.holds(rule, key, w.pos(fn.Pos()), "every path calls create")
		}
	}
	if n < 2 {
		r.violated(rule, "instance-count", "-", fmt.Sprintf("expected the two creation entry points Create and Create2, found %d callers of create: the rule's anchors no longer resolve", n))
	}
	r.need(rule, 2)
}
