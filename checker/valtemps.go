package main

// Value temporaries of DELTA functions. A fork refactoring that computes a sub-expression of an
// inherited statement into a local first (`gasPrice := new(big.Int).Set(msg.GasPrice)` and then
// `TxContext{GasPrice: gasPrice}`) leaves behaviour unchanged; the canonical printer therefore prints a
// use of such a local as the expression it was defined with, and the defining statement is not judged
// as an insertion of its own (its effects are counted where the local is used). A local qualifies when
// it is defined exactly once, never re-assigned, its address never taken, and either
//   (A) the defining expression is a call-free read (identifiers, field selections, indexing,
//       literals, arithmetic, len/cap, conversions) of locations that nothing after the definition can
//       change (no assignment to them, no call that is handed their root variable), or
//   (B) it is used exactly once, in the head of a statement of the same block, and only definitions of
//       qualifying locals stand between the definition and that statement (the expression is then
//       evaluated at the same point of the execution as in the inherited statement).

import (
	"go/ast"
	"go/token"
	"go/types"
	"golang.org/x/tools/go/types/typeutil"
)

var valTempExpr = map[types.Object]ast.Expr{}
var valTempDef = map[ast.Stmt]bool{}
var valTempsDone = map[*ast.FuncDecl]bool{}

func valTemps(info *types.Info, fd *ast.FuncDecl) {
	if fd == nil || fd.Body == nil || valTempsDone[fd] {
		return
	}
	valTempsDone[fd] = true
	plain := &astCanon{info: info}
	type cand struct {
		obj   types.Object
		stmt  ast.Stmt // the defining statement
		x     ast.Expr
		pure  bool
		paths map[string]bool
		roots map[types.Object]bool
		uses  []*ast.Ident
	}
	var cands []*cand
	byObj := map[types.Object]*cand{}
	spoiled := map[types.Object]bool{}
	// purity and the locations read
	var pureExpr func(e ast.Expr, c *cand) bool
	pureExpr = func(e ast.Expr, c *cand) bool {
		switch x := ast.Unparen(e).(type) {
		case *ast.Ident:
			switch o := info.Uses[x].(type) {
			case *types.Var:
				if !isPkgLevel(o) {
					c.roots[o] = true
				}
				c.paths[plain.expr(x)] = true
				return true
			case *types.Const, *types.Nil:
				return true
			}
			return false
		case *ast.BasicLit:
			return true
		case *ast.SelectorExpr:
			if sel, ok := info.Selections[x]; ok && sel.Kind() == types.FieldVal {
				c.paths[plain.expr(x)] = true
				return pureExpr(x.X, c)
			}
			if id, ok := x.X.(*ast.Ident); ok {
				if _, isPkg := info.Uses[id].(*types.PkgName); isPkg {
					switch info.Uses[x.Sel].(type) {
					case *types.Const:
						return true
					case *types.Var:
						c.paths[plain.expr(x)] = true
						return true
					}
				}
			}
			return false
		case *ast.IndexExpr:
			c.paths[plain.expr(x)] = true
			return pureExpr(x.X, c) && pureExpr(x.Index, c)
		case *ast.BinaryExpr:
			return pureExpr(x.X, c) && pureExpr(x.Y, c)
		case *ast.UnaryExpr:
			return (x.Op == token.SUB || x.Op == token.NOT || x.Op == token.XOR || x.Op == token.ADD) && pureExpr(x.X, c)
		case *ast.StarExpr:
			return pureExpr(x.X, c)
		case *ast.CallExpr:
			if tv, ok := info.Types[x.Fun]; ok && tv.IsType() && len(x.Args) == 1 {
				return pureExpr(x.Args[0], c)
			}
			if id, ok := x.Fun.(*ast.Ident); ok && len(x.Args) == 1 {
				if b, ok := info.Uses[id].(*types.Builtin); ok && (b.Name() == "len" || b.Name() == "cap") {
					return pureExpr(x.Args[0], c)
				}
			}
			// a reviewed side-effect-free getter (insclass.go: pureCallees) of a pure receiver, e.g. caller.Address()
			if isPureCalleeCall(info, x) {
				if sel, ok := x.Fun.(*ast.SelectorExpr); ok && len(x.Args) == 0 {
					return pureExpr(sel.X, c)
				}
			}
		}
		return false
	}
	addCand := func(id *ast.Ident, rhs ast.Expr, st ast.Stmt) {
		o := info.Defs[id]
		if o == nil || id.Name == "_" {
			return
		}
		if byObj[o] != nil {
			spoiled[o] = true
			return
		}
		if tv, ok := info.Types[rhs]; ok {
			if _, isTuple := tv.Type.(*types.Tuple); isTuple {
				return
			}
		}
		c := &cand{obj: o, stmt: st, x: rhs, paths: map[string]bool{}, roots: map[types.Object]bool{}}
		c.pure = pureExpr(rhs, c)
		cands = append(cands, c)
		byObj[o] = c
	}
	ast.Inspect(fd.Body, func(n ast.Node) bool {
		switch x := n.(type) {
		case *ast.AssignStmt:
			if x.Tok == token.DEFINE && len(x.Lhs) == 1 && len(x.Rhs) == 1 {
				if id, ok := x.Lhs[0].(*ast.Ident); ok {
					addCand(id, x.Rhs[0], x)
					return true
				}
			}
			for _, l := range x.Lhs {
				if id, ok := ast.Unparen(l).(*ast.Ident); ok {
					if o := info.Uses[id]; o != nil {
						spoiled[o] = true
					}
					if o := info.Defs[id]; o != nil {
						spoiled[o] = true // part of a multi-value definition
					}
				}
			}
		case *ast.DeclStmt:
			if gd, ok := x.Decl.(*ast.GenDecl); ok && gd.Tok == token.VAR {
				for _, sp := range gd.Specs {
					vs := sp.(*ast.ValueSpec)
					for i, id := range vs.Names {
						if len(vs.Values) == len(vs.Names) {
							addCand(id, vs.Values[i], x)
						} else if o := info.Defs[id]; o != nil {
							spoiled[o] = true
						}
					}
				}
			}
		case *ast.IncDecStmt:
			if id, ok := ast.Unparen(x.X).(*ast.Ident); ok {
				spoiled[info.Uses[id]] = true
			}
		case *ast.RangeStmt:
			for _, kv := range []ast.Expr{x.Key, x.Value} {
				if id, ok := kv.(*ast.Ident); ok {
					if o := info.Uses[id]; o != nil {
						spoiled[o] = true
					}
				}
			}
		case *ast.UnaryExpr:
			if x.Op == token.AND {
				e := ast.Unparen(x.X)
				for {
					switch y := e.(type) {
					case *ast.SelectorExpr:
						e = ast.Unparen(y.X)
						continue
					case *ast.IndexExpr:
						e = ast.Unparen(y.X)
						continue
					}
					break
				}
				if id, ok := e.(*ast.Ident); ok {
					spoiled[info.Uses[id]] = true
				}
			}
		case *ast.Ident:
			if c := byObj[info.Uses[x]]; c != nil {
				c.uses = append(c.uses, x)
			}
		}
		return true
	})
	if len(cands) == 0 {
		return
	}
	// (A): nothing after the definition can change what the expression reads
	mentionsRoot := func(e ast.Expr, c *cand) bool {
		found := false
		ast.Inspect(e, func(n ast.Node) bool {
			if id, ok := n.(*ast.Ident); ok && c.roots[info.Uses[id]] {
				found = true
			}
			return !found
		})
		return found
	}
	stable := map[*cand]bool{}
	for _, c := range cands {
		stable[c] = c.pure && !spoiled[c.obj]
	}
	ast.Inspect(fd.Body, func(n ast.Node) bool {
		for _, c := range cands {
			if !stable[c] || n == nil || n.Pos() < c.stmt.End() {
				continue
			}
			// only what lies between the definition and the last use matters (a re-executed definition re-reads)
			last := token.NoPos
			for _, u := range c.uses {
				if u.End() > last {
					last = u.End()
				}
			}
			if n.Pos() > last {
				continue
			}
			switch x := n.(type) {
			case *ast.AssignStmt:
				for _, l := range x.Lhs {
					if c.paths[plain.expr(l)] {
						stable[c] = false
					}
				}
			case *ast.IncDecStmt:
				if c.paths[plain.expr(x.X)] {
					stable[c] = false
				}
			case *ast.RangeStmt:
				for _, kv := range []ast.Expr{x.Key, x.Value} {
					if kv != nil && c.paths[plain.expr(kv)] {
						stable[c] = false
					}
				}
			case *ast.CallExpr:
				if tv, ok := info.Types[x.Fun]; ok && tv.IsType() {
					continue
				}
				if id, ok := x.Fun.(*ast.Ident); ok {
					if b, isB := info.Uses[id].(*types.Builtin); isB && b.Name() != "copy" && b.Name() != "clear" && b.Name() != "delete" {
						continue
					}
				}
				if isPureCalleeCall(info, x) {
					continue // a reviewed getter changes nothing
				}
				if sel, ok := x.Fun.(*ast.SelectorExpr); ok {
					if _, isMethod := info.Selections[sel]; isMethod && mentionsRoot(sel.X, c) {
						stable[c] = false
					}
				}
				for _, a := range x.Args {
					if mentionsRoot(a, c) {
						stable[c] = false
					}
				}
			}
		}
		return true
	})
	accepted := map[*cand]bool{}
	for _, c := range cands {
		if stable[c] && len(c.uses) > 0 {
			accepted[c] = true
		}
	}
	// (B): single use in the head of a later statement of the same block, only accepted definitions in between
	headUses := func(st ast.Stmt, id *ast.Ident) bool {
		in := func(n ast.Node) bool {
			if n == nil {
				return false
			}
			found, inLit := false, 0
			ast.Inspect(n, func(m ast.Node) bool {
				if _, ok := m.(*ast.FuncLit); ok {
					inLit++
					return false
				}
				if m == ast.Node(id) {
					found = true
				}
				return !found
			})
			return found
		}
		switch s := st.(type) {
		case *ast.IfStmt:
			return s.Init != nil && in(s.Init) || in(s.Cond)
		case *ast.SwitchStmt:
			return s.Init != nil && in(s.Init) || s.Tag != nil && in(s.Tag)
		case *ast.ForStmt, *ast.RangeStmt, *ast.TypeSwitchStmt, *ast.SelectStmt, *ast.BlockStmt, *ast.LabeledStmt:
			return false
		}
		return in(st)
	}
	var blocks [][]ast.Stmt
	ast.Inspect(fd.Body, func(n ast.Node) bool {
		switch x := n.(type) {
		case *ast.BlockStmt:
			blocks = append(blocks, x.List)
		case *ast.CaseClause:
			blocks = append(blocks, x.Body)
		}
		return true
	})
	defCand := map[ast.Stmt][]*cand{}
	for _, c := range cands {
		defCand[c.stmt] = append(defCand[c.stmt], c)
	}
	for changed := true; changed; {
		changed = false
		for _, list := range blocks {
			for i, st := range list {
				for _, c := range defCand[st] {
					if accepted[c] || spoiled[c.obj] || len(c.uses) != 1 {
						continue
					}
					for j := i + 1; j < len(list); j++ {
						if headUses(list[j], c.uses[0]) {
							accepted[c] = true
							changed = true
							break
						}
						// only accepted definitions (or candidates of the same shape still pending) may stand in between
						ok := len(defCand[list[j]]) > 0
						for _, d := range defCand[list[j]] {
							if spoiled[d.obj] || (!accepted[d] && len(d.uses) != 1) {
								ok = false
							}
						}
						if !ok {
							break
						}
					}
				}
			}
		}
	}
	// a definition that was only tentatively allowed in between must itself be accepted
	for _, list := range blocks {
		for i, st := range list {
			for _, c := range defCand[st] {
				if !accepted[c] || stable[c] {
					continue
				}
				for j := i + 1; j < len(list); j++ {
					if headUses(list[j], c.uses[0]) {
						break
					}
					for _, d := range defCand[list[j]] {
						if !accepted[d] {
							accepted[c] = false
						}
					}
				}
			}
		}
	}
	// (B) moves the evaluation of the defining expression in front of the consuming statement. That is the same
	// moment only if nothing with an effect is evaluated, inside the consuming statement, before the place where the
	// local is used: every call that ends before the use must be a reviewed pure callee, a builtin or a conversion
	// (or the defining expression itself has no call at all); and two such locals feeding one statement must be
	// used in the order they were defined.
	hasCall := func(e ast.Expr) bool {
		found := false
		ast.Inspect(e, func(n ast.Node) bool {
			if call, ok := n.(*ast.CallExpr); ok {
				if tv, isT := info.Types[call.Fun]; isT && tv.IsType() {
					return true
				}
				if id, isId := call.Fun.(*ast.Ident); isId {
					if _, isB := info.Uses[id].(*types.Builtin); isB {
						return true
					}
				}
				if !isPureCalleeCall(info, call) {
					found = true
				}
			}
			return !found
		})
		return found
	}
	for _, list := range blocks {
		for i, st := range list {
			for _, c := range defCand[st] {
				if !accepted[c] || stable[c] || !hasCall(c.x) {
					continue
				}
				use := c.uses[0]
				for j := i + 1; j < len(list); j++ {
					if !headUses(list[j], use) {
						continue
					}
					ast.Inspect(list[j], func(n ast.Node) bool {
						switch x := n.(type) {
						case *ast.FuncLit:
							return false
						case *ast.CallExpr:
							if x.End() <= use.Pos() && hasCall(x) {
								accepted[c] = false // an effectful call of the consuming statement is evaluated before the use
							}
						case *ast.Ident:
							// another call-carrying temporary used earlier in the statement but defined later (or vice versa)
							if d := byObj[info.Uses[x]]; d != nil && d != c && accepted[d] && !stable[d] && hasCall(d.x) {
								if (x.Pos() < use.Pos()) != (d.stmt.Pos() < c.stmt.Pos()) {
									accepted[c] = false
								}
							}
						}
						return true
					})
					break
				}
			}
		}
	}
	for _, c := range cands {
		if accepted[c] {
			valTempExpr[c.obj] = c.x
		}
	}
	for st, cs := range defCand {
		all := true
		for _, c := range cs {
			if !accepted[c] {
				all = false
			}
		}
		if all {
			valTempDef[st] = true
		}
	}
}

// isPureCalleeCall: the call's static callee is in the reviewed table of side-effect-free callees.
func isPureCalleeCall(info *types.Info, call *ast.CallExpr) bool {
	f, ok := typeutil.Callee(info, call).(*types.Func)
	return ok && pureCallees[normPath(f.FullName())] != ""
}
