package main

import (
	"go/token"
	"fmt"
	"go/ast"
	"go/types"
	"sort"
	"strings"

	"golang.org/x/tools/go/ssa"
)

func init() {
	register("C13", true, true, checkC13)
}

func checkC13(w *World, tier string) *Report {
	r := newReport("C13")
	r.Explanation = "R13.1 wrapper summary of Tracer.TransferWithRecord (its body is a straight statement list, checked as such): exactly one call of the transfer parameter with (db, from, to, amount) in order; before it saveBalance(from, …) then saveBalance(to, …), after it the same two in the same order; each recorded balance is db.GetBalance of the same account evaluated in that statement; all four use one call-index variable read from CurrentCallIndex before the transfer and never re-assigned; " +
		"R13.2 who-may-call over all fork packages: a TransferFunc value is invoked only inside TransferWithRecord; TransferWithRecord is called exactly from Call and create (after the snapshot, R4.2) with evm.Context.Transfer; saveBalance is called only from TransferWithRecord; the balance root's change list is written only through saveBalance/JournalChanges. R13.3 (SSA, all paths) every observation is recorded: saveBalance reaches StorageKey.JournalChanges on every path, with its own call-index parameter and the bytes of its own balance parameter, and JournalChanges always reaches StorageChanges.append, whose only suppression is the per-call repeat test (C10 R10.5) — no cache outside the per-call list can drop a frame's before/after entry. R11.5 / R16.4 (shared) the root record of an account is never replaced and the recorder and its call tree are never re-created, so recorded entries are neither dropped nor mixed with a later transaction's. Equality with the true balances then holds by construction given a truthful StateDB.GetBalance."
	addR131(w, r, "R13.1")
	addR133(w, r, "R13.3")
	// no recorded observation is lost or re-filed: the account's root record (which holds the balance list) is
	// never replaced (write-once node tables, shared with C11), and the recorder with its call tree is the one
	// the EVM was constructed with (shared with C16) — a fresh call tree would restart the call indices the
	// balance lists are keyed by
	addWriteOnceRule(w, r, "R11.5")
	addFreshTracerRule(w, r, "R16.4")
	addMonotoneIndexRule(w, r, "R10.8")
	// the frame whose transfer is journaled is open when the transfer is made (shared with C07 R7.1): the call index
	// the balances are filed under is this frame's, not its parent's
	addR71(w, r, "R7.1")
	r.Explanation += " R7.1 (shared with C07) the frame's call-tree node is opened before any early return — in particular before the value transfer — so the call index the balances are filed under is this frame's."
	// seventh batch: R13.2 says who calls TransferWithRecord, not when. "Every value transfer" means: wherever the
	// reference transfers, under the reference's conditions — that is the position-checked replacement of
	// evm.Context.Transfer inside the embedding of Call and create (C01 R1.1/R1.3). A guard around the create
	// transfer (`if value.Sign() != 0`) leaves zero-value creations without their bracket
	w.e1().cloneRule(r, "R13.4", pkVM, func(name string, pr *PairResult) bool { return name == "(*EVM).Call" || name == "(*EVM).create" })
	r.need("R13.4", 2)
	r.Explanation += " R13.4 (shared with C01) Call and create embed the reference's bodies with the transfer statement replaced in place by TransferWithRecord: the journaled transfer happens exactly where and when the reference transfers."
	// seventh batch: a bracket once journaled stays journaled — whatever happens to the frame afterwards (the transfer
	// was made and the host's transfer function saw it even if the frame later reverts). The change lists are
	// written only by StorageChanges.append / StorageKey.JournalChanges (C10 R10.3: a delete counts as a write), and
	// ExitCall is a straight-line forwarder that does nothing but close the node (C08 R8.3)
	addR103(w, r, "R10.3")
	addR83(w, r, "R8.3")
	r.Explanation += " R10.3 (shared with C10) the change lists are written — delete included — only by StorageChanges.append and StorageKey.JournalChanges; R8.3 (shared with C08) ExitCall only closes the node: journaled balances are not discarded when a frame fails."
	// R13.2
	p := w.Pkgs[forkPath(pkVM)]
	var bad []string
	n := 0
	pos := "-"
	for _, cs := range w.callSitesOf(func(f *types.Func) bool { return false }) {
		_ = cs
	}
	// dynamic calls through TransferFunc-typed values
	for path, pk := range w.Pkgs {
		if !strings.HasPrefix(path, forkMod) {
			continue
		}
		for _, f := range pk.Syntax {
			for _, d := range f.Decls {
				fd, ok := d.(*ast.FuncDecl)
				if !ok || fd.Body == nil {
					continue
				}
				ast.Inspect(fd.Body, func(nd ast.Node) bool {
					call, ok := nd.(*ast.CallExpr)
					if !ok {
						return true
					}
					t := pk.TypesInfo.TypeOf(call.Fun)
					if nt, ok := t.(*types.Named); ok && nt.Obj().Name() == "TransferFunc" && nt.Obj().Pkg() == p.Types {
						n++
						where := pkgShortOf(path) + "." + declRelName(fd)
						pos = w.pos(call.Pos())
						if where != "vm.(*Tracer).TransferWithRecord" {
							bad = append(bad, where+" at "+w.pos(call.Pos()))
						}
					}
					return true
				})
			}
		}
	}
	sort.Strings(bad)
	if len(bad) > 0 || n != 1 {
		r.violated("R13.2", "who-may-invoke:TransferFunc", pos, fmt.Sprintf("%d invocations of a TransferFunc value; outside the journal wrapper: %s", n, strings.Join(bad, "; ")))
	} else {
		r.holds("R13.2", "who-may-invoke:TransferFunc", pos, "the only invocation of a TransferFunc value in the fork is inside Tracer.TransferWithRecord")
	}
	whoMayCall(w, r, "R13.2", "Tracer.TransferWithRecord", funcIs("Tracer", "TransferWithRecord"), map[string]bool{"vm.(*EVM).Call": true, "vm.(*EVM).create": true}, false)
	whoMayCall(w, r, "R13.2", "StateChanges.saveBalance", funcIs("StateChanges", "saveBalance"), map[string]bool{"vm.(*Tracer).TransferWithRecord": true}, false)
	// arguments at the two call sites: (evm.StateDB, caller.Address(), <callee address>, value, evm.Context.Transfer)
	for _, cs := range w.callSitesOf(funcIs("Tracer", "TransferWithRecord")) {
		c := &astCanon{info: cs.pkg.TypesInfo}
		key := "args:" + cs.fn
		if len(cs.call.Args) != 5 {
			r.violated("R13.2", key, w.pos(cs.call.Pos()), "unexpected argument count")
			continue
		}
		// $r = receiver, $k = k-th parameter: Call(ctx, caller, addr, input, gas, value), create(ctx, caller, codeAndHash, gas, value, address, typ)
		shape := paramShape(cs.pkg.TypesInfo, cs.decl)
		got := []string{shape(cs.call.Args[0]), shape(cs.call.Args[1]), shape(cs.call.Args[3]), shape(cs.call.Args[4])}
		want := []string{"$r.StateDB", "$1.Address()", "$5", "$r.Context.Transfer"}
		if cs.fn == "vm.(*EVM).create" {
			want[2] = "$4"
		}
		ok := true
		for i := range want {
			if got[i] != want[i] {
				ok = false
			}
		}
		// the recipient is the frame's callee address: parameter addr (Call) / address (create)
		rcp := c.expr(cs.call.Args[2])
		if id, isId := cs.call.Args[2].(*ast.Ident); !isId || !isParamOf(cs.pkg.TypesInfo, cs.decl, id) {
			ok = false
		}
		if ok {
			r.holds("R13.2", key, w.pos(cs.call.Pos()), "called with the frame's state database, the caller's address, the frame's callee address `"+rcp+"`, the call value and the host transfer function")
		} else {
			r.violated("R13.2", key, w.pos(cs.call.Pos()), "arguments ("+strings.Join(got, ", ")+"; recipient "+rcp+") are not the frame's (evm.StateDB, caller.Address(), <callee address parameter>, value, evm.Context.Transfer)")
		}
	}
	r.need("R13.2", 5)
	r.Assumptions = append(r.Assumptions, "StateDB.GetBalance reports the true balance", "an immediately repeated equal value is collapsed by StorageChanges.append (C10)")
	return r
}

// isParamOf: id resolves to a parameter of fd.
func isParamOf(info *types.Info, fd *ast.FuncDecl, id *ast.Ident) bool {
	o := info.Uses[id]
	if o == nil {
		return false
	}
	for _, f := range fd.Type.Params.List {
		for _, n := range f.Names {
			if info.Defs[n] == o {
				return true
			}
		}
	}
	return false
}

func addR131(w *World, r *Report, rule string) {
	fd, p := w.FuncDecl(forkPath(pkVM), "(*Tracer).TransferWithRecord")
	if fd == nil || fd.Body == nil {
		r.undecided(rule, "vm.(*Tracer).TransferWithRecord", "-", "function not found")
		return
	}
	info := p.TypesInfo
	c := &astCanon{info: info}
	var params []string
	for _, f := range fd.Type.Params.List {
		for _, n := range f.Names {
			params = append(params, n.Name)
		}
	}
	key := "vm.(*Tracer).TransferWithRecord"
	if len(params) != 5 {
		r.undecided(rule, key, w.pos(fd.Pos()), "unexpected parameter list")
		return
	}
	db, from, to, amount, transfer := params[0], params[1], params[2], params[3], params[4]
	type ev struct {
		kind, acc, bal, idx string
		args                []string
	}
	var seq []ev
	var viol []string
	idxVar, idxDefs := "", 0
	// The wrapper's events in execution order. Calls to fork-only helpers of the package are expanded in
	// place with their parameters bound to the (call-free) arguments; a helper's loop over its variadic
	// parameter is expanded once per argument. Anything else is not a straight event list.
	var walk func(list []ast.Stmt, c *astCanon, lists map[types.Object][]string, depth int)
	walk = func(list []ast.Stmt, c *astCanon, lists map[types.Object][]string, depth int) {
		for _, st := range list {
			switch x := st.(type) {
			case *ast.AssignStmt:
				if len(x.Lhs) == 1 && len(x.Rhs) == 1 && depth == 0 {
					if call, ok := x.Rhs[0].(*ast.CallExpr); ok {
						if f, _ := calleeFunc(info, call); f != nil && f.Name() == "CurrentCallIndex" {
							idxVar = c.expr(x.Lhs[0])
							idxDefs++
							if len(seq) > 0 {
								viol = append(viol, "the call index is read after balances were already recorded")
							}
							continue
						}
					}
				}
				if valTempDef[x] {
					continue // names a sub-expression of the next statement(s); resolved where it is used
				}
				viol = append(viol, "unexpected assignment `"+c.stmt(x)+"`")
			case *ast.RangeStmt:
				id, ok := ast.Unparen(x.X).(*ast.Ident)
				vid, ok2 := x.Value.(*ast.Ident)
				if kid, isId := x.Key.(*ast.Ident); x.Key != nil && (!isId || kid.Name != "_") {
					ok = false
				}
				if !ok || !ok2 || lists[info.Uses[id]] == nil || info.Defs[vid] == nil {
					viol = append(viol, "the wrapper is no longer a straight statement list (loop)")
					continue
				}
				for _, el := range lists[info.Uses[id]] {
					c2 := &astCanon{info: info, subst: map[types.Object]string{}}
					for k, v := range c.subst {
						c2.subst[k] = v
					}
					c2.subst[info.Defs[vid]] = el
					walk(x.Body.List, c2, lists, depth)
				}
			case *ast.ExprStmt:
				call, ok := x.X.(*ast.CallExpr)
				if !ok {
					viol = append(viol, "unexpected statement")
					continue
				}
				if id, ok := call.Fun.(*ast.Ident); ok && c.expr(id) == transfer && info.Uses[id] != nil && !isPkgLevel(info.Uses[id]) {
					var as []string
					for _, a := range call.Args {
						as = append(as, c.expr(a))
					}
					seq = append(seq, ev{kind: "transfer", args: as})
					continue
				}
				f, _ := calleeFunc(info, call)
				if f != nil && f.Name() == "saveBalance" && len(call.Args) == 3 {
					e := ev{kind: "save", acc: c.expr(call.Args[0]), idx: c.expr(call.Args[2])}
					// balance: uint256.MustFromBig(db.GetBalance(acc))
					balArg := call.Args[1]
					if id, ok := ast.Unparen(balArg).(*ast.Ident); ok {
						if x, ok := valTempExpr[info.Uses[id]]; ok {
							balArg = x // a local holding the balance read just before this statement
						}
					}
					if mc, ok := ast.Unparen(balArg).(*ast.CallExpr); ok && len(mc.Args) == 1 {
						if gb, ok := mc.Args[0].(*ast.CallExpr); ok && len(gb.Args) == 1 {
							if f2, _ := calleeFunc(info, gb); f2 != nil && f2.Name() == "GetBalance" {
								if sel, ok := gb.Fun.(*ast.SelectorExpr); ok && c.expr(sel.X) == db {
									e.bal = c.expr(gb.Args[0])
								}
							}
						}
					}
					seq = append(seq, e)
					continue
				}
				// a helper of the package: expand
				if f != nil && f.Pkg() != nil && f.Pkg().Path() == forkPath(pkVM) && depth < 3 && call.Ellipsis == token.NoPos {
					if hd, _ := w.FuncDecl(forkPath(pkVM), relNameOfFunc(f)); hd != nil && hd.Body != nil {
						c2 := &astCanon{info: info, subst: map[types.Object]string{}}
						l2 := map[types.Object][]string{}
						simple := true
						plain := func(e ast.Expr) bool {
							pure := true
							ast.Inspect(e, func(n ast.Node) bool {
								if _, isCall := n.(*ast.CallExpr); isCall {
									pure = false
								}
								return pure
							})
							return pure
						}
						if hd.Recv != nil && len(hd.Recv.List) == 1 && len(hd.Recv.List[0].Names) == 1 {
							if sel, ok := call.Fun.(*ast.SelectorExpr); ok && plain(sel.X) {
								c2.subst[info.Defs[hd.Recv.List[0].Names[0]]] = c.expr(sel.X)
							} else {
								simple = false
							}
						}
						var pnames []*ast.Ident
						var variadic *ast.Ident
						for _, fld := range hd.Type.Params.List {
							for _, nm := range fld.Names {
								if _, isV := fld.Type.(*ast.Ellipsis); isV {
									variadic = nm
								} else {
									pnames = append(pnames, nm)
								}
							}
						}
						if len(call.Args) < len(pnames) || (variadic == nil && len(call.Args) != len(pnames)) {
							simple = false
						}
						for i, a := range call.Args {
							if !simple {
								break
							}
							if !plain(a) {
								simple = false
							} else if i < len(pnames) {
								c2.subst[info.Defs[pnames[i]]] = c.expr(a)
							} else {
								l2[info.Defs[variadic]] = append(l2[info.Defs[variadic]], c.expr(a))
							}
						}
						if simple {
							valTemps(info, hd)
							walk(hd.Body.List, c2, l2, depth+1)
							continue
						}
					}
				}
				viol = append(viol, "unexpected call `"+c.expr(call)+"`")
			default:
				viol = append(viol, fmt.Sprintf("the wrapper is no longer a straight statement list (%T)", st))
			}
		}
	}
	valTemps(info, fd)
	walk(fd.Body.List, c, map[types.Object][]string{}, 0)
	want := []ev{{kind: "save", acc: from, bal: from}, {kind: "save", acc: to, bal: to}, {kind: "transfer"}, {kind: "save", acc: from, bal: from}, {kind: "save", acc: to, bal: to}}
	if len(seq) != len(want) {
		viol = append(viol, fmt.Sprintf("expected save(from) save(to) transfer save(from) save(to), found %d events", len(seq)))
	} else {
		for i, e := range seq {
			wv := want[i]
			if e.kind != wv.kind {
				viol = append(viol, fmt.Sprintf("event %d is %s, expected %s", i+1, e.kind, wv.kind))
				continue
			}
			if e.kind == "save" {
				if e.acc != wv.acc {
					viol = append(viol, fmt.Sprintf("event %d records account `%s`, expected `%s`", i+1, e.acc, wv.acc))
				}
				if e.bal != e.acc {
					viol = append(viol, fmt.Sprintf("event %d records for `%s` the balance of `%s` (must be %s.GetBalance of the same account, read in place)", i+1, e.acc, e.bal, db))
				}
				if e.idx != idxVar || idxVar == "" {
					viol = append(viol, fmt.Sprintf("event %d is filed under `%s`, not under the call index read before the transfer", i+1, e.idx))
				}
			} else {
				wa := []string{db, from, to, amount}
				if strings.Join(e.args, ",") != strings.Join(wa, ",") {
					viol = append(viol, "the host transfer is called with ("+strings.Join(e.args, ", ")+"), expected ("+strings.Join(wa, ", ")+")")
				}
			}
		}
	}
	if idxDefs != 1 {
		viol = append(viol, fmt.Sprintf("the call index is read %d times, expected once before the transfer", idxDefs))
	}
	if len(viol) > 0 {
		r.violated(rule, key, w.pos(fd.Pos()), strings.Join(viol, " | "))
	} else {
		r.holds(rule, key, w.pos(fd.Pos()), "save(from) save(to) transfer(db, from, to, amount) save(from) save(to), balances read in place, one call index")
	}
	r.need(rule, 1)
}

func calleeFunc(info *types.Info, call *ast.CallExpr) (*types.Func, bool) {
	var id *ast.Ident
	switch f := ast.Unparen(call.Fun).(type) {
	case *ast.Ident:
		id = f
	case *ast.SelectorExpr:
		id = f.Sel
	}
	if id == nil {
		return nil, false
	}
	fo, ok := info.Uses[id].(*types.Func)
	return fo, ok
}


// addR133: saveBalance journals on every path, with its own arguments.
func addR133(w *World, r *Report, rule string) {
	vm := forkPath(pkVM)
	fn := w.Func(vm, "(*StateChanges).saveBalance")
	key := "vm.(*StateChanges).saveBalance"
	if fn == nil {
		r.undecided(rule, key, "-", "function not found")
		return
	}
	isJournal := func(c ssa.CallInstruction) bool {
		cal := c.Common().StaticCallee()
		return cal != nil && cal.Name() == "JournalChanges" && isForkPkg(cal.Pkg)
	}
	if leak := mustCallBeforeReturn(fn, isJournal, nil); leak != nil {
		r.violated(rule, key+"/always-journals", w.pos(leak.Pos()), "a path returns without journaling the observed balance: a frame's before/after entry can be suppressed by state outside that frame's list")
	} else {
		r.holds(rule, key+"/always-journals", w.pos(fn.Pos()), "every path passes StorageKey.JournalChanges")
	}
	idx := uniqueUint64Param(fn)
	var bal *ssa.Parameter
	for _, p := range fn.Params[1:] {
		if isBignumPtr(p.Type()) {
			bal = p
		}
	}
	bad := ""
	n := 0
	for _, b := range fn.Blocks {
		for _, ins := range b.Instrs {
			c, ok := ins.(*ssa.Call)
			if !ok || !isJournal(c) {
				continue
			}
			n++
			if len(c.Call.Args) != 3 || c.Call.Args[1] != ssa.Value(idx) {
				bad = "the call index handed to JournalChanges is not saveBalance's own call-index parameter"
			}
			bc, ok := c.Call.Args[2].(*ssa.Call)
			if !ok || bc.Call.StaticCallee() == nil || len(bc.Call.Args) != 1 || bc.Call.Args[0] != ssa.Value(bal) || !strings.HasPrefix(bc.Call.StaticCallee().Name(), "Bytes") {
				bad = "the value journaled is not the byte form of saveBalance's own balance parameter"
			}
		}
	}
	if n != 1 && bad == "" {
		bad = fmt.Sprintf("expected exactly one JournalChanges call, found %d", n)
	}
	if bad != "" {
		r.violated(rule, key+"/arguments", w.pos(fn.Pos()), bad)
	} else {
		r.holds(rule, key+"/arguments", w.pos(fn.Pos()), "JournalChanges(callIdx parameter, bytes of the balance parameter)")
	}
	jf := w.Func(vm, "(*StorageKey).JournalChanges")
	if jf == nil {
		r.undecided(rule, "vm.(*StorageKey).JournalChanges", "-", "function not found")
	} else if leak := mustCallBeforeReturn(jf, func(c ssa.CallInstruction) bool {
		cal := c.Common().StaticCallee()
		return cal != nil && cal.Name() == "append" && isForkPkg(cal.Pkg)
	}, nil); leak != nil {
		r.violated(rule, "vm.(*StorageKey).JournalChanges/always-appends", w.pos(leak.Pos()), "a path returns without handing the value to the per-call list")
	} else {
		r.holds(rule, "vm.(*StorageKey).JournalChanges/always-appends", w.pos(jf.Pos()), "every path passes StorageChanges.append")
	}
	addR105(w, r, "R10.5")
	r.need(rule, 3)
}
