package main

// E3 (part 1): linear expressions over symbols with rational coefficients and a
// Fourier–Motzkin infeasibility test. This is the entailment test of a polyhedral abstract
// domain evaluated at one program point (guard facts ⊢ obligation); no program path is handed
// to a solver.

import (
	"fmt"
	"math/big"
	"sort"
	"strings"
)

type lin struct {
	c map[string]*big.Rat
	k *big.Rat
}

func newLin() lin { return lin{map[string]*big.Rat{}, new(big.Rat)} }
func konst(v *big.Int) lin {
	l := newLin()
	l.k.SetInt(v)
	return l
}
func konst64(v int64) lin { return konst(big.NewInt(v)) }
func sym(s string) lin   { l := newLin(); l.c[s] = big.NewRat(1, 1); return l }
func (a lin) add(b lin, sign int64) lin {
	r := newLin()
	r.k.Set(a.k)
	for s, v := range a.c {
		r.c[s] = new(big.Rat).Set(v)
	}
	sg := big.NewRat(sign, 1)
	r.k.Add(r.k, new(big.Rat).Mul(b.k, sg))
	for s, v := range b.c {
		if r.c[s] == nil {
			r.c[s] = new(big.Rat)
		}
		r.c[s].Add(r.c[s], new(big.Rat).Mul(v, sg))
		if r.c[s].Sign() == 0 {
			delete(r.c, s)
		}
	}
	return r
}
func (a lin) plus(b lin) lin  { return a.add(b, 1) }
func (a lin) minus(b lin) lin { return a.add(b, -1) }
func (a lin) scale(f *big.Rat) lin {
	r := newLin()
	r.k.Mul(a.k, f)
	for s, v := range a.c {
		x := new(big.Rat).Mul(v, f)
		if x.Sign() != 0 {
			r.c[s] = x
		}
	}
	return r
}
func (a lin) isConst() bool { return len(a.c) == 0 }
func (a lin) String() string {
	var ks []string
	for s := range a.c {
		ks = append(ks, s)
	}
	sort.Strings(ks)
	var sb strings.Builder
	for _, s := range ks {
		co := a.c[s]
		switch {
		case co.Cmp(big.NewRat(1, 1)) == 0:
			fmt.Fprintf(&sb, "%s + ", s)
		case co.Cmp(big.NewRat(-1, 1)) == 0:
			fmt.Fprintf(&sb, "-%s + ", s)
		default:
			fmt.Fprintf(&sb, "%s*%s + ", co.RatString(), s)
		}
	}
	sb.WriteString(a.k.RatString())
	return sb.String()
}

// cons: lin <= 0
type cons = lin

// le: a <= b as a constraint
func le(a, b lin) cons { return a.minus(b) }

// lt: a < b over integers: a - b + 1 <= 0
func lt(a, b lin) cons { return a.minus(b).plus(konst64(1)) }

const fmLimit = 4000

// entails: do the constraints imply goal <= 0 (over the integers)? undecided=true when the
// elimination was cut off.
func entails(cs []cons, goal lin) (ok bool, undecided bool) {
	neg := goal.scale(big.NewRat(-1, 1))
	neg.k.Add(neg.k, big.NewRat(1, 1)) // goal >= 1
	// only constraints sharing symbols (transitively) with the goal matter
	all := relevant(cs, neg)
	all = append(all, neg)
	return infeasible(all)
}

func relevant(cs []cons, goal lin) []cons {
	syms := map[string]bool{}
	for s := range goal.c {
		syms[s] = true
	}
	used := make([]bool, len(cs))
	var out []cons
	for changed := true; changed; {
		changed = false
		for i, c := range cs {
			if used[i] {
				continue
			}
			hit := len(c.c) == 0
			for s := range c.c {
				if syms[s] {
					hit = true
					break
				}
			}
			if hit {
				used[i] = true
				out = append(out, c)
				for s := range c.c {
					if !syms[s] {
						syms[s] = true
						changed = true
					}
				}
			}
		}
	}
	return out
}

func infeasible(cs []cons) (bool, bool) {
	for iter := 0; iter < 64; iter++ {
		// contradiction among constant constraints?
		var rest0 []cons
		for _, c := range cs {
			if len(c.c) == 0 {
				if c.k.Sign() > 0 {
					return true, false
				}
				continue
			}
			rest0 = append(rest0, c)
		}
		cs = rest0
		if len(cs) == 0 {
			return false, false
		}
		// pick the variable with the fewest pos*neg products
		cnt := map[string][2]int{}
		for _, c := range cs {
			for s, v := range c.c {
				x := cnt[s]
				if v.Sign() > 0 {
					x[0]++
				} else {
					x[1]++
				}
				cnt[s] = x
			}
		}
		var names []string
		for s := range cnt {
			names = append(names, s)
		}
		sort.Strings(names)
		best, bestCost := "", -1
		for _, s := range names {
			cost := cnt[s][0] * cnt[s][1]
			if bestCost < 0 || cost < bestCost {
				best, bestCost = s, cost
			}
		}
		v := best
		var pos, negs, rest []cons
		for _, c := range cs {
			co := c.c[v]
			switch {
			case co == nil:
				rest = append(rest, c)
			case co.Sign() > 0:
				pos = append(pos, c)
			default:
				negs = append(negs, c)
			}
		}
		for _, p := range pos {
			for _, n := range negs {
				a := p.c[v]
				b := new(big.Rat).Neg(n.c[v])
				comb := p.scale(b).add(n.scale(a), 1)
				delete(comb.c, v)
				rest = append(rest, comb)
			}
		}
		if len(rest) > fmLimit {
			return false, true
		}
		cs = rest
	}
	return false, true
}
