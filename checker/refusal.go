package main

// E3 (part 4): justified refusals — the dual of the bounds obligations. The bounds rules show that
// the guards are strong enough (whatever passes them is accessed in range). This rule shows that they
// are not too strong: on every edge that leads into an error return of a decoding / validating
// function, the facts on that edge entail that at least one access of the function WOULD be out of
// range (the negation of "reads within the length of its buffer"), or the edge is the overflow edge
// of a 256-bit -> 64-bit reading, or it entails the negation of a stated domain constraint of the
// instruction (e.g. a byte offset inside a 32-byte word is at most 31). A guard written with `>=`
// where `>` is meant refuses operands that end exactly at the end of the buffer: the function then
// rejects well-formed input (C12: the instruction is no longer invisible; C14: a well-formed payload
// is no longer decoded; C09: a valid field is no longer recorded).

import (
	"fmt"
	"go/token"
	"go/types"
	"strings"

	"golang.org/x/tools/go/ssa"
)

type negGoal struct {
	what string
	goal lin // goal <= 0 means: the access would be out of range / the operand is outside its domain
}

// accessNegations: for every slice expression and every Memory.GetCopy/GetPtr call of fn, the
// conditions under which it would read outside the length of its operand.
func (a *ranger) accessNegations() []negGoal {
	var out []negGoal
	for _, b := range a.fn.Blocks {
		for _, ins := range b.Instrs {
			switch x := ins.(type) {
			case *ssa.Slice:
				var ln lin
				switch {
				case isPtrToArray(x.X.Type()):
					ln = konst64(x.X.Type().Underlying().(*types.Pointer).Elem().Underlying().(*types.Array).Len())
				default:
					ln = a.lenOf(x.X, b)
				}
				lo := konst64(0)
				if x.Low != nil {
					lo = a.lin(x.Low, b)
				}
				hi := ln
				if x.High != nil {
					hi = a.lin(x.High, b)
				}
				pos := a.w.pos(x.Pos())
				// hi >= len+1  <=>  len + 1 - hi <= 0
				out = append(out, negGoal{"slice at " + pos + " would end beyond its operand (" + hi.String() + " > " + ln.String() + ")", ln.plus(konst64(1)).minus(hi)})
				// lo >= hi+1
				out = append(out, negGoal{"slice at " + pos + " would start after its end", hi.plus(konst64(1)).minus(lo)})
				// lo <= -1
				out = append(out, negGoal{"slice at " + pos + " would start before 0", lo.plus(konst64(1))})
			case *ssa.Call:
				if f := x.Call.StaticCallee(); f != nil && memPre[normPath(f.String())] && len(x.Call.Args) == 3 {
					off, size := a.lin(x.Call.Args[1], b), a.lin(x.Call.Args[2], b)
					ml := a.memLenSym(x.Call.Args[0])
					pos := a.w.pos(x.Pos())
					out = append(out, negGoal{"memory read at " + pos + " would end beyond the memory (" + off.plus(size).String() + " > " + ml.String() + ")", ml.plus(konst64(1)).minus(off.plus(size))})
				}
			}
		}
	}
	return out
}

// isErrorReturn: the block returns a freshly made, non-nil error.
func isErrorReturn(b *ssa.BasicBlock) (*ssa.Return, bool) {
	ret, ok := b.Instrs[len(b.Instrs)-1].(*ssa.Return)
	if !ok || len(ret.Results) == 0 {
		return nil, false
	}
	last := ret.Results[len(ret.Results)-1]
	if !types.Identical(last.Type(), types.Universe.Lookup("error").Type()) {
		return nil, false
	}
	if c, ok := last.(*ssa.Call); ok {
		if f := c.Call.StaticCallee(); f != nil && (f.Name() == "New" || f.Name() == "Errorf") {
			return ret, true
		}
	}
	return nil, false
}

// overflowEdge: the edge is taken exactly when a 256-bit operand does not fit 64 bits.
func overflowEdge(cond ssa.Value, pol bool) bool {
	switch c := cond.(type) {
	case *ssa.Extract:
		if call, ok := c.Tuple.(*ssa.Call); ok && pol {
			f := call.Call.StaticCallee()
			if f != nil && f.Name() == "Uint64WithOverflow" && c.Index == 1 {
				return true
			}
			// a fork helper that hands the overflow flag through as one of its results
			if f != nil && isForkPkg(f.Pkg) && f.Blocks != nil {
				all, n := true, 0
				for _, b := range f.Blocks {
					ret, isRet := b.Instrs[len(b.Instrs)-1].(*ssa.Return)
					if !isRet || c.Index >= len(ret.Results) {
						continue
					}
					n++
					ex, isEx := ret.Results[c.Index].(*ssa.Extract)
					if !isEx || ex.Index != 1 {
						all = false
						continue
					}
					c2, isCall := ex.Tuple.(*ssa.Call)
					if !isCall || c2.Call.StaticCallee() == nil || c2.Call.StaticCallee().Name() != "Uint64WithOverflow" {
						all = false
					}
				}
				if all && n > 0 {
					return true
				}
			}
		}
	case *ssa.UnOp:
		if c.Op == token.NOT {
			return overflowEdgeNeg(c.X, pol)
		}
	case *ssa.Call:
		if f := c.Call.StaticCallee(); f != nil && f.Name() == "IsUint64" && !pol {
			return true
		}
	}
	return false
}

func overflowEdgeNeg(cond ssa.Value, pol bool) bool {
	if c, ok := cond.(*ssa.Call); ok {
		if f := c.Call.StaticCallee(); f != nil && f.Name() == "IsUint64" && pol {
			return true
		}
	}
	return false
}

// addJustifiedRefusalRule checks every error return of the named functions.
func addJustifiedRefusalRule(w *World, r *Report, rule string, names []string, domain func(a *ranger) []negGoal) {
	env := w.rangeEnv()
	n := 0
	for _, name := range names {
		fn := w.Func(forkPath(pkVM), name)
		if fn == nil {
			r.undecided(rule, "vm."+name, "-", "function not found: the rule's anchor does not resolve")
			continue
		}
		a := env.analyse(fn)
		goals := a.accessNegations()
		if domain != nil {
			goals = append(goals, domain(a)...)
		}
		ord := 0
		for _, b := range fn.Blocks {
			ret, ok := isErrorReturn(b)
			if !ok {
				continue
			}
			ord++
			// decision edges into this block
			type edge struct {
				from *ssa.BasicBlock
				pol  bool
			}
			var edges []edge
			var collect func(blk *ssa.BasicBlock, depth int)
			collect = func(blk *ssa.BasicBlock, depth int) {
				for _, p := range blk.Preds {
					if iff, ok := p.Instrs[len(p.Instrs)-1].(*ssa.If); ok && p.Succs[0] != p.Succs[1] {
						_ = iff
						edges = append(edges, edge{p, p.Succs[0] == blk})
					} else if depth > 0 {
						collect(p, depth-1)
					}
				}
			}
			collect(b, 3)
			for ei, e := range edges {
				n++
				key := fmt.Sprintf("vm.%s/refusal#%d/edge#%d", name, ord, ei+1)
				iff := e.from.Instrs[len(e.from.Instrs)-1].(*ssa.If)
				if overflowEdge(iff.Cond, e.pol) {
					r.holds(rule, key, w.pos(ret.Pos()), "refused because a 256-bit operand does not fit 64 bits (cannot denote a position inside any buffer)")
					continue
				}
				cs := append(append([]cons{}, a.intr...), a.facts[e.from]...)
				cs = append(cs, a.condFacts(iff.Cond, e.pol, e.from)...)
				cs = append(cs, a.intr...) // linearisation inside condFacts may have added intrinsic facts
				just := ""
				for _, g := range goals {
					if ok, _ := entails(cs, g.goal); ok {
						just = g.what
						break
					}
				}
				if just != "" {
					r.holds(rule, key, w.pos(ret.Pos()), "justified: on this edge "+just)
				} else {
					r.violated(rule, key, w.pos(ret.Pos()), "the operand is refused on an edge whose condition ("+strings.TrimSpace(iff.Cond.String())+fmt.Sprintf(" = %v", e.pol)+") does not entail that any access of the function would be out of range: operands that fit exactly (e.g. data ending at the very end of the buffer) are rejected although they are well-formed")
				}
			}
		}
	}
	_ = n
}
