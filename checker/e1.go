package main

// E1 (part 4): the rule instances built from clone classification + embedding + insertion classes.

import (
	"fmt"
	"go/ast"
	"go/token"
	"go/types"
	"sort"
	"strings"

	"golang.org/x/tools/go/packages"
	"golang.org/x/tools/go/ssa"
	"golang.org/x/tools/go/types/typeutil"
)

// expectedDelta: the reviewed DELTA functions (section 4 of DESIGN.md). A function that is DELTA
// and not listed is still analysed by the embedding; it passes only when its whole delta consists
// of generically admissible insertions.
var expectedDelta = map[int]map[string]string{
	pkVM: {
		"(*EVM).Call":                 "call-tree recorder, balance journal wrapper, join points, context clone",
		"(*EVM).create":               "call-tree recorder, balance journal wrapper",
		"NewEVM":                      "extra literal keys tracer, IsExecuteJP",
		"NewEVMInterpreter":           "Cancun case, extra literal key tracer",
		"newFrontierInstructionSet":   "8 extra literal keys 0xe0-0xe7",
		"enable1153":                  "same statements, constants TLOAD/TSTORE renumbered",
		"(*bls12381G2MultiExp).Run":   "EXEMPT: error-checked MultiExp; type is in no active precompile table",
	},
	pkNative: {
		"(*callTracer).CaptureStart":       "struct assignment replaced by field-wise assignment",
		"(*callTracer).CaptureExit":        "FORK_GUARD on joinPoint marker",
		"clearFailedLogs":                  "FORK_LOOP over JoinPoints",
		"flatFromNested":                   "FORK_LOOPs over JoinPoints, fork-zero addends",
		"(callFrame).MarshalJSON":          "generated codec, extra field JoinPoints",
		"(*callFrame).UnmarshalJSON":       "generated codec, extra field JoinPoints",
		"(flatCallAction).MarshalJSON":     "generated codec, extra fields Aspect, ExecContext",
		"(*flatCallAction).UnmarshalJSON":  "generated codec, extra fields Aspect, ExecContext",
	},
	pkCore: {
		"NewEVMTxContext": "extra literal key Message",
	},
}

type e1State struct {
	w    *World
	fo   *ForkOnly
	cls  map[int]*Classification
	dlt  map[string]*FuncDelta // pair:name
}

func (w *World) e1() *e1State {
	if w.e1cache != nil {
		return w.e1cache
	}
	s := &e1State{w: w, fo: w.forkOnly(), cls: map[int]*Classification{}, dlt: map[string]*FuncDelta{}}
	for i := range pkgPairs {
		s.cls[i] = w.classify(i)
	}
	w.e1cache = s
	return s
}

// cloneRule adds the clone / embedding obligations for the functions of one pair selected by filter.
// rule is the rule id to report under (R1.1, R2.1, R18.1 ...).
func (s *e1State) cloneRule(r *Report, rule string, pair int, filter func(name string, fn *PairResult) bool) {
	cl := s.cls[pair]
	var names []string
	for n := range cl.Results {
		names = append(names, n)
	}
	sort.Strings(names)
	short := pkgShort(pair)
	for _, n := range names {
		pr := cl.Results[n]
		if pr.Class == ClsNew || (filter != nil && !filter(n, pr)) {
			continue
		}
		key := short + "." + n
		switch pr.Class {
		case ClsClone:
			r.add(rule, key, Holds, s.w.pos(pr.Fork.Pos()), "SSA-isomorphic to "+refPath(pair)+"."+n, true)
			r.Analysed["functions_compared_with_reference"]++
		case ClsDelta:
			r.Analysed["functions_compared_with_reference"]++
			s.deltaRule(r, rule, pair, n, pr)
		}
	}
}

func pkgShort(pair int) string {
	return strings.TrimPrefix(forkPath(pair), forkMod+"/")
}

func (s *e1State) delta(pair int, name string) (*FuncDelta, error) {
	k := fmt.Sprintf("%d:%s", pair, name)
	if d, ok := s.dlt[k]; ok {
		return d, nil
	}
	d, err := s.w.embedFunc(pair, name, s.fo)
	if err != nil {
		return nil, err
	}
	s.dlt[k] = d
	return d, nil
}

// deltaRule: a function that is not SSA-identical must embed the reference body with admissible insertions.
func (s *e1State) deltaRule(r *Report, rule string, pair int, name string, pr *PairResult) {
	w := s.w
	key := pkgShort(pair) + "." + name
	reason, listed := expectedDelta[pair][name]
	fp, rp := w.Pkgs[forkPath(pair)], w.Pkgs[refPath(pair)]
	if strings.HasPrefix(reason, "EXEMPT") {
		// exempt functions are still required not to lose reference statements other than the reviewed replacement
		d, err := s.delta(pair, name)
		if err != nil {
			r.undecided(rule, key, w.pos(pr.Fork.Pos()), err.Error())
			return
		}
		if ok, why := exemptShapeOK(w, fp, rp, name, d); !ok {
			r.violated(rule, key, pr.DifPos, "exempt function changed beyond its reviewed delta: "+why)
			return
		}
		r.holds(rule, key, w.pos(pr.Fork.Pos()), reason)
		return
	}
	d, err := s.delta(pair, name)
	if err != nil {
		r.undecided(rule, key, pr.DifPos, "differs from the reference ("+pr.FirstDif+") and cannot be embedded: "+err.Error())
		return
	}
	bad := 0
	fail := func(sub, pos, msg string) {
		bad++
		r.violated(rule, key+"/"+sub, pos, msg)
	}
	if d.SigDiff != "" {
		fail("signature", w.pos(pr.Fork.Pos()), d.SigDiff)
	}
	for _, a := range d.AlphaErr {
		fail("locals", pr.DifPos, "matched statements use locals inconsistently: "+a)
	}
	a := &insAnalyzer{w: w, info: fp.TypesInfo, fo: s.fo, fkLocals: d.FkLocals, recvOnly: recvOnlyNames(w, pair, name, s.fo)}
	if fd, _ := w.FuncDecl(forkPath(pair), name); fd != nil {
		a.computeZeroLocals(fd)
		a.deadResults = deadNamedResults(fp.TypesInfo, fd, d)
	}
	// reference statements without a match: only reviewed replacements are admissible
	usedIns := map[*Insertion]bool{}
	for k, rs := range d.RefOnly {
		ok, why := s.replacementOK(pair, name, rp.TypesInfo, fp.TypesInfo, rs, d, usedIns)
		txt := stmtText(w, rp.TypesInfo, rs)
		if ok {
			r.holds(rule, key+"/replaced:"+clip(txt, 60), w.pos(pr.Fork.Pos()), why)
		} else {
			fail("ref-stmt-lost:"+clip(txt, 80), pr.DifPos, "reference statement `"+txt+"` has no equal statement in the fork ("+d.RefOnlyAt[k]+"): "+why)
		}
	}
	// insertions
	ord := map[string]int{}
	for _, in := range d.Ins {
		if usedIns[in] {
			continue
		}
		if in.Case == nil && in.AbsorbRef < 0 && valTempDef[in.Stmt] {
			ord["TEMP_DEF"]++
			r.holds(rule, key+fmt.Sprintf("/ins:TEMP_DEF#%d", ord["TEMP_DEF"]), w.pos(in.Stmt.Pos()), "`"+stmtText(w, fp.TypesInfo, in.Stmt)+"`: names a sub-expression of a later statement; its effects are counted where the local is used")
			continue
		}
		v := s.classifyWithNesting(r, pair, name, a, in, d, 0)
		ord[v.Class]++
		sub := fmt.Sprintf("ins:%s#%d", v.Class, ord[v.Class])
		if v.OK {
			r.holds(rule, key+"/"+sub, w.pos(v.Pos), "`"+v.Text+"`: "+v.Why)
		} else {
			fail(sub, w.pos(v.Pos), "inserted `"+v.Text+"`: "+v.Why)
		}
	}
	// stripped terms inside matched statements
	for _, st := range d.Strips {
		for _, t := range st.Stripped {
			ok, cls, why := s.stripOK(a, fp, d, t)
			ord[cls]++
			sub := fmt.Sprintf("strip:%s#%d", cls, ord[cls])
			if ok {
				r.holds(rule, key+"/"+sub, w.pos(t.Pos()), "`"+stmtText(w, fp.TypesInfo, t)+"`: "+why)
			} else {
				fail(sub, w.pos(t.Pos()), "`"+stmtText(w, fp.TypesInfo, t)+"`: "+why)
			}
		}
	}
	if bad == 0 {
		note := "embeds the reference body (" + fmt.Sprint(d.Matched) + " statements matched)"
		if !listed {
			note += "; not in the reviewed DELTA table but every insertion is generically admissible"
		}
		r.holds(rule, key, w.pos(pr.Fork.Pos()), note)
	} else if !listed {
		r.violated(rule, key, pr.DifPos, "diverges from go-ethereum v1.12.0: "+pr.FirstDif)
	}
}

func recvOnlyNames(w *World, pair int, name string, fo *ForkOnly) map[string]bool {
	out := map[string]bool{}
	fd, fp := w.FuncDecl(forkPath(pair), name)
	if fd == nil || fd.Recv == nil || len(fd.Recv.List) != 1 {
		return out
	}
	t := fp.TypesInfo.TypeOf(fd.Recv.List[0].Type)
	if p, ok := t.(*types.Pointer); ok {
		t = p.Elem()
	}
	if nt, ok := t.(*types.Named); ok {
		for k := range fo.FieldNames[fmt.Sprintf("P%d.%s", pair, nt.Obj().Name())] {
			out[k] = true
		}
	}
	return out
}

// exemptShapeOK: (*bls12381G2MultiExp).Run — one reference statement `g.MultiExp(...)` replaced by
// its error-checked form, nothing else.
func exemptShapeOK(w *World, fp, rp *packages.Package, name string, d *FuncDelta) (bool, string) {
	if len(d.RefOnly) != 1 || len(d.Ins) != 2 || len(d.AlphaErr) != 0 {
		return false, fmt.Sprintf("%d reference statements lost, %d insertions", len(d.RefOnly), len(d.Ins))
	}
	rc := &astCanon{info: rp.TypesInfo, alpha: true}
	fc := &astCanon{info: fp.TypesInfo, alpha: true}
	rs, ok := d.RefOnly[0].(*ast.ExprStmt)
	as, ok2 := d.Ins[0].Stmt.(*ast.AssignStmt)
	if !ok || !ok2 || len(as.Rhs) != 1 || rc.expr(rs.X) != fc.expr(as.Rhs[0]) {
		return false, "the replaced call is not the reference's call"
	}
	return true, ""
}

// replacementOK decides the reviewed replacements of reference statements.
func (s *e1State) replacementOK(pair int, name string, rinfo, finfo *types.Info, rs ast.Stmt, d *FuncDelta, used map[*Insertion]bool) (bool, string) {
	rc := &astCanon{info: rinfo, alpha: true}
	fc := &astCanon{info: finfo, alpha: true}
	// (1) evm.Context.Transfer(db, from, to, amount)  ->  <tracer>.TransferWithRecord(db, from, to, amount, evm.Context.Transfer)
	if es, ok := rs.(*ast.ExprStmt); ok {
		if call, ok := es.X.(*ast.CallExpr); ok {
			if sel, ok := call.Fun.(*ast.SelectorExpr); ok && sel.Sel.Name == "Transfer" {
				if v, ok := rinfo.Selections[sel]; ok && v.Obj().Name() == "Transfer" {
					for _, in := range d.Ins {
						fes, ok := in.Stmt.(*ast.ExprStmt)
						if !ok || used[in] {
							continue
						}
						fcall, ok := fes.X.(*ast.CallExpr)
						if !ok || len(fcall.Args) != len(call.Args)+1 {
							continue
						}
						fsel, ok := fcall.Fun.(*ast.SelectorExpr)
						if !ok {
							continue
						}
						fobj, _ := finfo.Uses[fsel.Sel].(*types.Func)
						if fobj == nil || normPath(fobj.FullName()) != "(*P0.Tracer).TransferWithRecord" {
							continue
						}
						same := fc.expr(fcall.Args[len(call.Args)]) == rc.expr(call.Fun)
						for i := range call.Args {
							if fc.expr(fcall.Args[i]) != rc.expr(call.Args[i]) {
								same = false
							}
						}
						if same {
							// same place: the wrapper call must lie between the same two matched statements as the
							// reference's transfer (moving it across the capture block or the account creation
							// changes what the debug tracers and the snapshot observe)
							refRun := ""
							for k2, r2 := range d.RefOnly {
								if r2 == rs && k2 < len(d.RefOnlyRun) {
									refRun = d.RefOnlyRun[k2]
								}
							}
							if refRun == "" || in.Run != refRun {
								return false, "the TransferWithRecord call is not at the position of the reference's transfer call (it has moved across statements the reference executes before or after the transfer)"
							}
							used[in] = true
							return true, "TRANSFER_REPLACEMENT: the reference's transfer call is passed, with the same arguments, to Tracer.TransferWithRecord, whose wrapper summary (R13.1) is exactly one call of it with (db, from, to, amount)"
						}
					}
					return false, "no TransferWithRecord call with the reference's arguments and transfer function"
				}
			}
		}
	}
	// (2) callstack[0] = callFrame{K: V...}  ->  field-wise assignments of the same values
	if as, ok := rs.(*ast.AssignStmt); ok && len(as.Lhs) == 1 && len(as.Rhs) == 1 {
		if lit, ok := as.Rhs[0].(*ast.CompositeLit); ok {
			base := rc.expr(as.Lhs[0])
			missing := []string{}
			for _, el := range lit.Elts {
				kv, ok := el.(*ast.KeyValueExpr)
				if !ok {
					return false, "positional composite literal"
				}
				want := base + rc.expr(kv.Key) + " = " + rc.expr(kv.Value)
				found := false
				for _, in := range d.Ins {
					if used[in] {
						continue
					}
					if fas, ok := in.Stmt.(*ast.AssignStmt); ok && len(fas.Lhs) == 1 && fas.Tok == token.ASSIGN {
						if h, _ := fc.header(fas); h == want {
							// either unconditional, or in the else branch of a matched `if` whose then-branch overrides the same field
							used[in] = true
							found = true
							break
						}
					}
				}
				if !found {
					missing = append(missing, want)
				}
			}
			if len(missing) == 0 {
				return true, "FIELDWISE: every keyed element of the reference's struct assignment is assigned field-wise with the same value; fields the reference zeroes are assumed zero before CaptureStart when no Aspect event preceded it"
			}
			return false, "field-wise replacement incomplete, missing: " + strings.Join(missing, "; ")
		}
	}
	// (3) return E  ->  t := E; <stores to fork-only fields of t>; return t
	if ret, ok := rs.(*ast.ReturnStmt); ok && len(ret.Results) == 1 {
		refRun := ""
		for k2, r2 := range d.RefOnly {
			if r2 == rs && k2 < len(d.RefOnlyRun) {
				refRun = d.RefOnlyRun[k2]
			}
		}
		want := rc.expr(ret.Results[0])
		for i, in := range d.Ins {
			def, ok := in.Stmt.(*ast.AssignStmt)
			if !ok || used[in] || in.Run != refRun || refRun == "" || def.Tok != token.DEFINE || len(def.Lhs) != 1 || len(def.Rhs) != 1 || in.Case != nil {
				continue
			}
			tid, ok := def.Lhs[0].(*ast.Ident)
			if !ok || finfo.Defs[tid] == nil || fc.expr(def.Rhs[0]) != want {
				continue
			}
			t := finfo.Defs[tid]
			// the following insertions of the same run up to `return t`
			okSeq := false
			var last *Insertion
			for _, in2 := range d.Ins[i+1:] {
				if in2.Run != refRun || in2.Stmt.Pos() < def.End() {
					continue
				}
				if r2, ok := in2.Stmt.(*ast.ReturnStmt); ok {
					if len(r2.Results) == 1 {
						if id, ok := ast.Unparen(r2.Results[0]).(*ast.Ident); ok && finfo.Uses[id] == t {
							okSeq, last = true, in2
						}
					}
					break
				}
				// t itself must keep the value it was built with
				spoiled := false
				ast.Inspect(in2.Stmt, func(n ast.Node) bool {
					switch x := n.(type) {
					case *ast.AssignStmt:
						for _, l := range x.Lhs {
							if id, ok := ast.Unparen(l).(*ast.Ident); ok && finfo.Uses[id] == t {
								spoiled = true
							}
						}
					case *ast.IncDecStmt:
						if id, ok := ast.Unparen(x.X).(*ast.Ident); ok && finfo.Uses[id] == t {
							spoiled = true
						}
					case *ast.UnaryExpr:
						if id, ok := ast.Unparen(x.X).(*ast.Ident); ok && x.Op == token.AND && finfo.Uses[id] == t {
							spoiled = true
						}
					}
					return true
				})
				if spoiled {
					break
				}
			}
			if okSeq {
				used[in], used[last] = true, true
				return true, "RETURN_VIA_LOCAL: the returned value is built by the reference's expression into a fork local that is returned unchanged; the statements in between are insertions judged on their own (stores to fork-only fields of the new value)"
			}
		}
	}
	return false, "no reviewed replacement applies"
}

// stripOK: a term removed from a matched statement to make it equal to the reference's.
func (s *e1State) stripOK(a *insAnalyzer, fp *packages.Package, d *FuncDelta, t ast.Expr) (bool, string, string) {
	switch x := t.(type) {
	case *ast.KeyValueExpr:
		es := a.effects(&ast.ExprStmt{X: x.Value})
		for _, e := range es {
			if e.kind != "call-pure" && e.kind != "call-tracer" {
				return false, "LITERAL_EXTRA_KEY", "value of the extra literal key has an effect: " + e.kind + " " + e.what
			}
		}
		return true, "LITERAL_EXTRA_KEY", "extra composite-literal key is a fork-only field / fork-only constant; its value has no effect on reference state"
	case *ast.CallExpr:
		return true, "EXPR_PLUS_FORKZERO", "addend is len() of a fork-only field: zero without Aspect state"
	case *ast.Ident:
		o := fp.TypesInfo.Uses[x]
		if o == nil || !d.FkLocals[o] {
			return false, "EXPR_PLUS_FORKZERO", "addend is not a fork-only local"
		}
		// every write to the counter: definition with constant 0, or inside an insertion that never executes at zero state
		fd := enclosingFuncDecl(fp, x.Pos())
		ok, why := true, ""
		ast.Inspect(fd, func(n ast.Node) bool {
			var lhs []ast.Expr
			var rhs []ast.Expr
			switch st := n.(type) {
			case *ast.AssignStmt:
				lhs, rhs = st.Lhs, st.Rhs
			case *ast.IncDecStmt:
				lhs = []ast.Expr{st.X}
			case *ast.ValueSpec:
				// `var counter = <init>`: the initial value must be zero without Aspect state
				for i, nm := range st.Names {
					if fp.TypesInfo.Defs[nm] != o {
						continue
					}
					if i < len(st.Values) && !a.zeroAtZeroState(st.Values[i]) {
						ok, why = false, "counter initialised with a value that is not zero without Aspect state"
					}
				}
				return true
			default:
				return true
			}
			for i, l := range lhs {
				id, isId := ast.Unparen(l).(*ast.Ident)
				if !isId || (fp.TypesInfo.Uses[id] != o && fp.TypesInfo.Defs[id] != o) {
					continue
				}
				if fp.TypesInfo.Defs[id] == o && i < len(rhs) {
					if tv := fp.TypesInfo.Types[rhs[i]]; tv.Value != nil && tv.Value.ExactString() == "0" {
						continue
					}
					if a.zeroAtZeroState(rhs[i]) {
						continue
					}
					ok, why = false, "counter initialised with a non-zero value"
					continue
				}
				if zw := a.zsZeroWrite[ast.Stmt(nil)]; zw != nil {
					_ = zw
				}
				if as, isAs := n.(*ast.AssignStmt); isAs && a.zsZeroWrite[as][o] {
					continue // assigned the constant 0 by a helper call that is a no-op at zero state (ZERO_STATE_NOOP)
				}
				if !s.insideZeroGuardedInsertion(a, d, n.Pos()) {
					ok, why = false, "counter written outside a construct that is dead at zero Aspect state"
				}
			}
			return true
		})
		if !ok {
			return false, "EXPR_PLUS_FORKZERO", why
		}
		return true, "EXPR_PLUS_FORKZERO", "addend is a fork-only counter initialised to 0 and incremented only inside loops over fork-only fields"
	}
	return false, "STRIP", "unknown stripped term"
}

func (s *e1State) insideZeroGuardedInsertion(a *insAnalyzer, d *FuncDelta, p token.Pos) bool {
	for _, in := range d.Ins {
		if in.Case != nil || in.AbsorbRef >= 0 {
			continue
		}
		if in.Stmt.Pos() <= p && p < in.Stmt.End() {
			v := a.classifyInsertion(in)
			if v.OK && (v.Class == "FORK_LOOP" || v.Class == "FORK_GUARD") {
				return true
			}
		}
	}
	return false
}

func enclosingFuncDecl(p *packages.Package, pos token.Pos) *ast.FuncDecl {
	for _, f := range p.Syntax {
		if f.Pos() <= pos && pos < f.End() {
			for _, d := range f.Decls {
				if fd, ok := d.(*ast.FuncDecl); ok && fd.Pos() <= pos && pos < fd.End() {
					return fd
				}
			}
		}
	}
	return nil
}

// deadNamedResults: the named results of fd that no statement matched with the reference mentions, when every
// return of fd lists its operands: whatever fork statements store there is never observed.
func deadNamedResults(info *types.Info, fd *ast.FuncDecl, d *FuncDelta) map[types.Object]bool {
	out := map[types.Object]bool{}
	if fd.Type.Results == nil {
		return out
	}
	explicit := true
	ast.Inspect(fd.Body, func(n ast.Node) bool {
		switch x := n.(type) {
		case *ast.FuncLit:
			return false
		case *ast.ReturnStmt:
			if len(x.Results) == 0 {
				explicit = false
			}
		}
		return true
	})
	if !explicit {
		return out
	}
	for _, fld := range fd.Type.Results.List {
		for _, nm := range fld.Names {
			if o := info.Defs[nm]; o != nil && nm.Name != "_" {
				out[o] = true
			}
		}
	}
	for _, pr := range d.Pairs {
		ast.Inspect(pr[1], func(n ast.Node) bool {
			if id, ok := n.(*ast.Ident); ok && out[info.Uses[id]] {
				delete(out, info.Uses[id])
			}
			return true
		})
	}
	// a closure (a deferred report, say) that mentions the result observes it whenever it runs
	ast.Inspect(fd.Body, func(n ast.Node) bool {
		if lit, ok := n.(*ast.FuncLit); ok {
			ast.Inspect(lit, func(m ast.Node) bool {
				if id, ok := m.(*ast.Ident); ok && out[info.Uses[id]] {
					delete(out, info.Uses[id])
				}
				return true
			})
			return false
		}
		return true
	})
	return out
}

// classifyWithNesting: the generic classes, then the reviewed special constructs, then — for an inserted `if`
// whose condition (and init) has no effect — each statement of its branches judged as an insertion of its own
// (a reviewed construct under an additional harmless guard stays that construct).
func (s *e1State) classifyWithNesting(r *Report, pair int, name string, a *insAnalyzer, in *Insertion, d *FuncDelta, depth int) *InsVerdict {
	v := a.classifyInsertion(in)
	if v.OK {
		return v
	}
	if cls, ok, why := s.specialInsertion(r, pair, name, a, in, d); cls != "" {
		v.Class, v.OK, v.Why = cls, ok, why
		return v
	}
	ifs, isIf := in.Stmt.(*ast.IfStmt)
	if !isIf || in.Case != nil || in.AbsorbRef >= 0 || depth > 2 {
		return v
	}
	pure := func(n ast.Node) bool {
		for _, e := range a.effects(n) {
			if e.kind != "call-pure" && e.kind != "write-fork" {
				return false
			}
		}
		return true
	}
	if !pure(&ast.ExprStmt{X: ifs.Cond}) || (ifs.Init != nil && !pure(ifs.Init)) {
		return v
	}
	var parts []ast.Stmt
	parts = append(parts, ifs.Body.List...)
	switch e := ifs.Else.(type) {
	case *ast.BlockStmt:
		parts = append(parts, e.List...)
	case nil:
	default:
		parts = append(parts, e)
	}
	for _, st := range parts {
		sub := s.classifyWithNesting(r, pair, name, a, &Insertion{Stmt: st, AbsorbRef: -1, Run: in.Run, Ctx: in.Ctx}, d, depth+1)
		if !sub.OK {
			return v
		}
	}
	v.Class, v.OK, v.Why = "NESTED", true, "an effect-free condition around statements each of which is an admissible insertion on its own"
	return v
}

// specialInsertion: the reviewed constructs that need their own rule.
func (s *e1State) specialInsertion(r *Report, pair int, name string, a *insAnalyzer, in *Insertion, d *FuncDelta) (string, bool, string) {
	info := a.info
	c := &astCanon{info: info}
	// inserted case clause: `case evm.chainRules.IsCancun: table = &cancunInstructionSet`
	if in.Case != nil {
		if len(in.Case.List) == 1 {
			if sel, ok := in.Case.List[0].(*ast.SelectorExpr); ok {
				if v, ok := info.Selections[sel]; ok && v.Obj().Name() == "IsCancun" && v.Obj().Pkg() != nil && v.Obj().Pkg().Path() == "github.com/ethereum/go-ethereum/params" {
					r.Assumptions = append(r.Assumptions, "params.Rules.IsCancun is false for every fork rule set up to Shanghai (go-ethereum/params, same module version as the reference)")
					return "CASE_INSERT", true, "extra switch case guarded by params.Rules.IsCancun, which is false for every fork up to Shanghai; the reference cases follow in unchanged order"
				}
			}
		}
		return "CASE_INSERT", false, "inserted switch case `" + c.exprs(in.Case.List) + "` is not guarded by a rule that is false for every fork up to Shanghai"
	}
	// context clone through a fork helper: `p = h(p, …)` where h hands p back unless p satisfies a fork-only interface
	if as, ok := in.Stmt.(*ast.AssignStmt); ok && as.Tok == token.ASSIGN && len(as.Lhs) == 1 && len(as.Rhs) == 1 {
		if cls, ok, why := s.ctxCloneHelper(pair, a, as); cls != "" {
			return cls, ok, why
		}
	}
	ifs, ok := in.Stmt.(*ast.IfStmt)
	if !ok {
		return "", false, ""
	}
	// join-point region: `if evm.IsExecuteJP { ... }`
	if sel, ok := ast.Unparen(ifs.Cond).(*ast.SelectorExpr); ok && ifs.Init == nil && ifs.Else == nil {
		if v, ok := info.Selections[sel]; ok && v.Obj().Name() == "IsExecuteJP" && s.fo.Fields[v.Obj().(*types.Var)] {
			ok, why := jpRegionOK(a, ifs)
			return "JP_REGION", ok, why
		}
	}
	// context clone: `if cp, ok := p.(ContextfulPrecompiledContract); ok { p = cp.CloneWithCtx(...) }`
	if as, ok := ifs.Init.(*ast.AssignStmt); ok && len(as.Rhs) == 1 && ifs.Else == nil {
		if ta, ok := as.Rhs[0].(*ast.TypeAssertExpr); ok && ta.Type != nil {
			it := info.TypeOf(ta.Type)
			if nt, ok := it.(*types.Named); ok && s.fo.Types[nt.Obj()] {
				if iface, ok := nt.Underlying().(*types.Interface); ok {
					// no type that also exists in the reference may satisfy the fork-only interface
					offenders, n := s.inheritedImplementers(pair, iface)
					if len(offenders) > 0 {
						return "CTX_CLONE", false, "inherited types satisfy the fork-only interface " + nt.Obj().Name() + ": " + strings.Join(offenders, ", ")
					}
					// the body may only re-assign the asserted operand from a method of the asserted value
					es := a.effects(ifs.Body)
					for _, e := range es {
						if e.kind == "write-ref" && e.what == "variable "+c.expr(ta.X) {
							continue
						}
						if e.kind == "call-pure" || e.kind == "write-fork" {
							continue
						}
						if e.kind == "call-other" && strings.HasSuffix(e.what, ".CloneWithCtx") {
							continue
						}
						return "CTX_CLONE", false, "body of the context-clone block has effect " + e.kind + " " + e.what
					}
					return "CTX_CLONE", true, fmt.Sprintf("guarded by a type test against fork-only interface %s which none of the %d inherited types satisfies (method-set query)", nt.Obj().Name(), n)
				}
			}
		}
	}
	return "", false, ""
}

// inheritedImplementers: the types that also exist in the reference and satisfy the (fork-only) interface.
func (s *e1State) inheritedImplementers(pair int, iface *types.Interface) (offenders []string, n int) {
	fpk := s.w.Pkgs[forkPath(pair)]
	rpk := s.w.Pkgs[refPath(pair)]
	for _, tn := range fpk.Types.Scope().Names() {
		o, ok := fpk.Types.Scope().Lookup(tn).(*types.TypeName)
		if !ok || rpk.Types.Scope().Lookup(tn) == nil {
			continue
		}
		n++
		if types.Implements(o.Type(), iface) || types.Implements(types.NewPointer(o.Type()), iface) {
			offenders = append(offenders, tn)
		}
	}
	return
}

// ctxCloneHelper: `X = h(…, X, …)` with h a fork-only function. Admissible when (SSA of h) every value h
// returns is the parameter bound to X unless a comma-ok type test of that parameter against a fork-only
// interface — which no inherited type satisfies — succeeded, and h does nothing but that test outside
// the success side; on the success side the same effects are allowed as in the in-line form.
func (s *e1State) ctxCloneHelper(pair int, a *insAnalyzer, as *ast.AssignStmt) (string, bool, string) {
	info := a.info
	lhs, ok := ast.Unparen(as.Lhs[0]).(*ast.Ident)
	call, ok2 := ast.Unparen(as.Rhs[0]).(*ast.CallExpr)
	if !ok || !ok2 {
		return "", false, ""
	}
	f, ok := typeutil.Callee(info, call).(*types.Func)
	if !ok || f.Pkg() == nil || f.Pkg().Path() != forkPath(pair) {
		return "", false, ""
	}
	rel := relNameOfFunc(f)
	if s.w.funcIdx[refPath(pair)][rel] != nil {
		return "", false, ""
	}
	idx := -1
	for i, arg := range call.Args {
		if id, ok := ast.Unparen(arg).(*ast.Ident); ok && info.Uses[id] == info.Uses[lhs] {
			idx = i
		} else {
			for _, e := range a.effects(&ast.ExprStmt{X: arg}) {
				if e.kind != "call-pure" {
					return "", false, ""
				}
			}
		}
	}
	fn := s.w.Func(forkPath(pair), rel)
	if idx < 0 || fn == nil || fn.Blocks == nil || fn.Signature.Recv() != nil || idx >= len(fn.Params) {
		return "", false, ""
	}
	param := ssa.Value(fn.Params[idx])
	// the success side of the type test
	var succ *ssa.BasicBlock
	var iname string
	for _, b := range fn.Blocks {
		iff, ok := b.Instrs[len(b.Instrs)-1].(*ssa.If)
		if !ok {
			continue
		}
		ex, ok := iff.Cond.(*ssa.Extract)
		if !ok || ex.Index != 1 {
			continue
		}
		ta, ok := ex.Tuple.(*ssa.TypeAssert)
		if !ok || !ta.CommaOk || ta.X != param {
			continue
		}
		nt, ok := ta.AssertedType.(*types.Named)
		if !ok || !s.fo.Types[nt.Obj()] {
			continue
		}
		iface, ok := nt.Underlying().(*types.Interface)
		if !ok {
			continue
		}
		if off, _ := s.inheritedImplementers(pair, iface); len(off) > 0 {
			return "CTX_CLONE", false, "inherited types satisfy the fork-only interface " + nt.Obj().Name() + ": " + strings.Join(off, ", ")
		}
		if b.Succs[0] != b.Succs[1] && len(b.Succs[0].Preds) == 1 {
			succ, iname = b.Succs[0], nt.Obj().Name()
		}
	}
	if succ == nil {
		return "", false, ""
	}
	var okVal func(v ssa.Value, from *ssa.BasicBlock, seen map[ssa.Value]bool) bool
	okVal = func(v ssa.Value, from *ssa.BasicBlock, seen map[ssa.Value]bool) bool {
		if v == param || succ.Dominates(from) {
			return true
		}
		if phi, ok := v.(*ssa.Phi); ok && !seen[v] {
			seen[v] = true
			for i, e := range phi.Edges {
				if !okVal(e, phi.Block().Preds[i], seen) {
					return false
				}
			}
			return true
		}
		return false
	}
	for _, b := range fn.Blocks {
		for _, ins := range b.Instrs {
			if ret, ok := ins.(*ssa.Return); ok {
				if len(ret.Results) != 1 || !okVal(ret.Results[0], b, map[ssa.Value]bool{}) {
					return "CTX_CLONE", false, "helper " + rel + " can return something else than its argument although the type test against " + iname + " failed"
				}
				continue
			}
			if succ.Dominates(b) {
				continue
			}
			switch ins.(type) {
			case *ssa.TypeAssert, *ssa.Extract, *ssa.If, *ssa.Jump, *ssa.Phi, *ssa.DebugRef, *ssa.ChangeInterface, *ssa.MakeInterface:
			default:
				return "CTX_CLONE", false, "helper " + rel + " does more than the type test outside its success side (" + ins.String() + ")"
			}
		}
	}
	hes, ok := a.helperEffects(f, call.Pos())
	if !ok {
		return "", false, ""
	}
	for _, e := range hes {
		if e.kind == "call-pure" || e.kind == "write-fork" {
			continue
		}
		if e.kind == "call-other" && strings.HasSuffix(e.what, ".CloneWithCtx") {
			continue
		}
		return "CTX_CLONE", false, "helper " + rel + " has effect " + e.kind + " " + e.what
	}
	return "CTX_CLONE", true, "the helper " + rel + " returns its argument unless a type test against fork-only interface " + iname + " succeeds, which no inherited type satisfies (method-set query)"
}

// jpRegionOK (R1.4b): inside `if evm.IsExecuteJP { … }`, under S-noaspect (result.Err == nil and
// result.Gas == the gas argument) every write to reference state and every return is
// control-dependent on `<result>.Err != nil`, or is `gas = <result>.Gas` where the gas argument of
// the join-point call is the variable gas itself.
func jpRegionOK(a *insAnalyzer, ifs *ast.IfStmt) (bool, string) {
	info := a.info
	c := &astCanon{info: info}
	var resVar types.Object
	gasArgIsGas := false
	var gasObj types.Object
	errAlias := map[types.Object]bool{} // locals defined as <result>.Err
	// isErr: e reads <result>.Err (directly or through a local defined from it)
	isErr := func(e ast.Expr) bool {
		switch x := ast.Unparen(e).(type) {
		case *ast.Ident:
			return errAlias[info.Uses[x]]
		case *ast.SelectorExpr:
			if x.Sel.Name != "Err" || resVar == nil {
				return false
			}
			id, ok := ast.Unparen(x.X).(*ast.Ident)
			return ok && info.Uses[id] == resVar
		}
		return false
	}
	// errTest: +1 when cond is `<err> != nil`, -1 when it is `<err> == nil`, 0 otherwise
	errTest := func(cond ast.Expr) int {
		b, ok := ast.Unparen(cond).(*ast.BinaryExpr)
		if !ok || (b.Op != token.NEQ && b.Op != token.EQL) {
			return 0
		}
		x, y := b.X, b.Y
		if info.Types[x].IsNil() {
			x, y = y, x
		}
		if !isErr(x) || !info.Types[y].IsNil() {
			return 0
		}
		if b.Op == token.NEQ {
			return 1
		}
		return -1
	}
	pureOnly := func(n ast.Node, what string) (bool, string) {
		for _, e := range a.effects(n) {
			if e.kind != "write-fork" && e.kind != "call-pure" {
				return false, what + " in a join-point region affects reference state without depending on the join-point error (" + e.kind + " " + e.what + ")"
			}
		}
		return true, ""
	}
	var admissible func(list []ast.Stmt) (bool, string)
	one := func(st ast.Stmt) (bool, string) {
		if st == nil {
			return true, ""
		}
		return admissible([]ast.Stmt{st})
	}
	admissible = func(list []ast.Stmt) (bool, string) {
		for _, st := range list {
			switch x := st.(type) {
			case *ast.AssignStmt:
				// result := djpm.AspectInstance().PreContractCall(...)
				if x.Tok == token.DEFINE && len(x.Lhs) == 1 && len(x.Rhs) == 1 {
					if call, ok := x.Rhs[0].(*ast.CallExpr); ok {
						name, _ := a.calleeName(call)
						if strings.HasSuffix(name, ".PreContractCall") || strings.HasSuffix(name, ".PostContractCall") {
							if resVar != nil {
								return false, "two join-point calls in one region"
							}
							resVar = info.Defs[x.Lhs[0].(*ast.Ident)]
							// the uint64 positional argument is the gas
							for _, arg := range call.Args {
								if t := info.TypeOf(arg); t != nil && t.String() == "uint64" {
									if id, ok := ast.Unparen(arg).(*ast.Ident); ok {
										gasObj = info.Uses[id]
										gasArgIsGas = gasObj != nil && gasObj.Name() == "gas"
									}
								}
							}
							// arguments must be effect-free
							for _, arg := range call.Args {
								for _, e := range a.effects(&ast.ExprStmt{X: arg}) {
									if e.kind != "call-pure" {
										return false, "join-point argument has effect " + e.kind + " " + e.what
									}
								}
							}
							continue
						}
					}
					// v := <result>.Err
					if id, ok := x.Lhs[0].(*ast.Ident); ok && isErr(x.Rhs[0]) && info.Defs[id] != nil {
						errAlias[info.Defs[id]] = true
						continue
					}
				}
				// gas = result.Gas
				if x.Tok == token.ASSIGN && len(x.Lhs) == 1 && len(x.Rhs) == 1 {
					if id, ok := x.Lhs[0].(*ast.Ident); ok && gasObj != nil && info.Uses[id] == gasObj {
						if sel, ok := x.Rhs[0].(*ast.SelectorExpr); ok && sel.Sel.Name == "Gas" {
							if rid, ok := sel.X.(*ast.Ident); ok && info.Uses[rid] == resVar && resVar != nil {
								if !gasArgIsGas {
									return false, "gas re-assigned from the join-point result but the call's gas argument is not the variable gas"
								}
								continue
							}
						}
					}
				}
				// a local defined from <result>.Err must not be re-assigned
				for _, l := range x.Lhs {
					if id, ok := l.(*ast.Ident); ok && errAlias[info.Uses[id]] {
						return false, "the local holding the join-point error is re-assigned"
					}
				}
				for _, e := range a.effects(x) {
					if e.kind == "write-ref" || e.kind == "call-other" || e.kind == "call-jp" {
						return false, "statement `" + c.stmt(x) + "` in a join-point region affects reference state unconditionally (" + e.kind + " " + e.what + ")"
					}
				}
			case *ast.BlockStmt:
				if ok, why := admissible(x.List); !ok {
					return false, why
				}
			case *ast.IfStmt:
				if ok, why := one(x.Init); !ok {
					return false, why
				}
				switch errTest(x.Cond) {
				case 1: // if <err> != nil { anything } else { admissible }
					if ok, why := one(x.Else); !ok {
						return false, why
					}
				case -1: // if <err> == nil { admissible } else { anything }
					if ok, why := admissible(x.Body.List); !ok {
						return false, why
					}
				default:
					if ok, why := pureOnly(&ast.ExprStmt{X: x.Cond}, "condition `"+c.expr(x.Cond)+"`"); !ok {
						return false, why
					}
					if ok, why := admissible(x.Body.List); !ok {
						return false, "under `if " + c.expr(x.Cond) + "`: " + why
					}
					if ok, why := one(x.Else); !ok {
						return false, "under `if " + c.expr(x.Cond) + "` (else): " + why
					}
				}
			case *ast.SwitchStmt:
				if x.Tag != nil {
					if ok, why := pureOnly(x, "statement `switch "+c.expr(x.Tag)+"`"); !ok {
						return false, why
					}
					continue
				}
				if ok, why := one(x.Init); !ok {
					return false, why
				}
				// clauses are tested in source order; once `<err> == nil` was tested and not taken, the error is set
				errSet := false
				var def *ast.CaseClause
				for _, cl := range x.Body.List {
					cc := cl.(*ast.CaseClause)
					if cc.List == nil {
						def = cc
						continue
					}
					if errSet {
						continue
					}
					t := 0
					if len(cc.List) == 1 {
						t = errTest(cc.List[0])
					}
					for _, e := range cc.List {
						if ok, why := pureOnly(&ast.ExprStmt{X: e}, "case condition `"+c.expr(e)+"`"); !ok {
							return false, why
						}
					}
					for _, b := range cc.Body {
						if br, ok := b.(*ast.BranchStmt); ok && br.Tok == token.FALLTHROUGH {
							return false, "fallthrough in a join-point region"
						}
					}
					switch t {
					case 1:
					case -1:
						if ok, why := admissible(cc.Body); !ok {
							return false, why
						}
						errSet = true
					default:
						if ok, why := admissible(cc.Body); !ok {
							return false, why
						}
					}
				}
				if def != nil && !errSet {
					if ok, why := admissible(def.Body); !ok {
						return false, why
					}
				}
			default:
				if ok, why := pureOnly(st, "statement"); !ok {
					return false, why
				}
			}
		}
		return true, ""
	}
	if ok, why := admissible(ifs.Body.List); !ok {
		return false, why
	}
	if resVar == nil {
		return false, "no join-point call found in the region"
	}
	return true, "under S-noaspect (Err == nil, Gas == gas argument) the region only re-assigns gas to itself; all other writes/returns depend on <result>.Err != nil"
}
