package main

// E4: may-alias roots of reference values (slices, big-number pointers), interprocedural through
// result-aliases-parameter summaries. rootsOf(v) answers: which parameters of the enclosing
// function, which borrow sources (Memory.GetPtr, Stack.peek …) and which fields may the storage
// behind v belong to? A call's result aliases what the callee's returned values alias, with the
// callee's parameters mapped back to the call's arguments; interface method calls are resolved to
// every implementation in the fork (CHA by method set); captured variables are resolved through the
// closure binding to the stores into the captured cell. Library helpers that may hand back their
// argument (common.RightPadBytes/LeftPadBytes/Trim*) are summarised as pass-through; every other
// call outside the fork, and calls through function values, yield fresh values (stated assumption).

import (
	"go/token"
	"go/types"
	"sort"
	"strings"

	"golang.org/x/tools/go/ssa"
)

type aroot struct {
	param *ssa.Parameter
	src   *ssa.Call
	field string
	free  *ssa.FreeVar
}

type aliasEngine struct {
	w     *World
	sum   map[*ssa.Function]map[int][]aroot
	impls map[string][]*ssa.Function
	Unresolved int // calls through function values met while following results (treated as fresh)
	taken map[*ssa.Function]bool
	bySig map[string][]*ssa.Function
}

func (w *World) aliasEngine() *aliasEngine {
	if w.alias == nil {
		w.alias = &aliasEngine{w: w, sum: map[*ssa.Function]map[int][]aroot{}, impls: map[string][]*ssa.Function{}}
	}
	return w.alias
}

// passThroughExt: external helpers whose result may be (a slice of) their first argument.
var passThroughExt = map[string]bool{
	"github.com/ethereum/go-ethereum/common.RightPadBytes":  true,
	"github.com/ethereum/go-ethereum/common.LeftPadBytes":   true,
	"github.com/ethereum/go-ethereum/common.TrimLeftZeroes": true,
	"github.com/ethereum/go-ethereum/common.TrimRightZeroes": true,
	"bytes.TrimLeft": true, "bytes.TrimRight": true, "bytes.TrimSpace": true, "bytes.TrimPrefix": true, "bytes.TrimSuffix": true, "bytes.Trim": true,
}

// implementations of an interface method among the fork's functions.
func (e *aliasEngine) implementations(iface types.Type, method string) []*ssa.Function {
	key := iface.String() + "." + method
	if v, ok := e.impls[key]; ok {
		return v
	}
	it, _ := iface.Underlying().(*types.Interface)
	var out []*ssa.Function
	if it != nil {
		for _, fn := range e.w.forkFuncsAll() {
			if fn.Name() != method || fn.Signature.Recv() == nil || fn.Parent() != nil {
				continue
			}
			rt := fn.Signature.Recv().Type()
			if types.Implements(rt, it) || types.Implements(types.NewPointer(rt), it) {
				out = append(out, fn)
			}
		}
	}
	sort.Slice(out, func(i, j int) bool { return out[i].String() < out[j].String() })
	e.impls[key] = out
	return out
}

// addressTakenWithSig: fork functions (and closures) of exactly this signature that are used as values
// somewhere in the fork (stored into a table, returned, passed on, bound as a closure).
func (e *aliasEngine) addressTakenWithSig(sig *types.Signature) []*ssa.Function {
	if e.taken == nil {
		e.taken = map[*ssa.Function]bool{}
		for _, fn := range e.w.forkFuncsAll() {
			for _, b := range fn.Blocks {
				for _, ins := range b.Instrs {
					if mc, ok := ins.(*ssa.MakeClosure); ok {
						if g, ok := mc.Fn.(*ssa.Function); ok {
							e.taken[g] = true
						}
					}
					var rands []*ssa.Value
					for _, r := range ins.Operands(rands) {
						f, ok := (*r).(*ssa.Function)
						if !ok {
							continue
						}
						if ci, isCall := ins.(ssa.CallInstruction); isCall && ci.Common().Value == ssa.Value(f) {
							continue
						}
						e.taken[f] = true
					}
				}
			}
		}
	}
	key := sig.String()
	if v, ok := e.bySig[key]; ok {
		return v
	}
	var out []*ssa.Function
	for f := range e.taken {
		if f.Blocks == nil {
			continue
		}
		fs := f.Signature
		if fs.Recv() != nil {
			continue
		}
		if types.Identical(types.NewSignatureType(nil, nil, nil, fs.Params(), fs.Results(), fs.Variadic()), types.NewSignatureType(nil, nil, nil, sig.Params(), sig.Results(), sig.Variadic())) {
			out = append(out, f)
		}
	}
	sort.Slice(out, func(i, j int) bool { return out[i].String() < out[j].String() })
	if e.bySig == nil {
		e.bySig = map[string][]*ssa.Function{}
	}
	e.bySig[key] = out
	return out
}

// summary: result index -> roots of the returned values, expressed over the callee's own
// parameters (param roots) and global roots (borrow sources, fields).
func (e *aliasEngine) summary(f *ssa.Function) map[int][]aroot {
	if s, ok := e.sum[f]; ok {
		return s // includes the in-progress empty summary (recursion: no contribution)
	}
	e.sum[f] = map[int][]aroot{}
	out := map[int][]aroot{}
	for _, b := range f.Blocks {
		ret, ok := b.Instrs[len(b.Instrs)-1].(*ssa.Return)
		if !ok {
			continue
		}
		for i, rv := range ret.Results {
			if !isRefType(rv.Type()) {
				continue
			}
			for _, rt := range e.rootsOf(rv, map[ssa.Value]bool{}) {
				dup := false
				for _, x := range out[i] {
					if x == rt {
						dup = true
					}
				}
				if !dup {
					out[i] = append(out[i], rt)
				}
			}
		}
	}
	e.sum[f] = out
	return out
}

// callResult: roots of result idx of call c.
func (e *aliasEngine) callResult(c *ssa.Call, idx int, seen map[ssa.Value]bool) []aroot {
	com := c.Common()
	var callees []*ssa.Function
	invoke := com.IsInvoke()
	if invoke {
		callees = e.implementations(com.Value.Type(), com.Method.Name())
	} else if f := com.StaticCallee(); f != nil {
		if ownedResult[normPath(f.String())] {
			// what a finished frame hands back points into that frame's own Memory object, which nobody
			// touches again (R8.4 checks the premise: memories are fresh per frame and never pooled)
			return nil
		}
		if f.Blocks != nil && (isForkPkg(f.Pkg) || f.Parent() != nil) {
			callees = []*ssa.Function{f}
		} else if rv := f.Signature.Recv(); rv != nil && isBignumPtr(rv.Type()) && len(com.Args) > 0 && f.Signature.Results().Len() >= 1 && types.Identical(f.Signature.Results().At(0).Type(), rv.Type()) && f.Name() != "Clone" {
			// z.Op(x, y) of big.Int / uint256.Int returns its receiver
			if idx == 0 {
				return e.rootsOf(com.Args[0], seen)
			}
			return nil
		} else if passThroughExt[normPath(f.String())] && len(com.Args) > 0 {
			return e.rootsOf(com.Args[0], seen)
		}
	} else if _, isBuiltin := com.Value.(*ssa.Builtin); !isBuiltin {
		// a call through a function value (e.g. operation.execute from the instruction table): every
		// fork function of exactly this signature whose address is taken somewhere may be the callee
		callees = e.addressTakenWithSig(com.Signature())
		if len(callees) == 0 {
			e.Unresolved++
		}
	}
	var out []aroot
	for _, f := range callees {
		for _, rt := range e.summary(f)[idx] {
			if rt.param == nil {
				out = append(out, rt)
				continue
			}
			if rt.param.Parent() != f {
				continue
			}
			pi := -1
			for k, p := range f.Params {
				if p == rt.param {
					pi = k
				}
			}
			var arg ssa.Value
			switch {
			case pi < 0:
			case invoke && pi == 0:
				arg = com.Value
			case invoke && pi-1 < len(com.Args):
				arg = com.Args[pi-1]
			case !invoke && pi < len(com.Args):
				arg = com.Args[pi]
			}
			if arg != nil {
				out = append(out, e.rootsOf(arg, seen)...)
			}
		}
	}
	return out
}

// cellStores: the values stored into a local cell, in its function and in the closures that capture it.
func cellStores(a *ssa.Alloc) []ssa.Value {
	var out []ssa.Value
	var visit func(addr ssa.Value)
	visit = func(addr ssa.Value) {
		refs := addr.Referrers()
		if refs == nil {
			return
		}
		for _, u := range *refs {
			switch x := u.(type) {
			case *ssa.Store:
				if x.Addr == addr {
					out = append(out, x.Val)
				}
			case *ssa.MakeClosure:
				g := x.Fn.(*ssa.Function)
				for k, bnd := range x.Bindings {
					if bnd == addr && k < len(g.FreeVars) {
						visit(g.FreeVars[k])
					}
				}
			}
		}
	}
	visit(a)
	return out
}

// bindingOf: the value bound to a free variable at the (single) closure creation site.
func bindingOf(fv *ssa.FreeVar) ssa.Value {
	g := fv.Parent()
	p := g.Parent()
	if p == nil {
		return nil
	}
	idx := -1
	for k, x := range g.FreeVars {
		if x == fv {
			idx = k
		}
	}
	for _, b := range p.Blocks {
		for _, ins := range b.Instrs {
			if mc, ok := ins.(*ssa.MakeClosure); ok && mc.Fn == ssa.Value(g) && idx >= 0 && idx < len(mc.Bindings) {
				return mc.Bindings[idx]
			}
		}
	}
	return nil
}

func (e *aliasEngine) rootsOf(v ssa.Value, seen map[ssa.Value]bool) []aroot {
	if seen[v] {
		return nil
	}
	seen[v] = true
	cell := func(addr ssa.Value) []aroot {
		// load of a local / captured cell: union of the values stored into it
		for {
			fv, ok := addr.(*ssa.FreeVar)
			if !ok {
				break
			}
			b := bindingOf(fv)
			if b == nil {
				return []aroot{{free: fv}}
			}
			addr = b
		}
		a, ok := addr.(*ssa.Alloc)
		if !ok {
			return nil
		}
		var out []aroot
		for _, sv := range cellStores(a) {
			out = append(out, e.rootsOf(sv, seen)...)
		}
		return out
	}
	switch x := v.(type) {
	case *ssa.Parameter:
		return []aroot{{param: x}}
	case *ssa.FreeVar:
		if b := bindingOf(x); b != nil {
			return e.rootsOf(b, seen)
		}
		return []aroot{{free: x}}
	case *ssa.Slice:
		return e.rootsOf(x.X, seen)
	case *ssa.ChangeType:
		return e.rootsOf(x.X, seen)
	case *ssa.Convert:
		if isRefType(x.X.Type()) && isRefType(x.Type()) {
			return e.rootsOf(x.X, seen)
		}
	case *ssa.Phi:
		var out []aroot
		for _, ed := range x.Edges {
			out = append(out, e.rootsOf(ed, seen)...)
		}
		return out
	case *ssa.Extract:
		if c, ok := x.Tuple.(*ssa.Call); ok && isRefType(x.Type()) {
			return e.callResult(c, x.Index, seen)
		}
	case *ssa.Call:
		if borrowSource(x) != "" {
			return []aroot{{src: x}}
		}
		// append(a, b...) aliases a (and copies b)
		if b, ok := x.Call.Value.(*ssa.Builtin); ok {
			if b.Name() == "append" {
				return e.rootsOf(x.Call.Args[0], seen)
			}
			return nil
		}
		if isRefType(x.Type()) {
			return e.callResult(x, 0, seen)
		}
	case *ssa.UnOp:
		if x.Op == token.MUL {
			switch a := x.X.(type) {
			case *ssa.FieldAddr:
				return []aroot{{field: fieldID(a)}}
			case *ssa.Alloc, *ssa.FreeVar:
				return cell(a)
			}
		}
	case *ssa.FieldAddr:
		// &x.f of a borrowed object is borrowed too
		return e.rootsOf(x.X, seen)
	case *ssa.IndexAddr:
		return e.rootsOf(x.X, seen)
	case *ssa.Alloc:
		// the address of a local array that is later sliced: its content is the stored values'
		return nil
	}
	return nil
}

var _ = strings.HasPrefix

// ownedResult: calls whose result, although it points into interpreter memory, is owned by the caller
// because the memory it points into is dead when the call returns (one symbol, one reason).
var ownedResult = map[string]bool{
	"(*P0.EVMInterpreter).Run": true, // the callee frame's Memory is allocated in Run and unreachable after it returns (premise: R8.4)
}
