package main

// E2 rules on the frame entry points (Call, CallCode, DelegateCall, StaticCall, create):
// C04 (R4.*), C06 (R6.*) and the join-point ordering part of C05 (R5.2, R5.3).

import (
	"fmt"
	"go/ast"
	"go/token"
	"go/types"
	"sort"
	"strings"
)

var frameFuncs = []string{"(*EVM).Call", "(*EVM).CallCode", "(*EVM).DelegateCall", "(*EVM).StaticCall", "(*EVM).create"}

type frameResult struct {
	fn string
	// per return ordinal: violations (rule -> messages)
	retViol map[int]map[string][]string
	retPos  map[int]token.Pos
	retSeen map[int]map[string]bool // rule -> evaluated on some path after snapshot
	site    map[string][]string    // site rule key -> violations
	siteOK  map[string]token.Pos   // site rule key -> evaluated
	states  int
	paths   int
	hasSnap bool
	jpVars  map[string]string // var name -> "pre"/"post"
}

func isJPCall(fl *Flow, call *ast.CallExpr) string {
	f, ok := fl.callee(call).(*types.Func)
	if !ok {
		return ""
	}
	switch f.Name() {
	case "PreContractCall":
		return "pre"
	case "PostContractCall":
		return "post"
	}
	return ""
}

func (fl *Flow) isStateDBCall(call *ast.CallExpr, name string) bool {
	f, ok := fl.callee(call).(*types.Func)
	if !ok || f.Name() != name {
		return false
	}
	rt, _ := recvTypeName(f)
	if rt == "StateDB" {
		return true
	}
	// interface method: receiver is the interface type itself
	if sig, ok := f.Type().(*types.Signature); ok && sig.Recv() != nil {
		return strings.HasSuffix(sig.Recv().Type().String(), ".StateDB")
	}
	return false
}

// analyseFrame runs the path-sensitive frame rules on one function.
func (w *World) analyseFrame(rel string) *frameResult {
	fl := w.newFlow(forkPath(pkVM), rel)
	if fl == nil {
		return nil
	}
	res := &frameResult{fn: rel, retViol: map[int]map[string][]string{}, retPos: map[int]token.Pos{}, retSeen: map[int]map[string]bool{},
		site: map[string][]string{}, siteOK: map[string]token.Pos{}, jpVars: map[string]string{}}
	// ordinals of return statements in source order
	retOrd := map[*ast.ReturnStmt]int{}
	ast.Inspect(fl.fd.Body, func(n ast.Node) bool {
		switch x := n.(type) {
		case *ast.FuncLit:
			return false
		case *ast.ReturnStmt:
			retOrd[x] = len(retOrd) + 1
		case *ast.AssignStmt:
			if len(x.Rhs) == 1 && len(x.Lhs) == 1 {
				if call, ok := x.Rhs[0].(*ast.CallExpr); ok {
					if k := isJPCall(fl, call); k != "" {
						res.jpVars[fl.canon(x.Lhs[0])] = k
					}
				}
			}
		}
		return true
	})
	errName := fl.resultName(0)
	snapVar := ""
	ncVar := ""
	addRet := func(ord int, rule, msg string) {
		if res.retViol[ord] == nil {
			res.retViol[ord] = map[string][]string{}
		}
		if len(res.retViol[ord][rule]) > 0 {
			return // one witness path per (return, rule) is enough
		}
		res.retViol[ord][rule] = append(res.retViol[ord][rule], msg)
	}
	seenRet := func(ord int, rule string) {
		if res.retSeen[ord] == nil {
			res.retSeen[ord] = map[string]bool{}
		}
		res.retSeen[ord][rule] = true
	}
	siteV := func(key string, pos token.Pos, msg string) {
		if _, ok := res.siteOK[key]; !ok {
			res.siteOK[key] = pos
		}
		if msg != "" {
			for _, m := range res.site[key] {
				if m == msg {
					return
				}
			}
			res.site[key] = append(res.site[key], msg)
		}
	}
	jpFailed := func(f facts) (string, bool) {
		for v := range res.jpVars {
			if f["L:"+v+".Err == nil=F"] {
				return v, true
			}
		}
		return "", false
	}
	rule := &flowRule{}
	rule.visit = func(fl *Flow, f facts, n ast.Node) {
		if ret, ok := n.(*ast.ReturnStmt); ok {
			ord := retOrd[ret]
			res.retPos[ord] = ret.Pos()
			if !f["snap"] || len(ret.Results) < 3 {
				return
			}
			E := ret.Results[len(ret.Results)-1]
			G := ret.Results[len(ret.Results)-2]
			es, gs := fl.canon(E), fl.canon(G)
			errNil := isNilExpr(fl.info, E) || f.isEq(es, "nil")
			exempt := f["L:"+errName+" == P0.ErrCodeStoreOutOfGas=T"] && rel == "(*EVM).create"
			// R4.1: an error leaves only after the frame's snapshot was restored
			seenRet(ord, "R4.1")
			if !(errNil || f["rev"] || exempt) {
				addRet(ord, "R4.1", fmt.Sprintf("returns error `%s` after the snapshot (and value transfer) without RevertToSnapshot on the path %s", es, shortFacts(f)))
			}
			// R6.2: a non-revert error forfeits the gas
			if !errNil {
				seenRet(ord, "R6.2")
				gz := gs == "0" || f.isEq(gs, "0") || f.isEq(es, "P0.ErrExecutionReverted") || exempt
				if !gz {
					addRet(ord, "R6.2", fmt.Sprintf("returns gas `%s` together with error `%s` that is not known to be a revert on the path %s", gs, es, shortFacts(f)))
				}
			}
			// R4.4: a failed join point must surface as the frame's error
			if v, failed := jpFailed(f); failed {
				seenRet(ord, "R4.4")
				ok := es == v+".Err" || es == "P0.ErrOutOfGas" || f["A:"+es+"="+v+".Err"] || f["A:"+es+"=P0.ErrOutOfGas"]
				if !ok || errNil {
					addRet(ord, "R4.4", fmt.Sprintf("join point result %s reported an error but the frame returns `%s` on the path %s", v, es, shortFacts(f)))
				}
			}
			// R5.3 (exit side): the interpreter ran with join points on => the post site was crossed
			if f["run"] && f["L:evm.IsExecuteJP=T"] && !f["post"] {
				addRet(ord, "R5.3", "a path runs the callee with join points enabled and returns without crossing the post-call join point")
			}
			// R6.1 (exit side): after the post site the returned gas is what the post join point left (or zeroed)
			if f["post"] && !errNil || f["post"] && errNil {
				seenRet(ord, "R6.1")
				var postVar string
				for v, k := range res.jpVars {
					if k == "post" {
						postVar = v
					}
				}
				if !(f["A:"+gs+"="+postVar+".Gas"] || f.isEq(gs, "0") || gs == "0") {
					addRet(ord, "R6.1", fmt.Sprintf("after the post-call join point the frame returns gas `%s`, which is not the join point's leftover (%s.Gas) nor zero, on the path %s", gs, postVar, shortFacts(f)))
				}
			}
			return
		}
		for _, call := range callsIn(n) {
			switch {
			case fl.isStateDBCall(call, "CreateAccount"):
				key := "R4.2:" + rel + "/CreateAccount"
				siteV(key, call.Pos(), "")
				if !f["snap"] {
					siteV(key, call.Pos(), "CreateAccount can execute before the frame's snapshot is taken: a later revert would not undo it")
				}
			case fl.calleeIs(call, "Tracer", "TransferWithRecord") || isFieldCall(fl, call, "Transfer"):
				key := "R4.2:" + rel + "/transfer"
				siteV(key, call.Pos(), "")
				if !f["snap"] {
					siteV(key, call.Pos(), "the value transfer can execute before the frame's snapshot is taken: a later revert would not undo it")
				}
			case fl.isStateDBCall(call, "RevertToSnapshot"):
				key := "R4.1b:" + rel + "/revert-target"
				siteV(key, call.Pos(), "")
				if len(call.Args) != 1 || fl.canon(call.Args[0]) != snapVar || snapVar == "" {
					siteV(key, call.Pos(), "RevertToSnapshot is not called with the snapshot taken by this frame")
				}
			}
			if k := isJPCall(fl, call); k != "" {
				key := "R5.2:" + rel + "/" + k
				siteV(key, call.Pos(), "")
				for _, want := range res.jpGuards(fl) {
					if !f[want] {
						siteV(key, call.Pos(), "the "+k+"-call join point can fire on a path where `"+strings.TrimPrefix(want, "L:")+"` does not hold")
					}
				}
				okey := "R5.3:" + rel + "/" + k
				siteV(okey, call.Pos(), "")
				if k == "pre" && (f["run"] || f["pre"] || f["post"]) {
					siteV(okey, call.Pos(), "pre-call join point can fire after the callee ran or twice")
				}
				if k == "post" && (!f["run"] || f["post"]) {
					siteV(okey, call.Pos(), "post-call join point can fire before the callee ran or twice")
				}
				if v, failed := jpFailed(f); failed {
					siteV(okey, call.Pos(), "a join point fires although join point result "+v+" reported an error")
				}
				if k == "post" {
					// R6.1: the gas handed to the post join point is the callee's leftover
					gkey := "R6.1:" + rel + "/post-gas-arg"
					siteV(gkey, call.Pos(), "")
					frameVar := ncVar // the variable holding the frame that ran (assigned from NewContract on this path)
					if frameVar == "" {
						frameVar = "contract"
					}
					if g := jpGasArg(fl, call); g == "" || !f["A:"+g+"="+frameVar+".Gas"] {
						siteV(gkey, call.Pos(), "the gas passed to the post-call join point is not the callee's leftover (gas = "+frameVar+".Gas does not reach it)")
					}
				}
			}
			if fl.calleeIs(call, "EVMInterpreter", "Run") && rel == "(*EVM).Call" {
				// R6.1: the frame that runs is one built after the pre-call join point (so that it starts
				// with what the join point left), and it is the frame handed to the interpreter
				gkey := "R6.1:" + rel + "/callee-frame"
				siteV(gkey, call.Pos(), "")
				if !f["nc"] {
					siteV(gkey, call.Pos(), "the callee frame handed to the interpreter was constructed before the pre-call join point (or not on this path): gas consumed by the join point is not deducted from what the callee starts with")
				} else if len(call.Args) >= 2 && ncVar != "" && fl.canon(call.Args[1]) != ncVar {
					siteV(gkey, call.Pos(), "the frame handed to the interpreter (`"+fl.canon(call.Args[1])+"`) is not the one constructed with the join point's leftover gas (`"+ncVar+"`)")
				}
				key := "R5.3:" + rel + "/run"
				siteV(key, call.Pos(), "")
				if f["L:evm.IsExecuteJP=T"] && !f["pre"] {
					siteV(key, call.Pos(), "the callee can run with join points enabled without the pre-call join point having fired")
				}
				if v, failed := jpFailed(f); failed {
					siteV(key, call.Pos(), "the callee runs although pre-call join point result "+v+" reported an error")
				}
			}
			if fl.calleeIs(call, "", "NewContract") && rel == "(*EVM).Call" {
				// R6.1: the callee starts with what the pre join point left
				key := "R6.1:" + rel + "/callee-gas"
				siteV(key, call.Pos(), "")
				if f["pre"] {
					var preVar string
					for v, k := range res.jpVars {
						if k == "pre" {
							preVar = v
						}
					}
					g := ""
					if len(call.Args) == 4 {
						g = fl.canon(call.Args[3])
					}
					if !f["A:"+g+"="+preVar+".Gas"] {
						siteV(key, call.Pos(), "on a path through the pre-call join point the callee's gas `"+g+"` is not the join point's leftover ("+preVar+".Gas)")
					}
				}
			}
		}
	}
	rule.transfer = func(fl *Flow, f facts, n ast.Node) {
		for _, call := range callsIn(n) {
			switch {
			case fl.isStateDBCall(call, "Snapshot"):
				f["snap"] = true
				res.hasSnap = true
				if as, ok := n.(*ast.AssignStmt); ok && len(as.Lhs) == 1 {
					snapVar = fl.canon(as.Lhs[0])
				}
			case fl.isStateDBCall(call, "RevertToSnapshot"):
				f["rev"] = true
			case fl.calleeIs(call, "Contract", "UseGas"):
				// contract.UseGas(contract.Gas) burns everything
				if sel, ok := call.Fun.(*ast.SelectorExpr); ok && len(call.Args) == 1 {
					recv := fl.canon(sel.X)
					if fl.canon(call.Args[0]) == recv+".Gas" {
						f["A:"+recv+".Gas=0"] = true
					}
				}
			case fl.calleeIs(call, "EVMInterpreter", "Run"):
				f["run"] = true
			case fl.calleeIs(call, "", "NewContract"):
				f["nc"] = true
				if as, ok := n.(*ast.AssignStmt); ok && len(as.Lhs) == 1 {
					ncVar = fl.canon(as.Lhs[0])
				}
			}
			if k := isJPCall(fl, call); k != "" {
				f[k] = true
				if k == "pre" {
					delete(f, "nc") // a frame built before the join point carries the gas from before it
				}
			}
		}
	}
	fl.run(rule, facts{})
	res.states, res.paths = fl.States, fl.Paths
	return res
}

// jpGuards: the literals that must hold wherever a join point fires (R5.2): not a precompile,
// code non-empty, join points enabled. The variables are found by their definitions.
func (res *frameResult) jpGuards(fl *Flow) []string {
	var out []string
	ast.Inspect(fl.fd.Body, func(n ast.Node) bool {
		as, ok := n.(*ast.AssignStmt)
		if !ok || len(as.Rhs) != 1 {
			return true
		}
		call, ok := as.Rhs[0].(*ast.CallExpr)
		if !ok {
			return true
		}
		if fl.calleeIs(call, "EVM", "precompile") && len(as.Lhs) == 2 {
			out = append(out, "L:"+fl.canon(as.Lhs[1])+"=F")
		}
		if fl.isStateDBCall(call, "GetCode") && len(as.Lhs) == 1 {
			out = append(out, "L:len("+fl.canon(as.Lhs[0])+") == 0=F")
		}
		return true
	})
	out = append(out, "L:evm.IsExecuteJP=T")
	sort.Strings(out)
	return out
}

func jpGasArg(fl *Flow, call *ast.CallExpr) string {
	for _, a := range call.Args {
		if t := fl.info.TypeOf(a); t != nil && t.String() == "uint64" {
			return fl.canon(a)
		}
	}
	return ""
}

// isFieldCall: call through a func-typed struct field with the given name (evm.Context.Transfer(...)).
func isFieldCall(fl *Flow, call *ast.CallExpr, field string) bool {
	sel, ok := call.Fun.(*ast.SelectorExpr)
	if !ok || sel.Sel.Name != field {
		return false
	}
	if s, ok := fl.info.Selections[sel]; ok {
		if v, ok := s.Obj().(*types.Var); ok && v.IsField() {
			return true
		}
	}
	return false
}

func shortFacts(f facts) string {
	var ks []string
	for k := range f {
		if len(k) < 70 {
			ks = append(ks, k)
		}
	}
	sort.Strings(ks)
	if len(ks) > 14 {
		ks = ks[:14]
	}
	return "{" + strings.Join(ks, ", ") + "}"
}

// frameCache: analyse each frame function once per run.
func (w *World) frames() map[string]*frameResult {
	if w.frameCache == nil {
		w.frameCache = map[string]*frameResult{}
		for _, fn := range frameFuncs {
			if fr := w.analyseFrame(fn); fr != nil {
				w.frameCache[fn] = fr
			}
		}
	}
	return w.frameCache
}

// emitReturnRule writes one obligation per (function, return statement) for a return-site rule.
func emitReturnRule(w *World, r *Report, rule string, only func(fn string) bool) {
	frs := w.frames()
	for _, fn := range frameFuncs {
		fr := frs[fn]
		if fr == nil {
			r.undecided(rule, "vm."+fn, "-", "function not found: the rule's anchor does not resolve")
			continue
		}
		if only != nil && !only(fn) {
			continue
		}
		var ords []int
		for o := range fr.retPos {
			ords = append(ords, o)
		}
		sort.Ints(ords)
		for _, o := range ords {
			if !fr.retSeen[o][rule] && len(fr.retViol[o][rule]) == 0 {
				continue
			}
			key := fmt.Sprintf("vm.%s/return#%d", fn, o)
			if v := fr.retViol[o][rule]; len(v) > 0 {
				r.violated(rule, key, w.pos(fr.retPos[o]), strings.Join(v, " | "))
			} else {
				r.holds(rule, key, w.pos(fr.retPos[o]), fmt.Sprintf("all paths to this return satisfy the rule (%d path states explored in the function)", fr.states))
			}
		}
		r.Analysed["cfg_path_states"] += fr.states
		r.Analysed["cfg_functions"]++
	}
}

// emitSiteRule writes the site obligations whose key starts with prefix (e.g. "R4.2:").
func emitSiteRule(w *World, r *Report, rule string) {
	frs := w.frames()
	for _, fn := range frameFuncs {
		fr := frs[fn]
		if fr == nil {
			continue
		}
		var keys []string
		for k := range fr.siteOK {
			if strings.HasPrefix(k, rule+":") {
				keys = append(keys, k)
			}
		}
		sort.Strings(keys)
		for _, k := range keys {
			key := "vm." + strings.TrimPrefix(k, rule+":")
			if v := fr.site[k]; len(v) > 0 {
				r.violated(rule, key, w.pos(fr.siteOK[k]), strings.Join(v, " | "))
			} else {
				r.holds(rule, key, w.pos(fr.siteOK[k]), "holds on every path reaching the site")
			}
		}
	}
}
