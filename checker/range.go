package main

// E3 (part 2): bounds / resource obligations on go/ssa, discharged by entailment from
// dominating-guard facts (see lin.go). Machine arithmetic is respected: a+b / a-b / a*k is a
// linear term only when the facts at its definition prove that it cannot wrap; otherwise the
// result is a fresh symbol constrained only by its type range and later comparisons.

import (
	"fmt"
	"go/constant"
	"go/token"
	"go/types"
	"math/big"
	"sort"
	"strings"

	"golang.org/x/tools/go/ssa"
)

var maxU64 = new(big.Int).Sub(new(big.Int).Lsh(big.NewInt(1), 64), big.NewInt(1))
var maxInt = new(big.Int).Sub(new(big.Int).Lsh(big.NewInt(1), 63), big.NewInt(1))
var minInt = new(big.Int).Neg(new(big.Int).Lsh(big.NewInt(1), 63))

// ---- global environment (per run) ---------------------------------------------------

type rangeEnv struct {
	w          *World
	writers    map[string]map[*ssa.Function]bool // field id -> fork functions that (transitively) may store to it
	paramConst map[*ssa.Parameter][]int64         // constants passed at *all* static call sites (unexported, never used as a value)
	retLen     map[*ssa.Function]*int64          // constant length of the returned slice (result 0), nil = unknown
	fieldInv   map[string]int64                  // reviewed field invariants: len(field) >= n (verified inductively)
	retGE      map[*ssa.Function][]int           // relational return summaries: len(result 0) >= parameter k
	nilErrSum  map[*ssa.Function]*nilErrSummary  // facts a helper has established when it returns a nil error
	nilErrBusy map[*ssa.Function]bool
}

func fieldID(fa *ssa.FieldAddr) string {
	pt := fa.X.Type().Underlying().(*types.Pointer).Elem()
	st := pt.Underlying().(*types.Struct)
	return shortType(pt) + "." + st.Field(fa.Field).Name()
}

func lastField(v ssa.Value) string {
	if fa, ok := v.(*ssa.FieldAddr); ok {
		return fieldID(fa)
	}
	if ia, ok := v.(*ssa.IndexAddr); ok {
		return "elem:" + normType(ia.Type())
	}
	return "?"
}

func (w *World) forkFuncsAll() []*ssa.Function {
	var out []*ssa.Function
	var paths []string
	for p := range w.funcIdx {
		if strings.HasPrefix(p, forkMod) {
			paths = append(paths, p)
		}
	}
	sort.Strings(paths)
	for _, p := range paths {
		for _, fn := range w.Funcs(p) {
			out = append(out, withAnon(fn)...)
		}
	}
	return out
}

func (w *World) rangeEnv() *rangeEnv {
	if w.renv != nil {
		return w.renv
	}
	env := &rangeEnv{w: w, writers: map[string]map[*ssa.Function]bool{}, paramConst: map[*ssa.Parameter][]int64{}, retLen: map[*ssa.Function]*int64{},
		fieldInv: map[string]int64{"P3.callTracer.callstack": 1}}
	callers := map[*ssa.Function][]*ssa.Function{}
	type siteArgs struct {
		all   bool
		consts [][]int64
	}
	sites := map[*ssa.Function]int{}
	nonConst := map[*ssa.Parameter]bool{}
	paramFrom := map[*ssa.Parameter][]*ssa.Parameter{} // parameters handed on unchanged from a caller's parameter
	usedAsValue := map[*ssa.Function]bool{}
	all := w.forkFuncsAll()
	for _, fn := range all {
		for _, b := range fn.Blocks {
			for _, ins := range b.Instrs {
				switch x := ins.(type) {
				case *ssa.Store:
					f := lastField(x.Addr)
					if env.writers[f] == nil {
						env.writers[f] = map[*ssa.Function]bool{}
					}
					env.writers[f][fn] = true
				case *ssa.MapUpdate:
					// pseudo-field "#mapnil": functions that may make a map cell nil again (nil stored, or delete)
					if k, ok := x.Value.(*ssa.Const); ok && k.Value == nil && nilableType(x.Value.Type()) {
						if env.writers["#mapnil"] == nil {
							env.writers["#mapnil"] = map[*ssa.Function]bool{}
						}
						env.writers["#mapnil"][fn] = true
					}
				}
				if ci, ok := ins.(ssa.CallInstruction); ok {
					if bi, ok := ci.Common().Value.(*ssa.Builtin); ok && (bi.Name() == "delete" || bi.Name() == "clear") {
						if env.writers["#mapnil"] == nil {
							env.writers["#mapnil"] = map[*ssa.Function]bool{}
						}
						env.writers["#mapnil"][fn] = true
					}
					if c := ci.Common().StaticCallee(); c != nil {
						callers[c] = append(callers[c], fn)
						if isForkPkg(c.Pkg) {
							sites[c]++
							for i, arg := range ci.Common().Args {
								if i >= len(c.Params) {
									break
								}
								if k, ok := arg.(*ssa.Const); ok && k.Value != nil && k.Value.Kind() == constant.Int {
									if n, ok := constant.Int64Val(k.Value); ok {
										env.paramConst[c.Params[i]] = append(env.paramConst[c.Params[i]], n)
										continue
									}
								}
								if q, isParam := arg.(*ssa.Parameter); isParam && q.Parent() == fn {
									paramFrom[c.Params[i]] = append(paramFrom[c.Params[i]], q)
									continue
								}
								nonConst[c.Params[i]] = true
							}
						}
					}
				}
				// function used as a value (stored, passed): its parameters can be anything
				var rands []*ssa.Value
				for _, r := range ins.Operands(rands) {
					if f, ok := (*r).(*ssa.Function); ok {
						if ci, isCall := ins.(ssa.CallInstruction); isCall && ci.Common().Value == f {
							continue
						}
						usedAsValue[f] = true
					}
				}
			}
		}
	}
	for p := range env.paramConst {
		fn := p.Parent()
		if nonConst[p] || usedAsValue[fn] || (fn.Object() != nil && fn.Object().Exported()) || sites[fn] == 0 {
			delete(env.paramConst, p)
		}
	}
	// a parameter that only ever receives constants or such parameters of its callers takes their constants
	resolved := map[*ssa.Parameter]bool{}
	for round := 0; round < 3; round++ {
		for p, srcs := range paramFrom {
			fn := p.Parent()
			if nonConst[p] || usedAsValue[fn] || (fn.Object() != nil && fn.Object().Exported()) {
				continue
			}
			var cs []int64
			ok := true
			for _, q := range srcs {
				qc, has := env.paramConst[q]
				if !has || len(qc) == 0 || (len(paramFrom[q]) > 0 && !resolved[q]) {
					ok = false
					break
				}
				cs = append(cs, qc...)
			}
			resolved[p] = ok
			if ok {
				seen := map[int64]bool{}
				merged := append([]int64{}, cs...)
				for _, c := range env.paramConst[p] {
					merged = append(merged, c)
				}
				var out []int64
				for _, c := range merged {
					if !seen[c] {
						seen[c] = true
						out = append(out, c)
					}
				}
				env.paramConst[p] = out
			}
		}
	}
	// a parameter fed by a caller's parameter whose values are not known can hold anything
	for p := range paramFrom {
		if !resolved[p] {
			delete(env.paramConst, p)
		}
	}
	for _, ws := range env.writers {
		var st []*ssa.Function
		for f := range ws {
			st = append(st, f)
		}
		for len(st) > 0 {
			f := st[len(st)-1]
			st = st[:len(st)-1]
			for _, c := range callers[f] {
				if !ws[c] {
					ws[c] = true
					st = append(st, c)
				}
			}
			if p := f.Parent(); p != nil && !ws[p] {
				ws[p] = true
				st = append(st, p)
			}
		}
	}
	w.renv = env
	return env
}

// ---- per-function analysis -----------------------------------------------------------

type ranger struct {
	env     *rangeEnv
	w       *World
	fn      *ssa.Function
	facts   map[*ssa.BasicBlock][]cons
	memo    map[ssa.Value]lin
	intr    []cons
	seen    map[string]bool
	loadRep map[*ssa.UnOp]*ssa.UnOp
	loadFwd map[*ssa.UnOp]ssa.Value
	keyMemo map[ssa.Value]string
	reach   map[*ssa.BasicBlock]map[*ssa.BasicBlock]bool
	undecided bool
}

func (env *rangeEnv) analyse(fn *ssa.Function) *ranger {
	a := &ranger{env: env, w: env.w, fn: fn, memo: map[ssa.Value]lin{}, seen: map[string]bool{}, keyMemo: map[ssa.Value]string{}}
	a.computeReach()
	a.numberLoads()
	a.collectFacts()
	// second pass so that linearisation inside condition facts can use earlier facts
	a.memo = map[ssa.Value]lin{}
	a.keyMemo = map[ssa.Value]string{}
	a.numberLoads()
	a.collectFacts()
	if a.sortLessFacts() {
		a.memo = map[ssa.Value]lin{}
	}
	if pre, ok := assumedPre[normPath(fn.String())]; ok {
		pre.add(a)
		a.memo = map[ssa.Value]lin{}
	}
	return a
}

// immutableFreeVar: the variable captured as fv is stored exactly once in the enclosing function (its
// definition) and never through any closure that captures it.
var immFreeVarMemo = map[*ssa.FreeVar]bool{}
var immFreeVarInit = map[*ssa.FreeVar]ssa.Value{} // the value the captured variable was defined with

func immutableFreeVar(fv *ssa.FreeVar) bool {
	if r, ok := immFreeVarMemo[fv]; ok {
		return r
	}
	res := false
	defer func() { immFreeVarMemo[fv] = res }()
	cl := fv.Parent()
	parent := cl.Parent()
	if parent == nil {
		return false
	}
	idx := -1
	for i, f := range cl.FreeVars {
		if f == fv {
			idx = i
		}
	}
	var cell ssa.Value
	for _, b := range parent.Blocks {
		for _, ins := range b.Instrs {
			if mc, ok := ins.(*ssa.MakeClosure); ok && mc.Fn == ssa.Value(cl) && idx >= 0 && idx < len(mc.Bindings) {
				if cell != nil && cell != mc.Bindings[idx] {
					return false
				}
				cell = mc.Bindings[idx]
			}
		}
	}
	al, ok := cell.(*ssa.Alloc)
	if !ok {
		return false
	}
	stores := 0
	for _, r := range *al.Referrers() {
		switch x := r.(type) {
		case *ssa.Store:
			if x.Addr == ssa.Value(al) {
				stores++
				immFreeVarInit[fv] = x.Val
			} else {
				return false // the cell's address is stored somewhere
			}
		case *ssa.UnOp, *ssa.DebugRef:
		case *ssa.MakeClosure:
			// every closure sharing the cell must only load it
			g, _ := x.Fn.(*ssa.Function)
			if g == nil {
				return false
			}
			for i, bnd := range x.Bindings {
				if bnd != ssa.Value(al) || i >= len(g.FreeVars) {
					continue
				}
				for _, r2 := range *g.FreeVars[i].Referrers() {
					switch y := r2.(type) {
					case *ssa.UnOp, *ssa.DebugRef:
					case *ssa.MakeClosure:
						return false // captured again one level down: not followed
					default:
						_ = y
						return false
					}
				}
			}
		default:
			return false
		}
	}
	res = stores == 1
	return res
}

func (a *ranger) valueKey(v ssa.Value) string {
	if k, ok := a.keyMemo[v]; ok {
		return k
	}
	var k string
	switch x := v.(type) {
	case *ssa.UnOp:
		if fv, isFv := x.X.(*ssa.FreeVar); isFv && x.Op == token.MUL && immutableFreeVar(fv) {
			// a captured variable that is assigned once, where it is declared: every load yields the same value
			k = "captured(" + fv.Name() + ")"
			a.keyMemo[v] = k
			return k
		}
		if x.Op == token.MUL {
			rep := a.loadRep[x]
			if fw := a.loadFwd[x]; fw != nil {
				k = a.valueKey(fw)
			} else if rep != nil && rep != x {
				k = a.valueKey(rep)
			} else {
				k = "load(" + a.addrKey(x.X) + ")@" + x.Name()
			}
		} else {
			k = x.Name()
		}
	case *ssa.FieldAddr, *ssa.IndexAddr:
		k = a.addrKey(v)
	case *ssa.ChangeType:
		k = a.valueKey(x.X)
	default:
		k = v.Name()
	}
	a.keyMemo[v] = k
	return k
}

func (a *ranger) addrKey(v ssa.Value) string {
	switch x := v.(type) {
	case *ssa.FieldAddr:
		return a.valueKey(x.X) + "->" + fieldID(x)
	case *ssa.IndexAddr:
		return a.valueKey(x.X) + "[" + a.lin(x.Index, x.Block()).String() + "]"
	}
	return v.Name()
}

func (a *ranger) addrShape(v ssa.Value) string {
	switch x := v.(type) {
	case *ssa.FieldAddr:
		return a.valShape(x.X) + "->" + fieldID(x)
	case *ssa.IndexAddr:
		return a.valShape(x.X) + "[" + a.lin(x.Index, x.Block()).String() + "]"
	}
	return v.Name()
}

func (a *ranger) valShape(v ssa.Value) string {
	if u, ok := v.(*ssa.UnOp); ok && u.Op == token.MUL {
		if fv, isFv := u.X.(*ssa.FreeVar); isFv && immutableFreeVar(fv) {
			return "captured(" + fv.Name() + ")"
		}
		if fw := a.loadFwd[u]; fw != nil {
			return a.valShape(fw)
		}
		if rep := a.loadRep[u]; rep != nil {
			return "L:" + rep.Name()
		}
		return "L:" + u.Name()
	}
	switch v.(type) {
	case *ssa.FieldAddr, *ssa.IndexAddr:
		return a.addrShape(v)
	}
	return v.Name()
}

func (a *ranger) computeReach() {
	a.reach = map[*ssa.BasicBlock]map[*ssa.BasicBlock]bool{}
	for _, b := range a.fn.Blocks {
		m := map[*ssa.BasicBlock]bool{}
		st := append([]*ssa.BasicBlock{}, b.Succs...)
		for len(st) > 0 {
			x := st[len(st)-1]
			st = st[:len(st)-1]
			if m[x] {
				continue
			}
			m[x] = true
			st = append(st, x.Succs...)
		}
		a.reach[b] = m
	}
}

func (a *ranger) clobbers(ins ssa.Instruction, fld string) bool {
	switch x := ins.(type) {
	case *ssa.Store:
		return lastField(x.Addr) == fld
	case ssa.CallInstruction:
		if callee := x.Common().StaticCallee(); callee != nil {
			if !isForkPkg(callee.Pkg) && callee.Parent() == nil {
				return false // external code cannot store to the fork's unexported fields/types (reviewed assumption)
			}
			return a.env.writers[fld][callee]
		}
		if x.Common().IsInvoke() {
			// interface call: may re-enter the fork only through StateDB/host callbacks, which do not hold recorder/tracer state
			return false
		}
		if _, ok := x.Common().Value.(*ssa.Builtin); ok {
			return false
		}
		return true // dynamic call through a value
	}
	return false
}

func (a *ranger) clobberedBetween(l1, l2 ssa.Instruction, fld string) bool {
	b1, b2 := l1.Block(), l2.Block()
	idx := func(b *ssa.BasicBlock, i ssa.Instruction) int {
		for k, x := range b.Instrs {
			if x == i {
				return k
			}
		}
		return -1
	}
	scan := func(b *ssa.BasicBlock, from, to int) bool {
		for k := from; k < to; k++ {
			if a.clobbers(b.Instrs[k], fld) {
				return true
			}
		}
		return false
	}
	if b1 == b2 && !a.reach[b1][b1] {
		return scan(b1, idx(b1, l1)+1, idx(b2, l2))
	}
	for _, b := range a.fn.Blocks {
		on := (b == b1 || a.reach[b1][b]) && (b == b2 || a.reach[b][b2])
		if !on {
			continue
		}
		from, to := 0, len(b.Instrs)
		if b == b1 && !a.reach[b1][b1] {
			from = idx(b1, l1) + 1
		}
		if b == b2 && !a.reach[b2][b2] {
			to = idx(b2, l2)
		}
		if scan(b, from, to) {
			return true
		}
	}
	return false
}

func (a *ranger) numberLoads() {
	a.loadRep = map[*ssa.UnOp]*ssa.UnOp{}
	a.loadFwd = map[*ssa.UnOp]ssa.Value{}
	byShape := map[string][]*ssa.UnOp{}
	storesByShape := map[string][]*ssa.Store{}
	for _, b := range a.fn.DomPreorder() {
		for _, ins := range b.Instrs {
			if st, ok := ins.(*ssa.Store); ok {
				switch st.Addr.(type) {
				case *ssa.FieldAddr, *ssa.IndexAddr:
					sh := a.addrShape(st.Addr)
					storesByShape[sh] = append(storesByShape[sh], st)
				}
				continue
			}
			u, ok := ins.(*ssa.UnOp)
			if !ok || u.Op != token.MUL {
				continue
			}
			switch u.X.(type) {
			case *ssa.FieldAddr, *ssa.IndexAddr:
			default:
				continue
			}
			sh := a.addrShape(u.X)
			fld := lastField(u.X)
			var rep *ssa.UnOp
			for _, c := range byShape[sh] {
				if c.Block().Dominates(u.Block()) && !a.clobberedBetween(c, u, fld) {
					rep = c
					break
				}
			}
			var fw *ssa.Store
			for _, st := range storesByShape[sh] {
				if (st.Block() == u.Block() || st.Block().Dominates(u.Block())) && !a.clobberedBetween(st, u, fld) {
					fw = st
				}
			}
			if fw != nil {
				a.loadFwd[u] = fw.Val
				a.loadRep[u] = u
				continue
			}
			if rep != nil {
				a.loadRep[u] = rep
			} else {
				a.loadRep[u] = u
				byShape[sh] = append(byShape[sh], u)
			}
		}
	}
}

func isUnsigned(t types.Type) bool {
	b, ok := t.Underlying().(*types.Basic)
	return ok && b.Info()&types.IsUnsigned != 0
}
func isIntT(t types.Type) bool {
	b, ok := t.Underlying().(*types.Basic)
	return ok && b.Info()&types.IsInteger != 0
}

func typeRange(t types.Type) (*big.Int, *big.Int) {
	b, ok := t.Underlying().(*types.Basic)
	if !ok {
		return minInt, maxInt
	}
	switch b.Kind() {
	case types.Uint64, types.Uint, types.Uintptr:
		return big.NewInt(0), maxU64
	case types.Uint32:
		return big.NewInt(0), big.NewInt(1<<32 - 1)
	case types.Uint16:
		return big.NewInt(0), big.NewInt(1<<16 - 1)
	case types.Uint8:
		return big.NewInt(0), big.NewInt(255)
	case types.Int8:
		return big.NewInt(-128), big.NewInt(127)
	case types.Int16:
		return big.NewInt(-1 << 15), big.NewInt(1<<15 - 1)
	case types.Int32:
		return big.NewInt(-1 << 31), big.NewInt(1<<31 - 1)
	}
	return minInt, maxInt
}

func (a *ranger) symFor(v ssa.Value, name string) lin {
	if !a.seen[name] {
		a.seen[name] = true
		switch {
		case strings.HasPrefix(name, "len(") || strings.HasPrefix(name, "cap("):
			a.intr = append(a.intr, sym(name).scale(big.NewRat(-1, 1)), le(sym(name), konst(maxInt)))
		case v != nil && isIntT(v.Type()):
			lo, hi := typeRange(v.Type())
			a.intr = append(a.intr, le(konst(lo), sym(name)), le(sym(name), konst(hi)))
		}
	}
	return sym(name)
}

func (a *ranger) proves(at *ssa.BasicBlock, goal lin) bool {
	cs := append(append([]cons{}, a.intr...), a.facts[at]...)
	ok, und := entails(cs, goal)
	if und {
		a.undecided = true
	}
	return ok
}

// lin linearises an integer value.
func (a *ranger) lin(v ssa.Value, at *ssa.BasicBlock) lin {
	if l, ok := a.memo[v]; ok {
		return l
	}
	var out lin
	name := a.fn.Name() + ":" + v.Name()
	switch x := v.(type) {
	case *ssa.Const:
		if x.Value != nil && x.Value.Kind() == constant.Int {
			bi, _ := new(big.Int).SetString(x.Value.ExactString(), 10)
			out = konst(bi)
		} else {
			out = a.symFor(v, name)
		}
	case *ssa.Call:
		if b, ok := x.Call.Value.(*ssa.Builtin); ok && (b.Name() == "len" || b.Name() == "cap") {
			if b.Name() == "len" {
				out = a.lenOf(x.Call.Args[0], at)
			} else {
				out = a.capOf(x.Call.Args[0], at)
			}
		} else if s, ok := a.callSummary(x, at); ok {
			out = s
		} else {
			out = a.symFor(v, name)
		}
	case *ssa.Convert:
		src := a.lin(x.X, at)
		if isIntT(x.Type()) && isIntT(x.X.Type()) {
			lo, hi := typeRange(x.Type())
			if a.proves(x.Block(), le(konst(lo), src)) && a.proves(x.Block(), le(src, konst(hi))) {
				out = src
				break
			}
		}
		out = a.symFor(v, name)
	case *ssa.ChangeType:
		out = a.lin(x.X, at)
	case *ssa.BinOp:
		if !isIntT(x.Type()) {
			out = a.symFor(v, name)
			break
		}
		l, r := a.lin(x.X, at), a.lin(x.Y, at)
		lo, hi := typeRange(x.Type())
		var cand lin
		ok := true
		switch x.Op {
		case token.ADD:
			cand = l.plus(r)
		case token.SUB:
			cand = l.minus(r)
		case token.MUL:
			if l.isConst() {
				cand = r.scale(l.k)
			} else if r.isConst() {
				cand = l.scale(r.k)
			} else {
				ok = false
			}
		default:
			ok = false
		}
		if ok && a.proves(x.Block(), le(konst(lo), cand)) && a.proves(x.Block(), le(cand, konst(hi))) {
			out = cand
		} else {
			out = a.symFor(v, name)
			// partial knowledge that survives wrap-around-free cases
			switch x.Op {
			case token.QUO:
				// unsigned division by a positive constant: 0 <= q <= l
				if r.isConst() && r.k.Sign() > 0 && a.proves(x.Block(), le(konst64(0), l)) {
					a.intr = append(a.intr, le(konst64(0), out), le(out, l))
				}
			case token.REM:
				if r.isConst() && r.k.Sign() > 0 && a.proves(x.Block(), le(konst64(0), l)) {
					a.intr = append(a.intr, le(konst64(0), out), lt(out, r))
				}
			case token.AND:
				// x & const: 0 <= result <= const
				if r.isConst() && r.k.Sign() >= 0 {
					a.intr = append(a.intr, le(konst64(0), out), le(out, r))
				}
			}
		}
	case *ssa.Phi:
		out = a.symFor(v, name)
		if len(x.Edges) >= 2 && isIntT(x.Type()) {
			var k *ssa.Const
			var bo *ssa.BinOp
			okp := true
			for _, e := range x.Edges {
				switch ev := e.(type) {
				case *ssa.Const:
					if k != nil && k != ev && (k.Value == nil || ev.Value == nil || k.Value.ExactString() != ev.Value.ExactString()) {
						okp = false
					}
					k = ev
				case *ssa.BinOp:
					if bo != nil && bo != ev {
						okp = false
					}
					bo = ev
				default:
					okp = false
				}
			}
			if okp && k != nil && bo != nil && bo.Op == token.ADD && bo.X == ssa.Value(x) {
				if st, ok := bo.Y.(*ssa.Const); ok && st.Value != nil && constant.Sign(st.Value) > 0 && k.Value != nil && k.Value.Kind() == constant.Int {
					kv, _ := new(big.Int).SetString(k.Value.ExactString(), 10)
					a.intr = append(a.intr, le(konst(kv), out)) // induction variable: phi >= init
					// rotated range loop: header ends in `if next < N` and the back edge comes from the
					// true side, so every non-initial value is < N <= maxInt: phi <= maxInt-1 and
					// next = phi+1 cannot wrap.
					hb := x.Block()
					if iff, ok := hb.Instrs[len(hb.Instrs)-1].(*ssa.If); ok && isIntT(bo.Y.Type()) {
						if cnd, ok := iff.Cond.(*ssa.BinOp); ok && cnd.Op == token.LSS && cnd.X == ssa.Value(bo) {
							back := true
							for j, e := range x.Edges {
								if e == ssa.Value(bo) && !(hb.Succs[0] == hb.Preds[j] || hb.Succs[0].Dominates(hb.Preds[j])) {
									back = false
								}
							}
							_, hiT := typeRange(x.Type())
							if back && kv.Cmp(hiT) < 0 {
								a.intr = append(a.intr, le(out, konst(new(big.Int).Sub(hiT, big.NewInt(1)))))
							}
						}
					}
				}
			}
		}
	case *ssa.Parameter:
		out = a.symFor(v, name)
		if cs, ok := a.env.paramConst[x]; ok && len(cs) > 0 {
			mn, mx := cs[0], cs[0]
			for _, c := range cs {
				if c < mn {
					mn = c
				}
				if c > mx {
					mx = c
				}
			}
			a.intr = append(a.intr, le(konst64(mn), out), le(out, konst64(mx)))
		}
	case *ssa.Extract:
		// range-loop index: Extract #1?? (go/ssa rotates integer range loops; slices use Next only for maps/strings)
		out = a.symFor(v, name)
	default:
		out = a.symFor(v, name)
	}
	a.memo[v] = out
	return out
}

// callSummary: integer-valued library/in-scope calls with a known linear meaning.
func (a *ranger) callSummary(c *ssa.Call, at *ssa.BasicBlock) (lin, bool) {
	f := c.Call.StaticCallee()
	if f == nil {
		return lin{}, false
	}
	switch normPath(f.String()) {
	case "(*P0.Memory).Len":
		// len(m.store)
		return a.symFor(nil, "len("+a.valueKey(c.Call.Args[0])+"->P0.Memory.store)"), true
	}
	return lin{}, false
}

// memLenSym: the symbol for len(m.store) of a *Memory value.
func (a *ranger) memLenSym(m ssa.Value) lin {
	return a.symFor(nil, "len("+a.valueKey(m)+"->P0.Memory.store)")
}

// lenSummary: constant lengths known from types and reviewed library summaries.
func (a *ranger) lenSummary(v ssa.Value) (int64, bool) {
	if s, ok := v.(*ssa.Slice); ok && s.Low == nil && s.High == nil {
		if p, ok := s.X.Type().Underlying().(*types.Pointer); ok {
			if arr, ok := p.Elem().Underlying().(*types.Array); ok {
				return arr.Len(), true
			}
		}
	}
	if c, ok := v.(*ssa.Call); ok {
		if f := c.Call.StaticCallee(); f != nil {
			switch normPath(f.String()) {
			case "(github.com/ethereum/go-ethereum/common.Hash).Bytes", "(github.com/ethereum/go-ethereum/common.Address).Hash":
				return 32, true
			case "(github.com/ethereum/go-ethereum/common.Address).Bytes":
				return 20, true
			}
			if isForkPkg(f.Pkg) || f.Parent() != nil {
				if n := a.env.returnLen(f); n != nil {
					return *n, true
				}
			}
		}
		// call of a closure value bound in this function
		if mc, ok := c.Call.Value.(*ssa.MakeClosure); ok {
			if n := a.env.returnLen(mc.Fn.(*ssa.Function)); n != nil {
				return *n, true
			}
		}
	}
	return 0, false
}

// returnLen: the function returns (as result 0) a slice of one constant length on every path.
func (env *rangeEnv) returnLen(f *ssa.Function) *int64 {
	if n, ok := env.retLen[f]; ok {
		return n
	}
	env.retLen[f] = nil // cycle guard
	if len(f.Blocks) == 0 {
		return nil
	}
	sub := env.analyse(f)
	var res *int64
	for _, b := range f.Blocks {
		ret, ok := b.Instrs[len(b.Instrs)-1].(*ssa.Return)
		if !ok || len(ret.Results) == 0 {
			continue
		}
		if _, isSlice := ret.Results[0].Type().Underlying().(*types.Slice); !isSlice {
			return nil
		}
		l := sub.lenOf(ret.Results[0], b)
		if !l.isConst() || !l.k.IsInt() {
			return nil
		}
		n := l.k.Num().Int64()
		if res != nil && *res != n {
			return nil
		}
		res = &n
	}
	env.retLen[f] = res
	return res
}

// retLenAtLeast: indices of the integer parameters p of f such that every return of f hands back (as
// result 0) a slice with len >= p — e.g. a helper that collects words "until at least n bytes are there".
func (env *rangeEnv) retLenAtLeast(f *ssa.Function) []int {
	if v, ok := env.retGE[f]; ok {
		return v
	}
	if env.retGE == nil {
		env.retGE = map[*ssa.Function][]int{}
	}
	env.retGE[f] = nil // cycle guard
	if len(f.Blocks) == 0 || f.Signature.Results().Len() == 0 || !isSliceT(f.Signature.Results().At(0).Type()) {
		return nil
	}
	sub := env.analyse(f)
	var out []int
	for k, p := range f.Params {
		if !isIntT(p.Type()) {
			continue
		}
		all, n := true, 0
		for _, b := range f.Blocks {
			ret, ok := b.Instrs[len(b.Instrs)-1].(*ssa.Return)
			if !ok || len(ret.Results) == 0 {
				continue
			}
			n++
			if !sub.provesSplit(b, le(sub.lin(p, b), sub.lenOf(ret.Results[0], b))) {
				all = false
			}
		}
		if all && n > 0 {
			out = append(out, k)
		}
	}
	env.retGE[f] = out
	return out
}

// retLenExactly: the index of the integer parameter p of f such that every return of f hands back, as its
// first result, a slice cut to exactly p elements (`x[:p]`, which panics rather than returning when x is
// shorter); -1 when there is none.
func retLenExactly(f *ssa.Function) int {
	out := -1
	for _, b := range f.Blocks {
		ret, ok := b.Instrs[len(b.Instrs)-1].(*ssa.Return)
		if !ok {
			continue
		}
		if len(ret.Results) == 0 {
			return -1
		}
		sl, ok := ret.Results[0].(*ssa.Slice)
		if !ok || sl.High == nil || !isSliceT(sl.X.Type()) {
			return -1
		}
		if sl.Low != nil {
			if k, isC := sl.Low.(*ssa.Const); !isC || k.Value == nil || k.Value.String() != "0" {
				return -1
			}
		}
		hi := sl.High
		if cv, isConv := hi.(*ssa.Convert); isConv {
			hi = cv.X // a widening or same-size conversion of the parameter; a lossy one would have changed the cut
			if !isIntT(hi.Type()) {
				return -1
			}
		}
		p, ok := hi.(*ssa.Parameter)
		if !ok {
			return -1
		}
		k := -1
		for i, q := range f.Params {
			if q == p {
				k = i
			}
		}
		if k < 0 || (out >= 0 && out != k) {
			return -1
		}
		out = k
	}
	return out
}

// lenOf: linear expression for len(v).
func (a *ranger) lenOf(v ssa.Value, at *ssa.BasicBlock) lin {
	if u, ok := v.(*ssa.UnOp); ok && u.Op == token.MUL {
		if fw := a.loadFwd[u]; fw != nil {
			return a.lenOf(fw, at)
		}
	}
	if c, ok := a.lenSummary(v); ok {
		return konst64(c)
	}
	switch x := v.(type) {
	case *ssa.Slice:
		if _, isStr := x.X.Type().Underlying().(*types.Basic); isStr || isSliceT(x.X.Type()) || isPtrToArray(x.X.Type()) {
			lo := konst64(0)
			if x.Low != nil {
				lo = a.lin(x.Low, at)
			}
			var hi lin
			if x.High != nil {
				hi = a.lin(x.High, at)
			} else if isPtrToArray(x.X.Type()) {
				hi = konst64(x.X.Type().Underlying().(*types.Pointer).Elem().Underlying().(*types.Array).Len())
			} else {
				hi = a.lenOf(x.X, at)
			}
			return hi.minus(lo)
		}
	case *ssa.MakeSlice:
		return a.lin(x.Len, at)
	case *ssa.ChangeType:
		return a.lenOf(x.X, at)
	case *ssa.Convert:
		// []byte(string) / string([]byte) keep the length
		return a.lenOf(x.X, at)
	case *ssa.Const:
		if x.Value == nil {
			return konst64(0) // nil slice
		}
		if x.Value.Kind() == constant.String {
			return konst64(int64(len(constant.StringVal(x.Value))))
		}
	case *ssa.Call:
		if b, ok := x.Call.Value.(*ssa.Builtin); ok && b.Name() == "append" && len(x.Call.Args) == 2 {
			// len(append(s, t...)) = len(s) + len(t)
			return a.lenOf(x.Call.Args[0], at).plus(a.lenOf(x.Call.Args[1], at))
		}
		if f := x.Call.StaticCallee(); f != nil {
			switch normPath(f.String()) {
			case "github.com/ethereum/go-ethereum/common.CopyBytes":
				return a.lenOf(x.Call.Args[0], at)
			}
		}
	}
	key := a.valueKey(v)
	ln := a.symFor(nil, "len("+key+")")
	// result of a fork helper whose every return is at least as long as one of its integer arguments
	if c, ok := v.(*ssa.Call); ok {
		if f := c.Call.StaticCallee(); f != nil && isForkPkg(f.Pkg) && f.Blocks != nil {
			for _, k := range a.env.retLenAtLeast(f) {
				if k < len(c.Call.Args) {
					a.intr = append(a.intr, le(a.lin(c.Call.Args[k], at), ln))
				}
			}
			if k := retLenExactly(f); k >= 0 && k < len(c.Call.Args) {
				a.intr = append(a.intr, le(ln, a.lin(c.Call.Args[k], at)), le(a.lin(c.Call.Args[k], at), ln))
			}
		}
	}
	if u, ok := v.(*ssa.UnOp); ok && u.Op == token.MUL {
		if fa, ok := u.X.(*ssa.FieldAddr); ok {
			if n, ok := a.env.fieldInv[fieldID(fa)]; ok {
				a.intr = append(a.intr, le(konst64(n), ln)) // reviewed field invariant, verified inductively (R19.0)
			}
		}
	}
	return ln
}

// capOf: cap(v) >= len(v); exact for whole-array slices and fresh makes.
func (a *ranger) capOf(v ssa.Value, at *ssa.BasicBlock) lin {
	if c, ok := a.lenSummary(v); ok {
		if s, ok := v.(*ssa.Slice); ok && s.Low == nil && s.High == nil {
			return konst64(c)
		}
	}
	cp := a.symFor(nil, "cap("+a.valueKey(v)+")")
	a.intr = append(a.intr, le(a.lenOf(v, at), cp))
	return cp
}

func isSliceT(t types.Type) bool {
	_, ok := t.Underlying().(*types.Slice)
	return ok
}
func isPtrToArray(t types.Type) bool {
	if p, ok := t.Underlying().(*types.Pointer); ok {
		_, ok := p.Elem().Underlying().(*types.Array)
		return ok
	}
	return false
}

func (a *ranger) collectFacts() {
	a.facts = map[*ssa.BasicBlock][]cons{}
	for _, b := range a.fn.DomPreorder() {
		var fs []cons
		if idom := b.Idom(); idom != nil {
			fs = append(fs, a.facts[idom]...)
			if len(b.Preds) == 1 {
				p := b.Preds[0]
				if iff, ok := p.Instrs[len(p.Instrs)-1].(*ssa.If); ok && p.Succs[0] != p.Succs[1] {
					pol := p.Succs[0] == b
					fs = append(fs, a.condFacts(iff.Cond, pol, p)...)
				}
			}
		}
		a.facts[b] = fs
		// facts from instructions of this block that hold for the rest of it and all dominated blocks:
		// comma-ok results of Uint64WithOverflow / IsUint64 are handled through condFacts on the Extract.
	}
}

func (a *ranger) condFacts(c ssa.Value, pol bool, at *ssa.BasicBlock) []cons {
	switch x := c.(type) {
	case *ssa.UnOp:
		if x.Op == token.NOT {
			return a.condFacts(x.X, !pol, at)
		}
	case *ssa.BinOp:
		if !isIntT(x.X.Type()) {
			// err == nil for the error a fork helper returned: what the helper has established on its nil-error return
			if (x.Op == token.EQL) == pol && (x.Op == token.EQL || x.Op == token.NEQ) {
				v := x.X
				if k, ok := v.(*ssa.Const); ok && k.IsNil() {
					v = x.Y
				} else if k, ok := x.Y.(*ssa.Const); !ok || !k.IsNil() {
					return nil
				}
				return a.nilErrorFacts(v, at)
			}
			return nil
		}
		l, r := a.lin(x.X, at), a.lin(x.Y, at)
		op := x.Op
		if !pol {
			switch op {
			case token.LSS:
				op = token.GEQ
			case token.LEQ:
				op = token.GTR
			case token.GTR:
				op = token.LEQ
			case token.GEQ:
				op = token.LSS
			case token.EQL:
				op = token.NEQ
			case token.NEQ:
				op = token.EQL
			}
		}
		switch op {
		case token.LSS:
			return []cons{lt(l, r)}
		case token.LEQ:
			return []cons{le(l, r)}
		case token.GTR:
			return []cons{lt(r, l)}
		case token.GEQ:
			return []cons{le(r, l)}
		case token.EQL:
			return []cons{le(l, r), le(r, l)}
		case token.NEQ:
			// x != 0 for x known to be >= 0 (unsigned, or a length)  =>  x >= 1
			if r.isConst() && r.k.Sign() == 0 && (isUnsigned(x.X.Type()) || a.proves(at, le(konst64(0), l))) {
				return []cons{le(konst64(1), l)}
			}
			if l.isConst() && l.k.Sign() == 0 && (isUnsigned(x.X.Type()) || a.proves(at, le(konst64(0), r))) {
				return []cons{le(konst64(1), r)}
			}
		}
	}
	return nil
}

// nilErrorFacts: v is the error result of a call of a fork helper; returns the helper's facts at its single
// nil-error return that speak about its parameters only (their values, lengths and capacities),
// instantiated with the arguments of this call.
func (a *ranger) nilErrorFacts(v ssa.Value, at *ssa.BasicBlock) []cons {
	var call *ssa.Call
	switch x := v.(type) {
	case *ssa.Call:
		call = x
	case *ssa.Extract:
		c, ok := x.Tuple.(*ssa.Call)
		if !ok || x.Index != c.Type().(*types.Tuple).Len()-1 {
			return nil
		}
		call = c
	default:
		return nil
	}
	f := call.Call.StaticCallee()
	if f == nil || !isForkPkg(f.Pkg) || f.Blocks == nil || len(call.Call.Args) != len(f.Params) || f == a.fn {
		return nil
	}
	if a.env.nilErrBusy == nil {
		a.env.nilErrBusy = map[*ssa.Function]bool{}
		a.env.nilErrSum = map[*ssa.Function]*nilErrSummary{}
	}
	sum, done := a.env.nilErrSum[f]
	if !done {
		if a.env.nilErrBusy[f] {
			return nil
		}
		a.env.nilErrBusy[f] = true
		sum = a.env.computeNilErrSummary(f)
		a.env.nilErrSum[f] = sum
		delete(a.env.nilErrBusy, f)
	}
	if sum == nil {
		return nil
	}
	repl := map[string]lin{}
	for i, p := range f.Params {
		arg := call.Call.Args[i]
		if isIntT(p.Type()) {
			repl[f.Name()+":"+p.Name()] = a.lin(arg, at)
		}
		if isSliceT(p.Type()) || isStringT(p.Type()) {
			repl["len("+p.Name()+")"] = a.lenOf(arg, at)
		}
		if isSliceT(p.Type()) {
			repl["cap("+p.Name()+")"] = a.capOf(arg, at)
		}
	}
	var out []cons
	for _, c := range sum.facts {
		inst := konst64(0)
		inst.k.Set(c.k)
		ok := true
		for s, coef := range c.c {
			r, has := repl[s]
			if !has {
				ok = false
				break
			}
			inst = inst.plus(r.scale(coef))
		}
		if ok {
			out = append(out, inst)
		}
	}
	return out
}

type nilErrSummary struct{ facts []cons }

func isStringT(t types.Type) bool {
	b, ok := t.Underlying().(*types.Basic)
	return ok && b.Info()&types.IsString != 0
}

func (env *rangeEnv) computeNilErrSummary(f *ssa.Function) *nilErrSummary {
	res := f.Signature.Results()
	if res.Len() == 0 || !types.Identical(res.At(res.Len()-1).Type(), types.Universe.Lookup("error").Type()) {
		return nil
	}
	var nilRet *ssa.BasicBlock
	for _, b := range f.Blocks {
		ret, ok := b.Instrs[len(b.Instrs)-1].(*ssa.Return)
		if !ok {
			continue
		}
		if k, isConst := ret.Results[len(ret.Results)-1].(*ssa.Const); isConst && k.IsNil() {
			if nilRet != nil {
				return nil // several successful exits: no single set of facts (not needed so far)
			}
			nilRet = b
		} else if !isConst {
			// an error value that may be nil at run time: the successful exits are not syntactically known
			if c, isCall := ret.Results[len(ret.Results)-1].(*ssa.Call); !isCall || c.Call.StaticCallee() == nil || (c.Call.StaticCallee().Name() != "New" && c.Call.StaticCallee().Name() != "Errorf") {
				return nil
			}
		}
	}
	if nilRet == nil {
		return nil
	}
	ar := env.analyse(f)
	params := map[string]bool{}
	for _, p := range f.Params {
		params[f.Name()+":"+p.Name()] = true
		params["len("+p.Name()+")"] = true
		params["cap("+p.Name()+")"] = true
	}
	sum := &nilErrSummary{}
	for _, c := range ar.facts[nilRet] {
		ok := len(c.c) > 0
		for s := range c.c {
			if !params[s] {
				ok = false
			}
		}
		if ok {
			sum.facts = append(sum.facts, c)
		}
	}
	return sum
}

// ---- obligations -------------------------------------------------------------------------

type rangeObl struct {
	Fn    string
	Kind  string // index, slice, make, call-pre, conv, loop
	Key   string // construct key within the function
	What  string // the inequality in words
	Goal  lin
	Block *ssa.BasicBlock
	Pos   token.Pos
	Status Status
	Refuted bool
	Facts  int
	Resource bool // a resource (R20) obligation rather than a crash (R3) one
}

func relName(fn *ssa.Function) string {
	if fn.Parent() != nil {
		return relName(fn.Parent()) + "$" + strings.TrimPrefix(fn.Name(), fn.Parent().Name()+"$")
	}
	if fn.Pkg == nil {
		return fn.String()
	}
	return pkgShortOf(fn.Pkg.Pkg.Path()) + "." + fn.RelString(fn.Pkg.Pkg)
}

// memPre: summarised preconditions of Memory accessors (the callee slices m.store[o:o+n] / makes n bytes).
var memPre = map[string]bool{"(*P0.Memory).GetCopy": true, "(*P0.Memory).GetPtr": true}

func (a *ranger) obligations() []*rangeObl {
	var out []*rangeObl
	fnName := relName(a.fn)
	ord := map[string]int{}
	add := func(kind string, ins ssa.Instruction, b *ssa.BasicBlock, sub, what string, goal lin, resource bool) {
		o := &rangeObl{Fn: fnName, Kind: kind, Key: fmt.Sprintf("%s/%s#%d/%s", fnName, kind, ord[kind], sub), What: what, Goal: goal, Block: b, Pos: ins.Pos(), Resource: resource}
		if !o.Pos.IsValid() {
			o.Pos = a.fn.Pos()
		}
		out = append(out, o)
	}
	zero := konst64(0)
	for _, b := range a.fn.DomPreorder() {
		for _, ins := range b.Instrs {
			switch x := ins.(type) {
			case *ssa.IndexAddr:
				ord["index"]++
				var ln lin
				if isPtrToArray(x.X.Type()) {
					ln = konst64(x.X.Type().Underlying().(*types.Pointer).Elem().Underlying().(*types.Array).Len())
				} else {
					ln = a.lenOf(x.X, b)
				}
				i := a.lin(x.Index, b)
				add("index", ins, b, "0<=i", "0 <= "+i.String(), le(zero, i), false)
				add("index", ins, b, "i<len", i.String()+" < "+ln.String(), lt(i, ln), false)
			case *ssa.Index:
				if _, isArr := x.X.Type().Underlying().(*types.Array); isArr {
					ord["index"]++
					ln := konst64(x.X.Type().Underlying().(*types.Array).Len())
					i := a.lin(x.Index, b)
					add("index", ins, b, "0<=i", "0 <= "+i.String(), le(zero, i), false)
					add("index", ins, b, "i<len", i.String()+" < "+ln.String(), lt(i, ln), false)
				}
			case *ssa.Slice:
				if x.Low == nil && x.High == nil && x.Max == nil {
					continue
				}
				ord["slice"]++
				var capL lin
				if c, ok := a.lenSummary(x.X); ok {
					capL = konst64(c)
				} else if isPtrToArray(x.X.Type()) {
					capL = konst64(x.X.Type().Underlying().(*types.Pointer).Elem().Underlying().(*types.Array).Len())
				} else if _, isStr := x.X.Type().Underlying().(*types.Basic); isStr {
					capL = a.lenOf(x.X, b)
				} else {
					capL = a.capOf(x.X, b)
				}
				lo, hi := zero, capL
				if x.Low != nil {
					lo = a.lin(x.Low, b)
				}
				if x.High != nil {
					hi = a.lin(x.High, b)
				} else {
					hi = a.lenOf(x.X, b)
				}
				if x.Low != nil {
					add("slice", ins, b, "0<=lo", "0 <= "+lo.String(), le(zero, lo), false)
				}
				add("slice", ins, b, "lo<=hi", lo.String()+" <= "+hi.String(), le(lo, hi), false)
				if x.High != nil {
					add("slice", ins, b, "hi<=cap", hi.String()+" <= "+capL.String(), le(hi, capL), false)
				}
			case *ssa.BinOp:
				if (x.Op == token.QUO || x.Op == token.REM) && isIntT(x.Type()) {
					if k, isK := x.Y.(*ssa.Const); isK && k.Value != nil && constant.Sign(k.Value) != 0 {
						continue
					}
					ord["div"]++
					d := a.lin(x.Y, b)
					add("div", ins, b, "divisor>=1", "1 <= "+d.String(), le(konst64(1), d), false)
				}
			case *ssa.MakeSlice:
				ord["make"]++
				n := a.lin(x.Len, b)
				add("make", ins, b, "0<=n", "0 <= "+n.String(), le(zero, n), false)
			case *ssa.Call:
				f := x.Call.StaticCallee()
				if f == nil {
					continue
				}
				name := normPath(f.String())
				if memPre[name] && len(x.Call.Args) == 3 {
					ord["call-pre"]++
					m := a.memLenSym(x.Call.Args[0])
					o, n := a.lin(x.Call.Args[1], b), a.lin(x.Call.Args[2], b)
					short := strings.TrimPrefix(name, "(*P0.Memory).")
					add("call-pre", ins, b, short+":0<=off", "0 <= "+o.String(), le(zero, o), false)
					add("call-pre", ins, b, short+":0<=size", "0 <= "+n.String(), le(zero, n), false)
					add("call-pre", ins, b, short+":off+size<=len(mem)", o.String()+" + "+n.String()+" <= "+m.String(), le(o.plus(n), m), false)
				}
			}
		}
	}
	return out
}

// discharge decides every obligation.
// provesSplit: like proves, and if that fails, splits at a slice-valued phi whose length/capacity occurs in
// the goal: the goal must then follow, for every incoming edge, from the facts of that edge with the phi's
// length (capacity) replaced by the incoming value's.
func (a *ranger) provesSplit(at *ssa.BasicBlock, goal lin) bool {
	if a.proves(at, goal) {
		return true
	}
	for symName, coef := range goal.c {
		kind := ""
		switch {
		case strings.HasPrefix(symName, "len(") && strings.HasSuffix(symName, ")"):
			kind = "len"
		case strings.HasPrefix(symName, "cap(") && strings.HasSuffix(symName, ")"):
			kind = "cap"
		default:
			continue
		}
		name := symName[4 : len(symName)-1]
		var phi *ssa.Phi
		for _, b := range a.fn.Blocks {
			for _, ins := range b.Instrs {
				if p, ok := ins.(*ssa.Phi); ok && p.Name() == name && isSliceT(p.Type()) {
					phi = p
				}
			}
		}
		if phi == nil || !(phi.Block() == at || phi.Block().Dominates(at)) {
			continue
		}
		all := true
		for i, e := range phi.Edges {
			pred := phi.Block().Preds[i]
			// an edge from inside a loop headed by the phi's block would need an invariant: not handled
			if phi.Block().Dominates(pred) {
				all = false
				break
			}
			var repl lin
			if kind == "len" {
				repl = a.lenOf(e, pred)
			} else {
				repl = a.capOf(e, pred)
			}
			cs := append(append(append([]cons{}, a.intr...), a.facts[at]...), a.facts[pred]...)
			if iff, ok := pred.Instrs[len(pred.Instrs)-1].(*ssa.If); ok && pred.Succs[0] != pred.Succs[1] {
				cs = append(cs, a.condFacts(iff.Cond, pred.Succs[0] == phi.Block(), pred)...)
			}
			cs = append(cs, a.intr...)
			g2 := newLin()
			g2.k.Set(goal.k)
			for s2, c2 := range goal.c {
				if s2 != symName {
					g2.c[s2] = new(big.Rat).Set(c2)
				}
			}
			g2 = g2.plus(repl.scale(coef))
			ok, und := entails(cs, g2)
			if und {
				a.undecided = true
			}
			if !ok {
				all = false
				break
			}
		}
		if all {
			return true
		}
	}
	return false
}

func (a *ranger) discharge(obs []*rangeObl) {
	for _, o := range obs {
		a.undecided = false
		if a.provesSplit(o.Block, o.Goal) {
			o.Status = Holds
			o.Facts = len(a.facts[o.Block])
			continue
		}
		o.Status = Violated
		if a.undecided {
			o.Status = Undecided
			continue
		}
		// refuted: the negation is entailed (e.g. index == len)
		ng := o.Goal.scale(big.NewRat(-1, 1))
		ng.k.Add(ng.k, big.NewRat(1, 1))
		if a.proves(o.Block, ng) {
			o.Refuted = true
		}
	}
}


// ---- assumed preconditions (reviewed, one function each) ---------------------------------------------

type fnPre struct {
	why string
	add func(a *ranger)
}

// assumedPre: preconditions that hold by the interpreter contract and cannot be derived inside the
// function. Each is tied to a who-may-call obligation in the check that uses it.
var assumedPre = map[string]fnPre{}

func init() {
	assumedPre["(*P0.Memory).Copy"] = fnPre{
		why: "for len >= 1 the interpreter resizes memory to memoryMcopy(stack) = max(dst, src) + len (overflow-checked, C15 R15.3) before opMcopy — the only caller — executes (Run is a clone of the reference loop)",
		add: func(a *ranger) {
			fn := a.fn
			if len(fn.Params) != 4 {
				return
			}
			entry := fn.Blocks[0]
			for _, b := range fn.Blocks {
				for _, ins := range b.Instrs {
					u, ok := ins.(*ssa.UnOp)
					if !ok || u.Op != token.MUL {
						continue
					}
					fa, ok := u.X.(*ssa.FieldAddr)
					if !ok || fieldID(fa) != "P0.Memory.store" {
						continue
					}
					L := a.lenOf(u, entry)
					dst, src, ln := a.lin(fn.Params[1], entry), a.lin(fn.Params[2], entry), a.lin(fn.Params[3], entry)
					// the contract only holds for a non-empty copy: memoryMcopy reports size 0 for len = 0 and the
					// interpreter then does not resize at all, whatever dst and src are. So the two facts are
					// available only where the guards already entail len >= 1.
					for _, bb := range fn.Blocks {
						if a.proves(bb, le(konst64(1), ln)) {
							a.facts[bb] = append(a.facts[bb], le(dst.plus(ln), L), le(src.plus(ln), L))
						}
					}
				}
			}
		},
	}
}

// ---- resource obligations (C20) ---------------------------------------------------------------------

// allocSizeArg: helpers that return a buffer of (at least) the size given in this argument, padding with zeros.
var allocSizeArg = map[string]int{
	"P0.getData": 2,
	"github.com/ethereum/go-ethereum/common.RightPadBytes": 1,
	"github.com/ethereum/go-ethereum/common.LeftPadBytes":  1,
	"bytes.Repeat": 1,
}

// bufferBounds: the lengths of buffers that exist independently of the analysed size (seen len() symbols) .
func (a *ranger) boundedByExisting(at *ssa.BasicBlock, n lin) (bool, string) {
	if a.proves(at, le(n, konst64(1<<16))) {
		return true, "constant 65536"
	}
	var names []string
	for s := range a.seen {
		if strings.HasPrefix(s, "len(") {
			names = append(names, s)
		}
	}
	sort.Strings(names)
	for _, s := range names {
		if _, self := n.c[s]; self && len(n.c) == 1 {
			return true, s
		}
		if a.proves(at, le(n, sym(s))) {
			return true, s
		}
	}
	return false, ""
}

type resObl struct {
	Key, What, By string
	Pos          token.Pos
	Status       Status
}

func (a *ranger) resourceObligations() []*resObl {
	var out []*resObl
	fnName := relName(a.fn)
	ord := map[string]int{}
	for _, b := range a.fn.DomPreorder() {
		for _, ins := range b.Instrs {
			var size ssa.Value
			kind := ""
			switch x := ins.(type) {
			case *ssa.MakeSlice:
				size, kind = x.Len, "make"
			case *ssa.Call:
				if f := x.Call.StaticCallee(); f != nil && memPre[normPath(f.String())] && len(x.Call.Args) == 3 {
					size, kind = x.Call.Args[2], "copy-size"
				} else if f != nil {
					// helpers that allocate (zero-pad up to) their size argument
					if i, ok := allocSizeArg[normPath(f.String())]; ok && i < len(x.Call.Args) {
						size, kind = x.Call.Args[i], "alloc-size"
					}
				}
			}
			if kind == "" {
				continue
			}
			ord[kind]++
			n := a.lin(size, b)
			o := &resObl{Key: fmt.Sprintf("%s/%s#%d", fnName, kind, ord[kind]), What: "size " + n.String() + " is bounded by a constant or the length of an existing buffer", Pos: ins.Pos()}
			if !o.Pos.IsValid() {
				o.Pos = a.fn.Pos()
			}
			a.undecided = false
			if ok, by := a.boundedByExisting(b, n); ok {
				o.Status, o.By = Holds, by
			} else {
				o.Status = Violated
			}
			out = append(out, o)
		}
	}
	// loops: every back edge belongs to a loop whose exit test compares an induction variable with a bounded N
	for _, h := range a.fn.Blocks {
		isHeader := false
		for _, p := range h.Preds {
			if h == p || h.Dominates(p) {
				isHeader = true
			}
		}
		if !isHeader {
			continue
		}
		ord["loop"]++
		o := &resObl{Key: fmt.Sprintf("%s/loop#%d", fnName, ord["loop"]), Pos: a.fn.Pos(), Status: Violated}
		for _, ins := range h.Instrs {
			if ins.Pos().IsValid() {
				o.Pos = ins.Pos()
				break
			}
		}
		o.What = "the loop's trip count is bounded by a constant or the size of an existing collection"
		// candidate exit tests: the header's own If, or the If of a block inside the loop that leaves it
		var tests []*ssa.If
		for _, b := range a.fn.Blocks {
			if !(b == h || (h.Dominates(b) && a.reach[b][h])) {
				continue
			}
			if iff, ok := b.Instrs[len(b.Instrs)-1].(*ssa.If); ok {
				for _, sc := range b.Succs {
					if !(sc == h || (h.Dominates(sc) && a.reach[sc][h])) {
						tests = append(tests, iff)
					}
				}
			}
		}
		for _, iff := range tests {
			switch c := iff.Cond.(type) {
			case *ssa.Extract:
				// map / string range: `ok` of a Next
				if _, isNext := c.Tuple.(*ssa.Next); isNext {
					o.Status, o.By = Holds, "range over an existing map/string"
				}
			case *ssa.BinOp:
				if c.Op != token.LSS && c.Op != token.LEQ || !isIntT(c.X.Type()) {
					continue
				}
				// X must be an induction value (phi or phi+step) of this header
				iv := c.X
				if bo, ok := iv.(*ssa.BinOp); ok && bo.Op == token.ADD {
					iv = bo.X
				}
				phi, ok := iv.(*ssa.Phi)
				if !ok || phi.Block() != h {
					continue
				}
				n := a.lin(c.Y, iff.Block())
				a.undecided = false
				if ok, by := a.boundedByExisting(iff.Block(), n); ok {
					o.Status, o.By = Holds, "induction variable < "+n.String()+" <= "+by
				} else {
					o.What += ": the bound " + n.String() + " (" + c.Y.String() + ") is not bounded by a constant or an existing buffer"
				}
			}
		}
		out = append(out, o)
	}
	return out
}


// sortLessFacts: a closure used only as the `less` argument of sort.Slice / sort.SliceStable on a
// captured slice variable receives indices 0 <= i, j < len(slice) (contract of package sort; the
// sort swaps elements and never changes the length).
func (a *ranger) sortLessFacts() bool {
	fn := a.fn
	par := fn.Parent()
	if par == nil || len(fn.Params) != 2 || !isIntT(fn.Params[0].Type()) || !isIntT(fn.Params[1].Type()) {
		return false
	}
	var fv *ssa.FreeVar
	uses := 0
	for _, b := range par.Blocks {
		for _, ins := range b.Instrs {
			mc, ok := ins.(*ssa.MakeClosure)
			if !ok || mc.Fn != ssa.Value(fn) {
				continue
			}
			for _, u := range *mc.Referrers() {
				if _, dbg := u.(*ssa.DebugRef); dbg {
					continue
				}
				uses++
				c, ok := u.(*ssa.Call)
				if !ok {
					return false
				}
				cal := c.Call.StaticCallee()
				if cal == nil || cal.Pkg == nil || cal.Pkg.Pkg.Path() != "sort" || (cal.Name() != "Slice" && cal.Name() != "SliceStable") || len(c.Call.Args) != 2 || c.Call.Args[1] != ssa.Value(mc) {
					return false
				}
				mi, ok := c.Call.Args[0].(*ssa.MakeInterface)
				if !ok {
					return false
				}
				ld, ok := mi.X.(*ssa.UnOp)
				if !ok || ld.Op != token.MUL {
					return false
				}
				for k, bnd := range mc.Bindings {
					if bnd == ld.X && k < len(fn.FreeVars) {
						fv = fn.FreeVars[k]
					}
				}
			}
		}
	}
	if fv == nil || uses != 1 {
		return false
	}
	entry := fn.Blocks[0]
	added := false
	for _, b := range fn.Blocks {
		for _, ins := range b.Instrs {
			u, ok := ins.(*ssa.UnOp)
			if !ok || u.Op != token.MUL || u.X != ssa.Value(fv) {
				continue
			}
			L := a.lenOf(u, entry)
			for _, p := range fn.Params {
				i := a.lin(p, entry)
				a.intr = append(a.intr, le(konst64(0), i), lt(i, L))
			}
			added = true
		}
	}
	return added
}
