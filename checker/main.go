package main

import (
	"fmt"
	"go/ast"
	"os"
	"runtime/debug"
	"sort"
	"strconv"
	"strings"
	"time"
)

type propCheck struct {
	needRef bool
	needSSA bool
	run     func(w *World, tier string) *Report
}

var props = map[string]propCheck{}
var debugCmds = map[string]func(){}

func register(id string, needRef, needSSA bool, run func(w *World, tier string) *Report) {
	props[id] = propCheck{needRef, needSSA, run}
}

func main() {
	if len(os.Args) < 2 {
		fmt.Fprintln(os.Stderr, "usage: verifchk <C01..C20|all|classify> [quick|thorough]")
		os.Exit(2)
	}
	cmd := os.Args[1]
	tier := "quick"
	if len(os.Args) > 2 {
		tier = os.Args[2]
	}
	if t := os.Getenv("VERIF_TIER"); t != "" && len(os.Args) <= 2 {
		tier = t
	}
	if tier != "quick" && tier != "thorough" {
		fmt.Fprintln(os.Stderr, "tier must be quick or thorough")
		os.Exit(2)
	}
	seed, _ := strconv.Atoi(os.Getenv("VERIF_SEED")) // accepted, unused: nothing is random
	if f, ok := debugCmds[cmd]; ok {
		f()
		return
	}
	switch cmd {
	case "classify":
		w, err := loadWorld(true, true)
		if err != nil {
			fmt.Fprintln(os.Stderr, err)
			os.Exit(2)
		}
		for i := range pkgPairs {
			cl := w.classify(i)
			fmt.Printf("%s: clone=%d delta=%d new=%d missing=%d\n  DELTA %v\n  NEW %v\n", forkPath(i), len(cl.names(ClsClone)), len(cl.names(ClsDelta)), len(cl.names(ClsNew)), len(cl.Missing), cl.names(ClsDelta), cl.names(ClsNew))
			if len(os.Args) > 2 {
				fmt.Printf("  MISSING %v\n", cl.Missing)
			}
		}
		return
	case "all":
		var ids []string
		for id := range props {
			ids = append(ids, id)
		}
		sort.Strings(ids)
		if only := os.Getenv("VERIF_ONLY"); only != "" {
			ids = strings.Split(only, ",")
		}
		start := time.Now()
		w, err := loadWorld(true, true)
		rc := 0
		for _, id := range ids {
			if c := runOne(id, tier, seed, w, err, start); c > rc {
				rc = c
			}
			start = time.Now()
		}
		os.Exit(rc)
	}
	pc, ok := props[cmd]
	if !ok {
		fmt.Fprintf(os.Stderr, "unknown property %s\n", cmd)
		os.Exit(2)
	}
	start := time.Now()
	w, err := loadWorld(pc.needRef, pc.needSSA)
	os.Exit(runOne(cmd, tier, seed, w, err, start))
}

func runOne(id, tier string, seed int, w *World, loadErr error, start time.Time) (rc int) {
	known, kerr := loadKnown()
	if kerr != nil {
		fmt.Fprintf(os.Stderr, "known_findings.json unreadable: %v\n", kerr)
		known = &KnownFile{}
	}
	var r *Report
	var runErr error = loadErr
	if kerr != nil && runErr == nil {
		runErr = kerr
	}
	func() {
		defer func() {
			if p := recover(); p != nil {
				runErr = fmt.Errorf("analyser panic: %v\n%s", p, debug.Stack())
				fmt.Fprintln(os.Stderr, runErr)
			}
		}()
		if loadErr == nil {
			r = props[id].run(w, tier)
		}
	}()
	if r == nil {
		r = newReport(id)
		r.Explanation = "analysis did not complete"
	}
	return finish(r, tier, seed, start, known, runErr)
}

func init() {
	// developer aid: print the delta of every DELTA function
	debugCmds["delta"] = func() {
		w, err := loadWorld(true, true)
		if err != nil {
			fmt.Fprintln(os.Stderr, err)
			os.Exit(2)
		}
		fo := w.forkOnly()
		for i := range pkgPairs {
			cl := w.classify(i)
			for _, n := range cl.names(ClsDelta) {
				d, err := w.embedFunc(i, n, fo)
				if err != nil {
					fmt.Println(n, "ERR", err)
					continue
				}
				fp := w.Pkgs[forkPath(i)]
				rp := w.Pkgs[refPath(i)]
				fmt.Printf("=== %s %s: matched=%d refonly=%d ins=%d strips=%d alphaErr=%d %s\n", forkPath(i), n, d.Matched, len(d.RefOnly), len(d.Ins), len(d.Strips), len(d.AlphaErr), d.SigDiff)
				for k, s := range d.RefOnly {
					fmt.Printf("   - REF  %s [%s]\n", stmtText(w, rp.TypesInfo, s), d.RefOnlyAt[k])
				}
				for _, in := range d.Ins {
					var n ast.Node = in.Stmt
					if in.Case != nil {
						n = in.Case
					}
					fmt.Printf("   + FORK %s: %s (absorb=%d) [%s]\n", w.pos(n.Pos()), stmtText(w, fp.TypesInfo, n), in.AbsorbRef, in.Ctx)
				}
				for _, in := range d.Strips {
					for _, t := range in.Stripped {
						fmt.Printf("   ~ STRIP %s: %s\n", w.pos(t.Pos()), stmtText(w, fp.TypesInfo, t))
					}
				}
				for _, a := range d.AlphaErr {
					fmt.Println("   ! ALPHA", a)
				}
			}
		}
	}
}
