package main

import (
	"fmt"
	"go/token"
	"go/types"

	"golang.org/x/tools/go/ssa"
)

// R11.11 the registered index bytes never leave the key tree as a slice. StorageKey.data holds the index
// bytes exactly as the registering caller passed them (not copied on registration). The tree's answers —
// ChildrenIndices, IndicesOfChanges, the name-path look-up — are built from the *keys* of the by-name
// table, i.e. from immutable strings made at registration time. A query that hands out k.data instead
// returns memory the registering caller (or an earlier consumer of the answer) can still write: the
// indices reported later are then not the indices registered, and no longer resolve by name to the record
// the slot look-up reaches. Rule: every load of the field in the fork is consumed only by a conversion to
// string (a copy) or by len/cap.
func addIndexBytesStayInsideRule(w *World, r *Report, rule string) {
	n := 0
	for _, fn := range w.forkFuncsAll() {
		if fn.Pkg == nil || fn.Pkg.Pkg.Path() != forkPath(pkVM) {
			continue
		}
		ord := 0
		for _, b := range fn.Blocks {
			for _, ins := range b.Instrs {
				ld, ok := ins.(*ssa.UnOp)
				if !ok || ld.Op != token.MUL {
					continue
				}
				fa, ok := ld.X.(*ssa.FieldAddr)
				if !ok || fieldID(fa) != "P0.StorageKey.data" {
					continue
				}
				ord++
				n++
				key := fmt.Sprintf("%s/read-of-data#%d", relName(fn), ord)
				bad := ""
				for _, ref := range *ld.Referrers() {
					switch x := ref.(type) {
					case *ssa.Convert:
						if b, ok := x.Type().Underlying().(*types.Basic); ok && b.Info()&types.IsString != 0 {
							continue
						}
						bad = "converted to " + x.Type().String()
					case *ssa.Call:
						if bi, ok := x.Call.Value.(*ssa.Builtin); ok && (bi.Name() == "len" || bi.Name() == "cap") {
							continue
						}
						bad = "passed to a call"
					case *ssa.DebugRef:
						continue
					default:
						bad = fmt.Sprintf("used by %T", ref)
					}
				}
				if bad != "" {
					r.violated(rule, key, w.pos(ld.Pos()), "the registered index bytes (StorageKey.data, the registering caller's own slice) are "+bad+" instead of being copied into a string: an answer of the key tree would alias memory its callers can still write")
				} else {
					r.holds(rule, key, w.pos(ld.Pos()), "the field is read only as the operand of a string conversion (copy) or len")
				}
			}
		}
	}
	r.need(rule, 1)
	_ = n
}
