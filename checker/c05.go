package main

import (
	"fmt"
	"go/ast"
	"go/token"
	"go/types"
	"sort"
	"strings"

	"golang.org/x/tools/go/packages"
	"golang.org/x/tools/go/ssa"
	"golang.org/x/tools/go/types/typeutil"
)

func init() {
	register("C05", true, true, checkC05)
}

type callSite struct {
	pkg    *packages.Package
	fn     string // enclosing function (pkg-relative)
	decl   *ast.FuncDecl
	call   *ast.CallExpr
	inLoop bool
	inLit  bool // inside a function literal
	deferd bool // the literal is the operand of a defer statement
}

// usersOfDecl: the call expressions in package p whose static callee is f.
func (w *World) usersOfDecl(p *packages.Package, f *types.Func) []*ast.CallExpr {
	var out []*ast.CallExpr
	for _, file := range p.Syntax {
		ast.Inspect(file, func(n ast.Node) bool {
			if c, ok := n.(*ast.CallExpr); ok {
				if g, _ := typeutil.Callee(p.TypesInfo, c).(*types.Func); g == f {
					out = append(out, c)
				}
			}
			return true
		})
	}
	return out
}

// callSitesOf finds every call in the fork packages whose static callee satisfies pred.
func (w *World) callSitesOf(pred func(f *types.Func) bool) []callSite {
	var out []callSite
	var paths []string
	for p := range w.Pkgs {
		if strings.HasPrefix(p, forkMod) {
			paths = append(paths, p)
		}
	}
	sort.Strings(paths)
	for _, path := range paths {
		p := w.Pkgs[path]
		for _, f := range p.Syntax {
			for _, d := range f.Decls {
				fd, ok := d.(*ast.FuncDecl)
				if !ok || fd.Body == nil {
					continue
				}
				var stack []ast.Node
				ast.Inspect(fd.Body, func(n ast.Node) bool {
					if n == nil {
						stack = stack[:len(stack)-1]
						return true
					}
					stack = append(stack, n)
					call, ok := n.(*ast.CallExpr)
					if !ok {
						return true
					}
					directDefer := false
						fo, ok := typeutil.Callee(p.TypesInfo, call).(*types.Func)
					if ok && !pred(fo) {
						// a forwarding helper stands for the call in its body (forward.go)
						if in := w.forwardedCall(p, call); in != nil {
							if fo2, ok2 := typeutil.Callee(p.TypesInfo, in).(*types.Func); ok2 && pred(fo2) {
								// a helper deferred directly stands for a deferred closure around the inner call
								// when its arguments are addresses or single-assignment variables (forward.go)
								if len(stack) >= 2 {
									if ds, isDefer := stack[len(stack)-2].(*ast.DeferStmt); isDefer && ds.Call == call {
										if din := w.deferredForward(p, call); din != nil {
											in, directDefer = din, true
										}
									}
								}
								call, fo = in, fo2
							}
						}
					}
					if !ok || !pred(fo) {
						return true
					}
					// the call inside a forwarding helper is reported at the helper's callers instead
					if len(fd.Body.List) == 1 && fd.Type.Results == nil {
						if es, isEs := fd.Body.List[0].(*ast.ExprStmt); isEs && es.X == ast.Expr(call) {
							if self, _ := p.TypesInfo.Defs[fd.Name].(*types.Func); self != nil {
								if us := w.usersOfDecl(p, self); len(us) > 0 && w.forwardedCall(p, us[0]) != nil {
									return true
								}
							}
						}
					}
					cs := callSite{pkg: p, fn: pkgShortOf(path) + "." + declRelName(fd), call: call, decl: fd, deferd: directDefer, inLit: directDefer}
					for i, s := range stack {
						switch x := s.(type) {
						case *ast.ForStmt, *ast.RangeStmt:
							cs.inLoop = true
						case *ast.FuncLit:
							cs.inLit = true
							if i >= 2 {
								if ce, ok := stack[i-1].(*ast.CallExpr); ok && ce.Fun == x {
									if _, ok := stack[i-2].(*ast.DeferStmt); ok {
										cs.deferd = true
									}
								}
							}
						}
					}
					out = append(out, cs)
					return true
				})
			}
		}
	}
	return out
}

func pkgShortOf(path string) string { return strings.TrimPrefix(path, forkMod+"/") }

func funcIs(recv, name string) func(f *types.Func) bool {
	return func(f *types.Func) bool {
		if f.Name() != name {
			return false
		}
		rt, _ := recvTypeName(f)
		return rt == recv
	}
}

func checkC05(w *World, tier string) *Report {
	r := newReport("C05")
	r.Explanation = "Rules on (*EVM).Call (go/cfg paths, go/types resolved callees): R5.1 who-may-call — PreContractCall and PostContractCall each have exactly one call site in the fork, both in Call, neither inside a loop or a closure; " +
		"R5.2 edge dominance — on every path reaching either site the literals `not a precompile`, `code non-empty`, `IsExecuteJP` hold; R5.3 ordering on all paths — pre site before interpreter.Run and never after it, post site after Run exactly once, neither Run nor the post site reachable after the pre result reported an error, every path from Run with join points enabled crosses the post site before returning; " +
		"R5.4 argument provenance — From/To/Data/Value/Gas/Index of both input messages and the positional arguments are built from exactly the parameters caller, addr, input, value, the variable gas and this frame's call-tree node (obtained right after this frame's SaveCall with no intervening call that can move the cursor); the parameters are never re-assigned; post: Ret is the variable assigned from Run, Error the text of err under err != nil. " +
		"LIFO nesting follows from R5.3 plus recursion (Run is the only way to a nested Call). R5.6 (may-alias roots, SSA) the value handed to a frame entry point by the call/create instructions is a fresh big number or a shared constant — never a cell of the interpreter, the stack or memory that a nested frame rewrites while the outer frame still holds the pointer for its post-call join point; R5.5 ownership of the enable flag — EVM.IsExecuteJP is written only by the constructor literal and by setter methods whose whole body is one constant assignment to it, and no code of the fork calls those setters or takes the flag's address: the flag is the host's, so a frame cannot leave it switched off for the frames that follow (e.g. on an early return between a switch-off and a switch-on). Does not decide what aspect-core does with the call, nor a host toggling IsExecuteJP between the two sites."
	// R5.1
	for _, k := range []string{"PreContractCall", "PostContractCall"} {
		sites := w.callSitesOf(func(f *types.Func) bool { return f.Name() == k })
		if len(sites) != 1 {
			r.violated("R5.1", k+"/call-sites", "-", fmt.Sprintf("%s has %d call sites in the fork, expected exactly one (in vm.(*EVM).Call)", k, len(sites)))
			for _, s := range sites {
				r.violated("R5.1", k+"/site-in:"+s.fn, w.pos(s.call.Pos()), "call site of "+k)
			}
			continue
		}
		s := sites[0]
		switch {
		case s.fn != "vm.(*EVM).Call":
			r.violated("R5.1", k+"/call-sites", w.pos(s.call.Pos()), k+" is called from "+s.fn+", not from vm.(*EVM).Call")
		case s.inLoop || s.inLit:
			r.violated("R5.1", k+"/call-sites", w.pos(s.call.Pos()), k+" is called inside a loop or a closure: it may fire more than once per call")
		default:
			r.holds("R5.1", k+"/call-sites", w.pos(s.call.Pos()), "exactly one call site, in vm.(*EVM).Call, outside loops and closures")
		}
	}
	r.need("R5.1", 2)
	emitSiteRule(w, r, "R5.2")
	r.need("R5.2", 2)
	emitSiteRule(w, r, "R5.3")
	emitReturnRule(w, r, "R5.3", func(fn string) bool { return fn == "(*EVM).Call" })
	r.need("R5.3", 3)
	addR54(w, r)
	addR55(w, r)
	addR56(w, r)
	r.Assumptions = append(r.Assumptions, "the host does not toggle EVM.IsExecuteJP between the pre and post site of one call", "aspect-core's handling of the message (number and order of Aspects) is external")
	// shared rules (fourth batch of seeded changes): what the post-call join point is told the callee returned and had
	// left is what interpreter.Run returned and what the frame had left — Run is the reference's (a single-exit rewrite
	// that hands back a stale result with an error reaches the join point), and the gas argument of the post-call
	// join point is defined only by gas = contract.Gas (C06 R6.1)
	w.e1().cloneRule(r, "R5.7", pkVM, func(name string, pr *PairResult) bool { return name == "(*EVMInterpreter).Run" })
	r.need("R5.7", 1)
	emitSiteRule(w, r, "R6.1")
	emitReturnRule(w, r, "R6.1", func(fn string) bool { return fn == "(*EVM).Call" })
	// seventh batch: which calls get join points at all is decided by inherited statements of Call — the
	// code-less fast path `len(code) == 0`, the precompile branch — so the embedding of Call in the
	// reference's Call (C01 R1.1/R1.3) is a premise of "every contract call": a widened fast path
	// (`|| code[0] == STOP`) skips both join points for contracts that do have code
	w.e1().cloneRule(r, "R5.8", pkVM, func(name string, pr *PairResult) bool { return name == "(*EVM).Call" })
	r.need("R5.8", 1)
	r.Explanation += " R5.8 (shared with C01) the inherited statements of Call — among them the conditions that decide whether the callee has code to run — are the reference's, and every fork insertion is a reviewed one."
	r.Explanation += " R5.7 (*EVMInterpreter).Run is an SSA clone of the reference: the result the post-call join point is given is what the callee returned; R6.1 (shared with C06) the gas argument of the post-call join point is defined only by gas = contract.Gas."
	return r
}

// addR54: argument provenance of the two join-point calls.
func addR54(w *World, r *Report) {
	fl := w.newFlow(forkPath(pkVM), "(*EVM).Call")
	if fl == nil {
		r.undecided("R5.4", "vm.(*EVM).Call", "-", "function not found")
		return
	}
	info := fl.info
	// parameters by position, skipping context.Context: caller, addr, input, gas, value
	var params []*types.Var
	for _, f := range fl.fd.Type.Params.List {
		for _, n := range f.Names {
			if v, ok := info.Defs[n].(*types.Var); ok && !isCtxType(v.Type()) {
				params = append(params, v)
			}
		}
	}
	if len(params) != 5 {
		r.undecided("R5.4", "vm.(*EVM).Call/params", w.pos(fl.fd.Pos()), fmt.Sprintf("expected 5 non-context parameters, found %d", len(params)))
		return
	}
	caller, addr, input, gas, value := params[0].Name(), params[1].Name(), params[2].Name(), params[3].Name(), params[4].Name()
	// the parameters caller, addr, input, value are never assigned (gas is, legitimately)
	reassigned := map[string]token.Pos{}
	ast.Inspect(fl.fd.Body, func(n ast.Node) bool {
		switch x := n.(type) {
		case *ast.AssignStmt:
			for _, l := range x.Lhs {
				if id, ok := ast.Unparen(l).(*ast.Ident); ok {
					if o := info.Uses[id]; o != nil {
						for _, p := range []*types.Var{params[0], params[1], params[2], params[4]} {
							if o == p {
								reassigned[p.Name()] = id.Pos()
							}
						}
					}
				}
			}
		case *ast.UnaryExpr:
			// &input, &addr taken and passed on could be modified elsewhere: only &addr to SaveCall / &gas are known
		}
		return true
	})
	for _, p := range []string{caller, addr, input, value} {
		if pos, bad := reassigned[p]; bad {
			r.violated("R5.4", "vm.(*EVM).Call/param-stable:"+p, w.pos(pos), "parameter "+p+" is re-assigned: join points and recorder would see a value that is not the call's")
		} else {
			r.holds("R5.4", "vm.(*EVM).Call/param-stable:"+p, w.pos(fl.fd.Pos()), "never assigned in the function")
		}
	}
	// this frame's call-tree node: X := tracer.CallTree().Current() right after SaveCall
	nodeVar, nodeOK, nodeWhy := frameNodeVar(w, fl)
	if nodeOK {
		r.holds("R5.4", "vm.(*EVM).Call/frame-node", w.pos(fl.fd.Pos()), nodeWhy)
	} else {
		r.violated("R5.4", "vm.(*EVM).Call/frame-node", w.pos(fl.fd.Pos()), nodeWhy)
	}
	// the variable assigned from Run, and the error-text variable
	retVar, errVar := "", fl.resultName(0)
	ast.Inspect(fl.fd.Body, func(n ast.Node) bool {
		if as, ok := n.(*ast.AssignStmt); ok && len(as.Rhs) == 1 {
			if call, ok := as.Rhs[0].(*ast.CallExpr); ok && fl.calleeIs(call, "EVMInterpreter", "Run") && len(as.Lhs) == 2 {
				retVar = fl.canon(as.Lhs[0])
			}
		}
		return true
	})
	for _, cs := range w.callSitesOf(func(f *types.Func) bool { return f.Name() == "PreContractCall" || f.Name() == "PostContractCall" }) {
		if cs.fn != "vm.(*EVM).Call" {
			continue
		}
		kind := "pre"
		if fo, _ := typeutil.Callee(info, cs.call).(*types.Func); fo != nil && fo.Name() == "PostContractCall" {
			kind = "post"
		}
		// positional arguments (after ctx): from, to, input, blockNumber, gas, value, message, logger
		var pos []ast.Expr
		for _, a := range cs.call.Args {
			if !fl.c.isCtxExpr(a) {
				pos = append(pos, a)
			}
		}
		want := []string{caller + ".Address()", addr, input, "", gas, value}
		for i, wnt := range want {
			if wnt == "" || i >= len(pos) {
				continue
			}
			key := fmt.Sprintf("vm.(*EVM).Call/%s/arg#%d", kind, i)
			if got := fl.canon(pos[i]); got == wnt {
				r.holds("R5.4", key, w.pos(pos[i].Pos()), "argument is `"+wnt+"`")
			} else {
				r.violated("R5.4", key, w.pos(pos[i].Pos()), "argument is `"+got+"`, expected this call's `"+wnt+"`")
			}
		}
		// message fields
		fields := map[string]string{}
		fieldPos := map[string]token.Pos{}
		// a message (or a part of it) may be built into a local first: a value temporary stands for its literal
		valTemps(info, fl.fd)
		resolve := func(e ast.Expr) ast.Expr {
			for i := 0; i < 4; i++ {
				id, ok := ast.Unparen(e).(*ast.Ident)
				if !ok {
					break
				}
				x, ok := valTempExpr[info.Uses[id]]
				if !ok {
					break
				}
				e = x
			}
			return e
		}
		var collect func(e ast.Expr, depth int)
		collect = func(e ast.Expr, depth int) {
			if depth > 6 {
				return
			}
			ast.Inspect(resolve(e), func(n ast.Node) bool {
				if kv, ok := n.(*ast.KeyValueExpr); ok {
					if id, ok := kv.Key.(*ast.Ident); ok {
						val := resolve(kv.Value)
						if _, isLit := ast.Unparen(stripAddr(val)).(*ast.CompositeLit); !isLit {
							fields[id.Name] = fl.canon(kv.Value)
							fieldPos[id.Name] = kv.Pos()
						} else if val != kv.Value {
							collect(val, depth+1)
							return false
						}
					}
				}
				return true
			})
		}
		for _, a := range pos {
			collect(a, 0)
		}
		wantF := map[string]string{"From": caller + ".Address().Bytes()", "To": addr + ".Bytes()", "Data": input, "Value": value + ".Bytes()", "Gas": "&" + gas, "Index": "&" + nodeVar + ".Index"}
		if kind == "post" {
			wantF["Ret"] = retVar
		}
		var names []string
		for k := range wantF {
			names = append(names, k)
		}
		sort.Strings(names)
		for _, k := range names {
			key := fmt.Sprintf("vm.(*EVM).Call/%s/msg.%s", kind, k)
			got, ok := fields[k]
			switch {
			case !ok:
				r.violated("R5.4", key, w.pos(cs.call.Pos()), "message field "+k+" is not set")
			case got != wantF[k]:
				r.violated("R5.4", key, w.pos(fieldPos[k]), "message field "+k+" is `"+got+"`, expected this call's `"+wantF[k]+"`")
			default:
				r.holds("R5.4", key, w.pos(fieldPos[k]), "message field is `"+got+"`")
			}
		}
		if kind == "post" {
			// Error: the address of a string that only ever holds "" or the text of the frame's error (SSA)
			key := "vm.(*EVM).Call/post/msg.Error"
			got := fields["Error"]
			if fn := w.Func(forkPath(pkVM), "(*EVM).Call"); fn == nil {
				r.undecided("R5.4", key, "-", "function not found")
			} else if ok, p, why := postErrorTextOK(w, fn, errVar); ok {
				r.holds("R5.4", key, w.pos(p), "message field Error points at a string that holds the text of the frame's error, or \"\" when there is none")
			} else {
				r.violated("R5.4", key, w.pos(p), "message field Error (`"+got+"`) is not the text of the frame's error: "+why)
			}
		}
	}
	r.need("R5.4", 29)
}

func stripAddr(e ast.Expr) ast.Expr {
	if u, ok := e.(*ast.UnaryExpr); ok && u.Op == token.AND {
		return u.X
	}
	return e
}

// frameNodeVar: the variable holding this frame's call-tree node: defined once, from
// <tracer>.CallTree().Current(), after the SaveCall statement, with only reviewed pure calls and
// the deferred-exit registration in between.
func frameNodeVar(w *World, fl *Flow) (string, bool, string) {
	list := fl.fd.Body.List
	save, def := -1, -1
	name := ""
	for i, st := range list {
		for _, c := range callsIn(st) {
			if fl.calleeIs(c, "Tracer", "SaveCall") && save < 0 {
				save = i
			}
		}
		if as, ok := st.(*ast.AssignStmt); ok && len(as.Lhs) == 1 && len(as.Rhs) == 1 && as.Tok == token.DEFINE {
			if c, ok := as.Rhs[0].(*ast.CallExpr); ok && fl.calleeIs(c, "CallTree", "Current") {
				if def >= 0 {
					return "", false, "the frame's call-tree node is read twice"
				}
				def = i
				name = fl.canon(as.Lhs[0])
			}
		}
	}
	if save < 0 || def < 0 || def < save {
		return name, false, "no `X := <tracer>.CallTree().Current()` after this frame's SaveCall at the top level of Call"
	}
	a := &insAnalyzer{w: w, info: fl.info, fo: &ForkOnly{Fields: map[*types.Var]bool{}}, fkLocals: map[types.Object]bool{}, recvOnly: map[string]bool{}}
	for i := save + 1; i < def; i++ {
		if _, isDefer := list[i].(*ast.DeferStmt); isDefer {
			continue
		}
		for _, e := range a.effects(list[i]) {
			if e.kind == "call-other" || e.kind == "call-jp" || e.kind == "call-tracer" {
				return name, false, "between SaveCall and the read of the frame's node there is a call that may move the call-tree cursor: " + e.what
			}
		}
	}
	// never re-assigned
	n := 0
	ast.Inspect(fl.fd.Body, func(nd ast.Node) bool {
		if as, ok := nd.(*ast.AssignStmt); ok {
			for _, l := range as.Lhs {
				if fl.canon(l) == name {
					n++
				}
			}
		}
		return true
	})
	if n != 1 {
		return name, false, "the frame-node variable is assigned more than once"
	}
	return name, true, "`" + name + "` is read from the call tree right after this frame's SaveCall (only pure calls and the deferred exit in between) and never re-assigned"
}


// addR55: who-may-write the join-point enable flag.
func addR55(w *World, r *Report) {
	vmp := w.Pkgs[forkPath(pkVM)]
	var flag *types.Var
	if o := vmp.Types.Scope().Lookup("EVM"); o != nil {
		if st, ok := o.Type().Underlying().(*types.Struct); ok {
			for i := 0; i < st.NumFields(); i++ {
				if st.Field(i).Name() == "IsExecuteJP" {
					flag = st.Field(i)
				}
			}
		}
	}
	if flag == nil {
		r.undecided("R5.5", "vm.EVM.IsExecuteJP", "-", "field not found: the rule's anchor does not resolve")
		return
	}
	setters := map[*types.Func]bool{}
	var paths []string
	for p := range w.Pkgs {
		if strings.HasPrefix(p, forkMod) {
			paths = append(paths, p)
		}
	}
	sort.Strings(paths)
	isFlag := func(p *packages.Package, e ast.Expr) bool {
		sel, ok := ast.Unparen(e).(*ast.SelectorExpr)
		return ok && p.TypesInfo.Uses[sel.Sel] == types.Object(flag)
	}
	nw := 0
	for _, path := range paths {
		p := w.Pkgs[path]
		for _, f := range p.Syntax {
			for _, d := range f.Decls {
				fd, ok := d.(*ast.FuncDecl)
				if !ok || fd.Body == nil {
					continue
				}
				name := pkgShortOf(path) + "." + declRelName(fd)
				// a setter: the whole body is one assignment of a constant to the flag
				if len(fd.Body.List) == 1 {
					if as, ok := fd.Body.List[0].(*ast.AssignStmt); ok && len(as.Lhs) == 1 && len(as.Rhs) == 1 && isFlag(p, as.Lhs[0]) {
						isParam := false
						if id, ok := ast.Unparen(as.Rhs[0]).(*ast.Ident); ok {
							if v, ok := p.TypesInfo.Uses[id].(*types.Var); ok && fd.Type.Params != nil {
								for _, f := range fd.Type.Params.List {
									for _, nm := range f.Names {
										if p.TypesInfo.Defs[nm] == types.Object(v) {
											isParam = true
										}
									}
								}
							}
						}
						if tv, ok := p.TypesInfo.Types[as.Rhs[0]]; ok && (tv.Value != nil || isParam) {
							if fo, ok := p.TypesInfo.Defs[fd.Name].(*types.Func); ok {
								setters[fo] = true
								nw++
								what := "one of its own parameters"
								if tv.Value != nil {
									what = "the constant " + tv.Value.ExactString()
								}
								r.holds("R5.5", "writer:"+name, w.pos(as.Pos()), "host-facing setter: its whole body assigns "+what+" to the flag")
								continue
							}
						}
					}
				}
				ast.Inspect(fd.Body, func(n ast.Node) bool {
					switch x := n.(type) {
					case *ast.AssignStmt:
						for li, l := range x.Lhs {
							if isFlag(p, l) {
								nw++
								// the object under construction: `x := &T{…}` earlier in the same straight-line body, flag set to a constant
								if len(x.Lhs) == len(x.Rhs) && constructorInit(p, fd, x, ast.Unparen(l).(*ast.SelectorExpr), x.Rhs[li]) {
									r.holds("R5.5", "writer:"+name+"/literal", w.pos(x.Pos()), "the constructor sets the flag of the object it is building to a constant, before the object is handed out")
									continue
								}
								r.violated("R5.5", "writer:"+name, w.pos(x.Pos()), "the join-point enable flag is written inside "+name+": a frame that switches it must restore it on every path, and frames running meanwhile fire no join points")
							}
						}
					case *ast.IncDecStmt:
						if isFlag(p, x.X) {
							r.violated("R5.5", "writer:"+name, w.pos(x.Pos()), "the join-point enable flag is modified inside "+name)
						}
					case *ast.UnaryExpr:
						if x.Op == token.AND && isFlag(p, x.X) {
							r.violated("R5.5", "address-taken:"+name, w.pos(x.Pos()), "the address of the join-point enable flag is taken in "+name)
						}
					case *ast.KeyValueExpr:
						if id, ok := x.Key.(*ast.Ident); ok && p.TypesInfo.Uses[id] == types.Object(flag) {
							nw++
							if tv, ok := p.TypesInfo.Types[x.Value]; ok && tv.Value != nil {
								r.holds("R5.5", "writer:"+name+"/literal", w.pos(x.Pos()), "constructor literal sets the flag to the constant "+tv.Value.ExactString())
							} else {
								r.violated("R5.5", "writer:"+name+"/literal", w.pos(x.Pos()), "a composite literal sets the flag to a non-constant value")
							}
						}
					}
					return true
				})
			}
		}
	}
	// a function whose whole body is one call of a setter with constant arguments is a setter as well
	// (AspectCall / CloseAspectCall going through one shared unexported setter)
	wrapperCall := map[*ast.CallExpr]bool{}
	for round := 0; round < 3; round++ {
		for _, path := range paths {
			p := w.Pkgs[path]
			for _, f := range p.Syntax {
				for _, d := range f.Decls {
					fd, ok := d.(*ast.FuncDecl)
					if !ok || fd.Body == nil || len(fd.Body.List) != 1 {
						continue
					}
					es, ok := fd.Body.List[0].(*ast.ExprStmt)
					if !ok {
						continue
					}
					call, ok := es.X.(*ast.CallExpr)
					if !ok {
						continue
					}
					callee, _ := typeutil.Callee(p.TypesInfo, call).(*types.Func)
					self, _ := p.TypesInfo.Defs[fd.Name].(*types.Func)
					if callee == nil || self == nil || !setters[callee] || setters[self] {
						continue
					}
					constArgs := true
					for _, a := range call.Args {
						if tv, ok := p.TypesInfo.Types[a]; !ok || tv.Value == nil {
							constArgs = false
						}
					}
					if constArgs {
						setters[self] = true
						wrapperCall[call] = true
						r.holds("R5.5", "writer:"+pkgShortOf(path)+"."+declRelName(fd), w.pos(call.Pos()), "host-facing setter: its whole body calls a setter with constant arguments")
					}
				}
			}
		}
	}
	var sites []callSite
	for _, cs := range w.callSitesOf(func(f *types.Func) bool { return setters[f] }) {
		if !wrapperCall[cs.call] {
			sites = append(sites, cs)
		}
	}
	if len(sites) == 0 {
		r.holds("R5.5", "setter-callers", "-", fmt.Sprintf("%d setters, none called from inside the fork", len(setters)))
	}
	for _, s := range sites {
		// the object under construction: `x := &T{…}` earlier in the same straight-line body, and the
		// setter called on it as a top-level statement is the enabling one (stores the constant true)
		if constructorSetterCall(w, s, isFlag) {
			r.holds("R5.5", "setter-caller:"+s.fn+"/constructor", w.pos(s.call.Pos()), "the constructor switches join points on for the object it is building, before the object is handed out")
			continue
		}
		r.violated("R5.5", "setter-caller:"+s.fn, w.pos(s.call.Pos()), "the fork itself switches the join-point enable flag (call of a setter in "+s.fn+"): frames running until it is switched back fire no join points, and an early return in between leaves it off")
	}
	r.need("R5.5", 3)
}


// constructorSetterCall: the site is a top-level statement `x.Set()` of a function that defined x earlier by
// a composite literal, and Set's whole body stores the constant true into the flag (directly, or through
// one setter called with the constant true).
func constructorSetterCall(w *World, cs callSite, isFlag func(*packages.Package, ast.Expr) bool) bool {
	p, fd := cs.pkg, cs.decl
	sel, ok := cs.call.Fun.(*ast.SelectorExpr)
	if !ok || fd == nil {
		return false
	}
	id, ok := ast.Unparen(sel.X).(*ast.Ident)
	if !ok {
		return false
	}
	obj := p.TypesInfo.Uses[id]
	defined, found := false, false
	for _, st := range fd.Body.List {
		if es, ok := st.(*ast.ExprStmt); ok && es.X == ast.Expr(cs.call) {
			found = defined
			break
		}
		d, ok := st.(*ast.AssignStmt)
		if !ok || d.Tok != token.DEFINE || len(d.Lhs) != 1 || len(d.Rhs) != 1 {
			continue
		}
		if lid, ok := d.Lhs[0].(*ast.Ident); ok && p.TypesInfo.Defs[lid] == obj && obj != nil {
			e := ast.Unparen(d.Rhs[0])
			if u, ok := e.(*ast.UnaryExpr); ok && u.Op == token.AND {
				e = ast.Unparen(u.X)
			}
			_, defined = e.(*ast.CompositeLit)
		}
	}
	if !found {
		return false
	}
	isTrue := func(pk *packages.Package, e ast.Expr) bool {
		tv, ok := pk.TypesInfo.Types[e]
		return ok && tv.Value != nil && tv.Value.ExactString() == "true"
	}
	var enables func(f *types.Func, depth int) bool
	enables = func(f *types.Func, depth int) bool {
		if f == nil || f.Pkg() == nil || depth > 2 {
			return false
		}
		pk := w.Pkgs[f.Pkg().Path()]
		if pk == nil {
			return false
		}
		hd, _ := w.FuncDecl(f.Pkg().Path(), relNameOfFunc(f))
		if hd == nil || hd.Body == nil || len(hd.Body.List) != 1 {
			return false
		}
		switch st := hd.Body.List[0].(type) {
		case *ast.AssignStmt:
			return len(st.Lhs) == 1 && len(st.Rhs) == 1 && isFlag(pk, st.Lhs[0]) && isTrue(pk, st.Rhs[0])
		case *ast.ExprStmt:
			c, ok := st.X.(*ast.CallExpr)
			if !ok || len(c.Args) != 1 || !isTrue(pk, c.Args[0]) {
				return false
			}
			g, _ := typeutil.Callee(pk.TypesInfo, c).(*types.Func)
			if g == nil {
				return false
			}
			gd, _ := w.FuncDecl(g.Pkg().Path(), relNameOfFunc(g))
			if gd == nil || gd.Body == nil || len(gd.Body.List) != 1 || gd.Type.Params.NumFields() != 1 {
				return false
			}
			as, ok := gd.Body.List[0].(*ast.AssignStmt)
			if !ok || len(as.Lhs) != 1 || len(as.Rhs) != 1 || !isFlag(pk, as.Lhs[0]) {
				return false
			}
			rid, ok := as.Rhs[0].(*ast.Ident)
			return ok && len(gd.Type.Params.List[0].Names) == 1 && pk.TypesInfo.Uses[rid] == pk.TypesInfo.Defs[gd.Type.Params.List[0].Names[0]]
		}
		return false
	}
	callee, _ := typeutil.Callee(p.TypesInfo, cs.call).(*types.Func)
	return enables(callee, 0)
}

// constructorInit: as is a top-level statement of fd that assigns a constant to sel = X.f where X is a
// local defined earlier at the top level of fd by a composite literal (or its address).
func constructorInit(p *packages.Package, fd *ast.FuncDecl, as *ast.AssignStmt, sel *ast.SelectorExpr, rhs ast.Expr) bool {
	if tv, ok := p.TypesInfo.Types[rhs]; !ok || tv.Value == nil {
		return false
	}
	id, ok := ast.Unparen(sel.X).(*ast.Ident)
	if !ok {
		return false
	}
	obj := p.TypesInfo.Uses[id]
	defined := false
	for _, st := range fd.Body.List {
		if st == ast.Stmt(as) {
			return defined
		}
		d, ok := st.(*ast.AssignStmt)
		if !ok || d.Tok != token.DEFINE || len(d.Lhs) != 1 || len(d.Rhs) != 1 {
			continue
		}
		if lid, ok := d.Lhs[0].(*ast.Ident); ok && p.TypesInfo.Defs[lid] == obj && obj != nil {
			e := ast.Unparen(d.Rhs[0])
			if u, ok := e.(*ast.UnaryExpr); ok && u.Op == token.AND {
				e = ast.Unparen(u.X)
			}
			_, defined = e.(*ast.CompositeLit)
		}
	}
	return false
}

// addR56: *big.Int arguments of the frame entry points at their call sites inside the fork are fresh.
func addR56(w *World, r *Report) {
	eng := w.aliasEngine()
	entry := map[string]bool{"Call": true, "CallCode": true, "Create": true, "Create2": true, "create": true, "DelegateCall": true, "StaticCall": true}
	n := 0
	for _, fn := range w.forkFuncsAll() {
		top := fn
		for top.Parent() != nil {
			top = top.Parent()
		}
		if top.Pkg == nil || top.Pkg.Pkg.Path() != forkPath(pkVM) {
			continue // hosts (vm/runtime, tests) pass values they own
		}
		ord := 0
		for _, b := range fn.Blocks {
			for _, ins := range b.Instrs {
				c, ok := ins.(*ssa.Call)
				if !ok {
					continue
				}
				cal := c.Call.StaticCallee()
				if cal == nil || !entry[cal.Name()] || cal.Signature.Recv() == nil || typeBaseName(cal.Signature.Recv().Type()) != "EVM" {
					continue
				}
				for i, arg := range c.Call.Args {
					if !isBignumPtr(arg.Type()) {
						continue
					}
					ord++
					n++
					key := fmt.Sprintf("%s/value-arg#%d->%s", relName(fn), ord, cal.Name())
					var bad []string
					for _, rt := range eng.rootsOf(arg, map[ssa.Value]bool{}) {
						switch {
						case rt.param != nil && rt.param.Parent() == fn && fn.Signature.Recv() != nil && typeBaseName(fn.Signature.Recv().Type()) == "EVM":
							// an entry point forwarding its own value parameter (Create -> create): judged at the outer call site
						case rt.param != nil:
							bad = append(bad, "storage reachable from parameter "+rt.param.Name()+" of "+relName(rt.param.Parent()))
						case rt.field != "":
							bad = append(bad, "field "+rt.field)
						case rt.src != nil:
							bad = append(bad, borrowSource(rt.src))
						case rt.free != nil:
							bad = append(bad, "captured variable "+rt.free.Name())
						}
					}
					_ = i
					if len(bad) > 0 {
						r.violated("R5.6", key, w.pos(c.Pos()), "the value handed to "+cal.Name()+" may alias "+strings.Join(dedup(bad), ", ")+": a nested frame can rewrite it while the outer frame still reads it (post-call join point, recorder)")
					} else {
						r.holds("R5.6", key, w.pos(c.Pos()), "fresh big number or shared constant")
					}
				}
			}
		}
	}
	r.need("R5.6", 4)
	_ = n
}
