package main

func addCaptureBalance(w *World, r *Report, rule string) {}
