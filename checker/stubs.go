package main

import (
	"fmt"
	"go/ast"
	"go/token"
	"strings"
)

// addCaptureBalance (R18.2): on every path of the five frame entry points, a debug-tracer
// start/enter event that was emitted is closed before the function returns — either by a direct
// CaptureEnd/CaptureExit call or by a deferred closure calling it that was registered on that
// path — and no join-point region return can slip in between (a join-point abort cannot
// unbalance the stream).
func addCaptureBalance(w *World, r *Report, rule string) {
	for _, rel := range frameFuncs {
		fl := w.newFlow(forkPath(pkVM), rel)
		if fl == nil {
			r.undecided(rule, "vm."+rel, "-", "function not found")
			continue
		}
		isCap := func(c *ast.CallExpr, name string) bool { return fl.calleeIs(c, "EVMLogger", name) }
		var viol []string
		var vpos token.Pos
		nEvents := 0
		seen := map[ast.Node]bool{}
		add := func(p token.Pos, m string) {
			for _, v := range viol {
				if v == m {
					return
				}
			}
			if len(viol) == 0 {
				vpos = p
			}
			viol = append(viol, m)
		}
		deferCloses := func(n ast.Node) string {
			d, ok := n.(*ast.DeferStmt)
			if !ok {
				return ""
			}
			out := ""
			ast.Inspect(d, func(x ast.Node) bool {
				if c, ok := x.(*ast.CallExpr); ok {
					if isCap(c, "CaptureEnd") {
						out = "start"
					}
					if isCap(c, "CaptureExit") {
						out = "enter"
					}
				}
				return true
			})
			return out
		}
		rule1 := &flowRule{}
		rule1.visit = func(fl *Flow, f facts, n ast.Node) {
			if _, ok := n.(*ast.ReturnStmt); ok {
				for _, k := range []string{"start", "enter"} {
					if f["open:"+k] && !f["deferred:"+k] {
						add(n.Pos(), "the return at "+w.pos(n.Pos())+" is reachable with a Capture"+map[string]string{"start": "Start", "enter": "Enter"}[k]+" event emitted and neither its closing event nor a deferred closing event on the path")
					}
				}
			}
		}
		rule1.transfer = func(fl *Flow, f facts, n ast.Node) {
			if k := deferCloses(n); k != "" {
				f["deferred:"+k] = true
				return
			}
			for _, c := range callsIn(n) {
				switch {
				case isCap(c, "CaptureStart"):
					f["open:start"] = true
				case isCap(c, "CaptureEnter"):
					f["open:enter"] = true
				case isCap(c, "CaptureEnd"):
					delete(f, "open:start")
				case isCap(c, "CaptureExit"):
					delete(f, "open:enter")
				default:
					continue
				}
				if !seen[c] {
					seen[c] = true
					nEvents++
				}
			}
		}
		fl.run(rule1, facts{})
		key := "vm." + rel
		if len(viol) > 0 {
			r.violated(rule, key, w.pos(vpos), strings.Join(viol, " | "))
		} else {
			r.holds(rule, key, w.pos(fl.fd.Pos()), fmt.Sprintf("%d debug-tracer event sites; every emitted start/enter is closed directly or by a deferred closure on all paths (%d path states)", nEvents, fl.States))
		}
	}
	r.need(rule, 5)
}
