#!/bin/sh
# Developer-side evaluation (not a registered command): for every independently written breaking
# change under seeded/<id>/ (patch.diff + demonstration + meta.json) apply the patch to a scratch
# worktree of /repo outside /repo and /verif, run ALL registered checks on it with VERIF_REPO, and
# print which properties raise an alarm and through which rules.
# usage: seedtest.sh [seeded/<id> ...]      (default: every directory under seeded/)
# output: one line per change: "<id> target=<property> caught-by-target=<yes|no> fired=<props> rules=<rules of target>"
set -u
HERE="$(cd "$(dirname "$0")" && pwd)"
export GOFLAGS=-mod=mod GOPROXY=off GOSUMDB=off GOTOOLCHAIN=local
unset GOWORK
BIN="${VERIFCHK:-}"
if [ -z "$BIN" ]; then
  BIN="$HERE/bin/verifchk"
  (cd "$HERE/checker" && go build -o "$BIN" .) || exit 2
fi
WT=$(mktemp -d /tmp/vseedtest.XXXXXX)
EV=$(mktemp -d /tmp/vseedtest-ev.XXXXXX)
trap 'git -C /repo worktree remove --force "$WT" >/dev/null 2>&1; rm -rf "$WT" "$EV"' EXIT
rmdir "$WT"
git -C /repo worktree add --detach "$WT" HEAD >/dev/null 2>&1 || { echo "cannot create worktree"; exit 2; }
mkdir -p "$EV/evidence"; cp "$HERE/known_findings.json" "$EV/" 2>/dev/null
DIRS="$*"
[ -z "$DIRS" ] && DIRS=$(ls -d "$HERE"/seeded/*/ 2>/dev/null)
missed=0
for d in $DIRS; do
  d=${d%/}
  case "$d" in /*) ;; *) d="$PWD/$d";; esac
  id=$(basename "$d")
  [ -f "$d/patch.diff" ] || continue
  # the property a change was written against; a change whose real subject is another property (meta.json
  # "reported_by_property", with the reason in "verif_note") is counted under that one
  target=$(python3 -c "import json,sys;m=json.load(open('$d/meta.json'));print(m.get('reported_by_property') or m['property'])" 2>/dev/null)
  git -C "$WT" checkout -q -- . && git -C "$WT" clean -qfd
  if ! git -C "$WT" apply "$d/patch.diff" 2>/dev/null; then echo "$id SKIP: patch does not apply"; continue; fi
  if ! (cd "$WT" && go build ./... >/dev/null 2>&1); then echo "$id SKIP: does not compile"; continue; fi
  out=$(VERIF_REPO="$WT" VERIF_DIR="$EV" VERIF_ONLY="${VERIF_ONLY:-}" "$BIN" all quick 2>&1)
  fired=$(echo "$out" | sed -n 's/^VIOLATION property=\([A-Z0-9]*\) .*/\1/p' | sort -u | tr '\n' ',' | sed 's/,$//')
  rules=$(echo "$out" | grep -v '^KNOWN-FINDING' | grep -o '\[R[0-9]*\.[0-9a-z]*\]' | sort -u | tr '\n' ' ')
  caught=no
  echo ",$fired," | grep -q ",$target," && caught=yes
  [ "$caught" = no ] && missed=$((missed+1))
  echo "$id target=$target caught-by-target=$caught fired=[$fired] rules=$rules"
  if [ -n "${SEEDTEST_VERBOSE:-}" ]; then echo "$out" | grep -v 'rule instances' | grep -v '^KNOWN-FINDING' | cut -c1-260 | head -${SEEDTEST_VERBOSE}; fi
done
echo "missed-by-target: $missed"
exit 0
