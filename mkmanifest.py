#!/usr/bin/env python3
"""Regenerates /verif/MANIFEST.json from the table below (developer tool; the manifest itself is committed)."""
import json, os

HERE = os.path.dirname(os.path.abspath(__file__))
props = [json.loads(l) for l in open(os.path.join(HERE, "properties.jsonl"))]

TRUST = ("trusted base: go/packages + go/types + go/ssa + go/cfg (x/tools v0.29.0) and this repository-specific analyser; "
         "the reference source go-ethereum v1.12.0 from the module cache where a clone rule is used; external code (StateDB, aspect-core, params, uint256) "
         "enters only through the named assumptions written to the evidence file")

# id -> (technique, design_ref, level text, level_note)
CLAIMS = {
 "C01": ("SSA isomorphism + statement embedding against the reference source; insertion effect classification (helpers of recorder methods followed); position-checked replacement of the transfer call + wrapper summary of TransferWithRecord; table queries",
         "DESIGN.md 4 (E1, E4, E5), 5 C01",
         "Sufficient structural condition: every inherited function is SSA-isomorphic (barrier sequence + expression trees) to go-ethereum v1.12.0 or embeds its body with only provably non-interfering insertions; declarations and tables agree. Holds for all programs at once; not a proof of behavioural equality of external components.",
         "decides inherited code == reference code and non-interference of fork insertions; does not decide StateDB/params/uint256 (same module versions). " + TRUST),
 "C02": ("SSA isomorphism of all gas functions and table constructors against the reference; embedding of Call/create gas statements",
         "DESIGN.md 5 C02",
         "Sufficient structural condition for gas agreement: gas functions, interpreter loop, call entry points and instruction tables are clones of the reference or embed it; insertions outside join-point regions cannot write gas.",
         "refund counter and access list live in StateDB (not decided); join-point regions are gas-neutral only under S-noaspect. " + TRUST),
 "C04": ("path-sensitive CFG rule (go/cfg) over all paths of the five frame entry points",
         "DESIGN.md 4 (E2), 5 C04",
         "Necessary-and-structural: on every CFG path no error is returned after the frame's snapshot without RevertToSnapshot on that path; transfer/CreateAccount only after the snapshot; join-point errors surface; caller-side instructions are reference clones.",
         "does not decide that StateDB.RevertToSnapshot itself restores every effect kind (external). " + TRUST),
 "C05": ("CFG ordering/dominance rules + resolved who-may-call + argument provenance on (*EVM).Call (resolved syntax, value temporaries seen through; Error text on SSA values incl. helpers); who-may-write on the join-point enable flag; may-alias freshness of the value argument at the call/create instructions",
         "DESIGN.md 5 C05",
         "Structural: exactly one pre and one post join-point site, guarded by not-precompile/code-non-empty/IsExecuteJP on all paths, ordered around interpreter.Run on all paths, with arguments built from exactly this call's parameters and call-tree node; the enable flag is written only by the constructor and by host-facing one-assignment setters that the fork itself never calls; the value handed to a frame is a fresh big number or a shared constant, never interpreter scratch state.",
         "behaviour of aspect-core with the message and a host toggling IsExecuteJP between the sites are outside the analysed program. " + TRUST),
 "C06": ("path-sensitive CFG reaching-definition and gas-forfeit rules on (*EVM).Call and the other frame entry points (literals carried through local aliases, tag-less and tagged switches); out-of-gas normalisation as an SSA dominance rule on values (comparison may live in a helper)",
         "DESIGN.md 5 C06",
         "Structural: callee gas is defined only by the pre join point's leftover, post join point receives the callee's leftover, returned gas is the post join point's leftover or zero; non-revert errors return zero gas on every path; out-of-gas normalisation present on both error paths; the frame the interpreter runs is constructed after the pre-call join point; a failed join point always surfaces as the frame's own error (so the forfeit rule applies to it).",
         "'never returns more gas than given' depends on the number reported by the Aspect runtime (external) and is not decided. " + TRUST),
 "C07": ("CFG pairing rule + who-may-call/who-may-write inventory (SSA stores) + SSA def-use patterns on CallTree.add/exit",
         "DESIGN.md 5 C07",
         "Structural necessary conditions of a well-formed tree: SaveCall/deferred ExitCall pairing on every path of Call/create; only add/exit mutate the tree; add/exit maintain count, index, parent, children, lookup and cursor as required; on every path the lookup table is replaced iff the counter is reset (indices stay dense over repeated top-level calls on one EVM); add/exit store only to their own part of the tree (children only grow by append).",
         "single goroutine per EVM; host code calling exported SaveCall/ExitCall is outside the repository. " + TRUST),
 "C13": ("wrapper-summary check of Tracer.TransferWithRecord + who-may-call over all fork packages + SSA must-call chain saveBalance -> JournalChanges -> append with argument provenance and the per-call-list read/write-set rule; write-once node tables; single-writer rule on the recorder and its call tree; monotone call counter",
         "DESIGN.md 5 C13",
         "Structural: the wrapper brackets exactly one host transfer with before/after balance records of sender then recipient, read in place, under one call index; only the wrapper invokes a TransferFunc; it is called exactly from Call and create with the frame's parameters; every observation reaches the per-call list on every path, whose only suppression is the per-call repeat test; an account's root record is never replaced and the recorder/call tree never re-created.",
         "equality with the true balances assumes a truthful StateDB.GetBalance. " + TRUST),
 "C18": ("SSA isomorphism of tracer packages and interpreter loop against the reference; embedding with dead-at-zero-Aspect-state insertions; clone rule on the gas functions (per-step cost); CFG capture-balance rule",
         "DESIGN.md 5 C18",
         "Sufficient structural condition: inherited tracers and the event-emitting code are clones of the reference or embed it with insertions that cannot execute without Aspect events; start/enter events are closed on every path; fork-only JSON fields are omitted when empty.",
         "JS tracers are absent from the fork; output when Aspects are involved is C19. " + TRUST),
 "C16": ("map-order lint over every range-on-map site (clone sites by reference agreement, fork-only sites by body classification / collect-then-sort idiom); SSA use inventory of shared big-number constants; SSA global-write and receiver-write inventories; constructor freshness; fresh, never pooled frame memory; read-only rule for fork-added package-level slices/maps; read-only captures of returned (table) closures; clone rule on the per-EVM table copy",
         "DESIGN.md 5 C16",
         "Structural necessary conditions of determinism: no Go map iteration order reaches a result in fork-only/modified code; shared package-level 256-bit constants are never written or leaked; nothing outside package initialisation writes a package-level variable; each EVM gets a recorder allocated in its own constructor call and nothing else writes the recorder fields.",
         "does not decide determinism of StateDB, the Aspect runtime or crypto (external), nor value-level equality of two runs. " + TRUST),
 "C17": ("ownership argument: SSA shared-constant / global-write / receiver-write inventories, clone rule on the table/pool/abort code, type facts on the abort flag and the stack pool; read-only captures of returned (table) closures; read-only fork-added package-level slices/maps",
         "DESIGN.md 5 C17",
         "Structural sufficient condition for absence of fork-introduced data races between EVM instances: fork code shares no mutable package-level state, shared precompile instances never write their receiver, the code touching the shared tables, pool and abort flag is the reference's, the abort flag is a sync/atomic.Bool accessed only through its methods.",
         "does not decide races inside StateDB or the Aspect runtime, nor how promptly a cancelled execution stops (timing). " + TRUST),
 "C12": ("SSA effect summaries of the eight journal instructions resolved from the table; entry-block pop count vs. declared stack effect; constant-fee analysis of the slot's gas functions; justified-refusal entailment on the operand decoder; table-slot and constructor-clone queries",
         "DESIGN.md 5 C12",
         "Structural sufficient condition: each journal instruction only pops its declared operands (on every path), reads memory/state through read-only accessors, writes only the recorder and the scratch hasher, returns nil data, never moves pc; its fee is one positive compile-time constant independent of all parameters and equal across the eight slots, installed in the base table every fork inherits; malformed operands end in an ordinary error, never STOP/REVERT tokens, and the operand decoder refuses only operands whose data would not fit the memory; linking a key under its parent cannot fail, so a well-formed key journal is not refused because of earlier registrations.",
         "the relational statement (program with journal opcode vs. pops) is implied, not executed; that the recorder is side-effect free is C01 R1.4a. " + TRUST),
 "C10": ("SSA provenance of the account and call-index arguments from the journal instructions down to the per-call map update; who-may-write; read/write-set rule and must-call chain on the per-call list; CFG pairing rule of the call-tree cursor; purity rule on the flat-index look-up; look-up provenance of the journaled record; monotone call counter; vocabulary rule on the repeat test; StateDB receiver provenance; single-writer rule on the recorder; clone rule on Contract/delegation code",
         "DESIGN.md 5 C10",
         "Structural necessary conditions: every journal instruction files under scope.Contract.Address() (the same value it reads storage with) into the interpreter's own recorder; the recorder stamps CurrentCallIndex() = index of the call-tree cursor at that moment; the index reaches the per-call map key unchanged; the delegation semantics of Contract.Address are the reference's; the per-call list depends on nothing but that call's previous list and the new value, and every successful journal reaches it; the cursor is opened before any early return and closed exactly once; findKey is a pure function of all four coordinates; storage is read through the EVM's current StateDB and the recorder is never replaced; the record journaled is findKey of this call's own coordinates; call indices are never handed out twice; a value is dropped only under presence/length tests of this call's list and bytes.Equal(last, new).",
         "bytes.Equal itself and all history-dependent clauses are not decided. " + TRUST),
 "C08": ("CFG pairing rule (SaveCall before every return, one deferred ExitCall); resolved-AST provenance of the SaveCall/ExitCall arguments; SSA borrowed-reference retention analysis with interprocedural result-aliases-parameter summaries (interface calls resolved to all fork implementations, captured variables through closure bindings); must-store path rule on CallTree.add/exit; calls through function values resolved by signature; checked premise for frame-owned return data (fresh, never pooled Memory); must-call rule on the creation entry points",
         "DESIGN.md 5 C08",
         "Structural necessary conditions: every attempt is recorded on entry before any refusal check, with arguments built from exactly this call's parameters, and closed with the function's own results; no reference that may alias live interpreter memory or the operand stack is stored into recorder-owned memory without a copy, along any static call chain including results of precompile Run methods; every argument of SaveCall/ExitCall is stored into the node on every recording path (no outcome recorded only for some error classes); return data of a finished frame is treated as owned only under the checked premise that NewMemory is fresh on every path and no Memory is pooled; Create/Create2 reach create (where the attempt is recorded) on every path.",
         "does not decide sibling order beyond append-on-entry, nor equality of recorded values with an independent log; return data produced through the opcode table's function values (opReturn/opRevert copies) is taken as owned by the caller. " + TRUST),
 "C15": ("clone rule on the EIP-1153 instructions, the gas/memory helpers and the vm/runtime entry points (transaction-boundary Prepare); table-literal facts for slots 0x5c-0x5e, the Cancun constructor; SSA dominance rule that IsCancun is decided before every other fork rule and selects the Cancun table; SSA sibling agreement between opMcopy, memoryMcopy, gasMcopy and Memory.Copy",
         "DESIGN.md 5 C15",
         "Structural necessary conditions of the two EIPs: transient-storage instructions and their gas are the reference's at the renumbered bytes; MCOPY's operands, memory-size function (max of both starts + length), gas function (per-word copy gas on the length operand + expansion) and the overlap-safe, zero-length-safe copy agree position by position; the three bytes are installed only in the Cancun table, which is selected first.",
         "memmove semantics of the builtin copy, the StateDB's transient journal, and equality with an executable EIP-5656 model are not decided; no newer reference implementation is on disk. " + TRUST),
 "C03": ("go/ssa bounds, division and accessor-precondition obligations over all fork-only code and fork insertions, discharged by guard entailment (Fourier-Motzkin, wrap-around aware); nil-context dominance rule; nil-field forward must-analysis (fields some fork construction leaves unset); no-panic scan; code-hash/code agreement at every frame construction; no-unsafe rule; whole-body analysis of inherited functions with unreviewed differences; CFG pairing rule for bookkeeping",
         "DESIGN.md 4 (E3), 5 C03",
         "Sufficient structural condition for absence of Go run-time panics in fork code: every index/slice/make/division/GetCopy precondition is entailed by dominating guards under machine arithmetic; nil-able context fields are tested before use; every dereference of a field that a fork construction leaves nil (hasher, call-tree cursor, parent link, change list …) is protected on every path by a test or a non-nil assignment; no explicit panic or unchecked type assertion; inherited code is the reference's; the call-tree cursor is closed by a deferred exit on every path; code hash and code of every frame are read for the same address (the JUMPDEST cache is keyed by hash).",
         "panics inside StateDB, host callbacks, the Aspect runtime and dependencies are not decided; Memory.Copy's bounds rest on the stated interpreter-contract assumption, which is granted only under len >= 1 (who-may-call checked); nil-ness of values returned by calls (as opposed to loaded from fields) and stack exhaustion are not modelled. " + TRUST),
 "C09": ("bounds obligations of the two change-journal instructions; single-recorder-call-after-validation rule; positional-bytes lint with positive control; SSA provenance of slot, account and offset operands; linear post-conditions by guard entailment (packed-layout relations hi+offset=32, hi-lo=width; len(recorded string)=decoded length on every path); affine slot-progression analysis of the long-string loop; lossless 256->64-bit operand readings; StateDB receiver provenance; justified-refusal entailment (dual of the bounds rule); abstract interpretation of the string-header decoder over a bit-slice domain; look-up provenance of the journaled record",
         "DESIGN.md 5 C09",
         "Structural necessary conditions only: invalid (offset, width) and undecodable strings never reach a slice expression; nothing is recorded before validation completes; no zero-stripping byte conversion where position matters; the word journaled is read at the slot/account it is filed under and sliced by the offset operand handed to the recorder, with upper bound 32-offset and length = width entailed; the recorded string has exactly the decoded length on every path; the long-string loop reads keccak(slot)+0,+1,… (first read at offset 0, step 1); offset and width are read without dropping upper bits; storage is read through the EVM's current StateDB; every refusal of the value journal is entailed to concern an invalid (offset, width); the decoded string length is (W>>1)&m with m inside the length byte for in-place strings and W>>1 for out-of-place ones, the flag being bit 0; the record journaled is the one found under this call's own coordinates.",
         "does NOT decide the validity test of the string header (which combinations of flag and length are rejected — seeded change C09b is not reported), nor equality of the recorded bytes with an independent decoder (value-level). " + TRUST),
 "C14": ("table query for addresses 100-102; bounds obligations of loadParamBytes and the three Run methods; nil-context dominance; host-call dominance of success returns and data dependence of the output; provenance of the write address; fresh-clone / no-receiver-write rule for context-carrying precompiles; justified-refusal entailment on the ABI decoder; no-unsafe rule; constant RequiredGas",
         "DESIGN.md 5 C14",
         "Structural necessary conditions: the three precompiles are installed from Berlin on only; no payload can make their decoding slice out of range (uint64 wrap respected); a success return implies the Aspect runtime was consulted and readers return data derived from its answer; a context write is filed under the caller address captured by EVM.Call or refused, and that context never reaches the instance shared through the package-level table; the fee is one constant; the ABI decoder refuses only payloads whose head/data would not fit the input.",
         "does not decide that well-formed ABI payloads decode to the right bytes, nor the exact-length policy of the hash payload, nor the Aspect runtime's behaviour. " + TRUST),
 "C19": ("bounds obligations over fork-only and fork-inserted tracer code plus one inherited function whose callee postcondition the fork changed; inductive field invariant len(callstack) >= 1; nil-field must-analysis; may-alias freshness of trace addresses passed down the flattening recursion; frame-scoped ownership of the Aspect-execution marker; sub-trace count/emission agreement on SSA (natural loops, dominance, element-of-collection tracing, complementary decisions); loop-variable address lint; sibling agreement of the result-discard guard as truth tables over atomic comparisons (SSA); exit-closes-the-last-entered entailment; no whole-frame overwrite / append-only JoinPoints",
         "DESIGN.md 5 C19",
         "Structural necessary condition 'finishes without panic' for the call tracers: every index/slice in fork tracer code is entailed by dominating guards given the inductively checked invariant that the call stack keeps its root frame; trace addresses stored in emitted frames share no storage with the parent's or a sibling's; set/reset state of Aspect executions lives in the frame record, not in the tracer; Subtraces counts exactly the collections emitted; no frame is built from the address of a range variable; both flattening functions discard results under the same guard over the input record; an Aspect exit completes the execution entered last; frames on the tracer stack are never overwritten wholesale.",
         "does NOT decide exactly-once emission over whole event histories or numeric trace-address uniqueness (properties of event histories). Two known-finding constructs (flatCallTracer.CaptureExit) is listed in known_findings.json. " + TRUST),
 "C20": ("resource obligations (loop trip bounds, make/copy/padding-helper sizes) over everything statically reachable in the fork from the journal instructions and the Artela precompiles, discharged by guard entailment against constants and lengths of existing buffers; table rule: a fork slot declaring a memorySize has a gas function that reads it; clone rule on all metering functions, RequiredGas, and the interpreter loop",
         "DESIGN.md 5 C20",
         "Structural sufficient condition: in code reachable from fork instructions/precompiles every loop bound and every allocation/copy size is a constant or entailed to be at most the length of a buffer that already exists; no fork instruction makes the interpreter resize memory without its gas function reading the size; the fee itself is C12.",
         "constants of proportionality and work inside host callbacks/StateDB are not decided. One known finding (long-string loop of opReferenceChangeJournal) is listed in known_findings.json. " + TRUST),
 "C11": ("SSA path enumeration over saveKey/saveChange (refused means unmodified) and AddChild (what is indexed by name is what is returned and flat-indexed); E3 lossless-conversion obligations on offsets; who-may-write on the key tables; write-once rule (dominating absence test) on every node-table update; lossless-reading rule on offsets incl. helpers; parameter-provenance rule on the parent look-up; must-call rules on the registration path; AddChild-never-fails obligation; per-call-list read/write-set rule",
         "DESIGN.md 5 C11, 12",
         "Structural necessary conditions only: a refused registration or journal modifies nothing; offsets beyond 31 are refused, never truncated onto another offset; on every path of AddChild the node indexed by name is the node returned (the only one that reaches the flat slot/offset/type index); the tables have no other writers; a registered node is never replaced in any table; the parent of a nested registration is looked up under the parent's own coordinates only; every successful registration passes AddChild and addKey; linking a key cannot fail.",
         "does NOT decide idempotence, exact child sets or agreement of the two look-up paths after arbitrary histories (needs a reference model and exploration). One known finding (AddChild path) is listed in known_findings.json. " + TRUST),
}

NA = {}

checks = []
na = []
for p in props:
    i = p["id"]
    if i in CLAIMS:
        tech, ref, text, note = CLAIMS[i]
        checks.append({
            "property_id": i,
            "quick_cmd": "./check.sh %s quick" % i,
            "thorough_cmd": "./check.sh %s thorough" % i,
            "evidence_file": "/verif/evidence/%s.json" % i,
            "replay_cmd_template": "cat {path}",
            "engine": "verifchk",
            "level_claimed": {"category": "other", "text": text, "design_ref": ref},
            "level_note": note,
            "technique": "static analysis: " + tech,
        })
    else:
        na.append({"property_id": i, "reason": NA.get(i, "check not built yet (work in progress); planned static rules are described in DESIGN.md section 5")})

m = {
 "version": 1,
 "setup_cmd": "./setup.sh",
 "hooks": {"guard": "verif", "enable": "none needed: static analysis reads the source; no hook commits exist in /repo",
           "baseline_off_cmd": "cd /repo && GOFLAGS=-mod=mod GOPROXY=off GOSUMDB=off GOTOOLCHAIN=local go test -json -vet=off -count=1 -timeout 25m ./...",
           "source_commits": [], "add_only": True},
 "engines": [{"name": "verifchk", "path": "checker", "serves_properties": sorted(CLAIMS.keys()),
              "kind_free_text": "repository-specific static analyser in Go (go/packages, go/types, go/ssa, go/cfg): E1 reference-clone comparison, E2 CFG path rules, E3 range obligations, E4 effects/ownership, E5 table queries, E6 lints"}],
 "checks": checks,
 "notes": "All checks are static: /repo is loaded and type-checked afresh on every run, nothing in it is executed. No hook or instrumentation commit exists in /repo (static analysis needs none); the only commits made there are the unguarded `fix:` commits listed as `fixed:` entries in known_findings.json, with which the pinned suite passes unedited (baseline_check.sh compares with /root/.vp/BASELINE.json). Known findings: known_findings.json. Self-test corpus: mutants/ (selftest.sh; the thorough tier re-runs the relevant seeded breaks, sensitivity.sh).",
 "not_applicable": na,
}
json.dump(m, open(os.path.join(HERE, "MANIFEST.json"), "w"), indent=1)
print("claimed:", len(checks), "not applicable:", len(na))
