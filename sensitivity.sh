#!/bin/sh
# Thorough-tier extra (informational, never part of the verdict): for every seeded break in
# mutants/ that names this property, apply it to a scratch copy of /repo's current working tree
# (outside /repo and /verif, removed immediately), run the same static check on the copy and
# record whether the expected rule fires. Results go to evidence/<id>.json under
# coverage.sensitivity. Output of the mutant runs is captured, never printed.
# usage: sensitivity.sh <property id>
set -u
HERE="$(cd "$(dirname "$0")" && pwd)"
ID="$1"
BIN="$HERE/bin/verifchk"
REPO="${VERIF_REPO:-/repo}"
export GOFLAGS=-mod=mod GOPROXY=off GOSUMDB=off GOTOOLCHAIN=local
unset GOWORK
RES=$(mktemp /tmp/vsens-res.XXXXXX)
trap 'rm -rf "$RES" "${SCR:-/nonexistent}"' EXIT
for p in "$HERE"/mutants/*.patch; do
  rules=$(sed -n "s/^# expect: *$ID  *//p" "$p")
  [ -z "$rules" ] && continue
  SCR=$(mktemp -d /tmp/vsens.XXXXXX)
  mkdir -p "$SCR/src" "$SCR/ev/evidence"
  rsync -a --exclude .git "$REPO"/ "$SCR/src"/
  cp "$HERE/known_findings.json" "$SCR/ev/" 2>/dev/null
  if ! (cd "$SCR/src" && git apply "$p" >/dev/null 2>&1); then
    for r in $rules; do echo "$(basename "$p") $r stale" >> "$RES"; done
    rm -rf "$SCR"; continue
  fi
  out=$(VERIF_REPO="$SCR/src" VERIF_DIR="$SCR/ev" "$BIN" "$ID" quick 2>&1)
  for r in $rules; do
    if echo "$out" | grep -q "^VIOLATION property=$ID " && echo "$out" | grep -q "\[$r\]"; then
      echo "$(basename "$p") $r fired" >> "$RES"
    else
      echo "$(basename "$p") $r MISSED" >> "$RES"
      echo "SENSITIVITY-MISS property=$ID seeded break $(basename "$p") did not trigger rule $r" >&2
    fi
  done
  rm -rf "$SCR"
done
# independently written breaking changes (seeded/<id>/, DESIGN section 13) that target this property
for d in "$HERE"/seeded/*/; do
  [ -f "$d/patch.diff" ] || continue
  tgt=$(sed -n 's/.*"reported_by_property": *"\([A-Z0-9]*\)".*/\1/p' "$d/meta.json" | head -1)
  [ -z "$tgt" ] && tgt=$(sed -n 's/.*"property": *"\([A-Z0-9]*\)".*/\1/p' "$d/meta.json" | head -1)
  [ "$tgt" = "$ID" ] || continue
  name="seeded/$(basename "$d")"
  SCR=$(mktemp -d /tmp/vsens.XXXXXX)
  mkdir -p "$SCR/src" "$SCR/ev/evidence"
  rsync -a --exclude .git "$REPO"/ "$SCR/src"/
  cp "$HERE/known_findings.json" "$SCR/ev/" 2>/dev/null
  if ! (cd "$SCR/src" && git apply "$d/patch.diff" >/dev/null 2>&1); then
    echo "$name any stale" >> "$RES"; rm -rf "$SCR"; continue
  fi
  out=$(VERIF_REPO="$SCR/src" VERIF_DIR="$SCR/ev" "$BIN" "$ID" quick 2>&1)
  if echo "$out" | grep -q "^VIOLATION property=$ID "; then
    r=$(echo "$out" | grep -v '^KNOWN-FINDING' | grep -o '\[R[0-9]*\.[0-9a-z]*\]' | sort -u | tr -d '[]' | tr '\n' '+' | sed 's/+$//')
    echo "$name ${r:-any} fired" >> "$RES"
  else
    echo "$name any MISSED" >> "$RES"
    echo "SENSITIVITY-MISS property=$ID independently written breaking change $name is not reported" >&2
  fi
  rm -rf "$SCR"
done
python3 - "$HERE/evidence/$ID.json" "$RES" <<'PY'
import json,sys
ev=json.load(open(sys.argv[1]))
rows=[l.split() for l in open(sys.argv[2]) if l.strip()]
ev.setdefault("coverage",{})["sensitivity"]={
 "explanation":"informational: each seeded break of /verif/mutants naming this property, and each independently written breaking change of /verif/seeded targeting it, was applied to a scratch copy of the current tree and the same static check re-run on it; 'fired' = the expected rule reported a violation. Not part of the verdict.",
 "seeded_breaks":len(rows),"fired":sum(1 for r in rows if r[2]=="fired"),
 "results":[{"patch":r[0],"rule":r[1],"result":r[2]} for r in rows]}
json.dump(ev,open(sys.argv[1],"w"),indent=1)
print("sensitivity: %d seeded breaks, %d fired"%(len(rows),sum(1 for r in rows if r[2]=="fired")))
PY
