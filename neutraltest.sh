#!/bin/sh
# Developer-side false-alarm evaluation (not a registered command): for every independently written
# behaviour-preserving refactoring under neutral/<id>/ (patch.diff + WHY.txt) apply the patch to a scratch
# worktree of /repo outside /repo and /verif, run ALL registered checks on it with VERIF_REPO, and print
# every check that raises an alarm (each one is a false alarm of the checker, or a refactoring that is not
# neutral after all — to be judged by reading).
# usage: neutraltest.sh [neutral/<id> ...]      (default: every directory under neutral/)
set -u
HERE="$(cd "$(dirname "$0")" && pwd)"
export GOFLAGS=-mod=mod GOPROXY=off GOSUMDB=off GOTOOLCHAIN=local
unset GOWORK
BIN="${VERIFCHK:-}"
if [ -z "$BIN" ]; then
  BIN="$HERE/bin/verifchk"
  (cd "$HERE/checker" && go build -o "$BIN" .) || exit 2
fi
WT=$(mktemp -d /tmp/vneutral.XXXXXX)
EV=$(mktemp -d /tmp/vneutral-ev.XXXXXX)
trap 'git -C /repo worktree remove --force "$WT" >/dev/null 2>&1; rm -rf "$WT" "$EV"' EXIT
rmdir "$WT"
git -C /repo worktree add --detach "$WT" HEAD >/dev/null 2>&1 || { echo "cannot create worktree"; exit 2; }
mkdir -p "$EV/evidence"; cp "$HERE/known_findings.json" "$EV/" 2>/dev/null
DIRS="$*"
[ -z "$DIRS" ] && DIRS=$(ls -d "$HERE"/neutral/*/ 2>/dev/null)
alarms=0
for d in $DIRS; do
  d=${d%/}
  case "$d" in /*) ;; *) d="$PWD/$d";; esac
  id=$(basename "$d")
  [ -f "$d/patch.diff" ] || continue
  git -C "$WT" checkout -q -- . && git -C "$WT" clean -qfd
  if ! git -C "$WT" apply "$d/patch.diff" 2>/dev/null; then echo "$id SKIP: patch does not apply"; continue; fi
  if ! (cd "$WT" && go build ./... >/dev/null 2>&1); then echo "$id SKIP: does not compile"; continue; fi
  out=$(VERIF_REPO="$WT" VERIF_DIR="$EV" VERIF_ONLY="${VERIF_ONLY:-}" "$BIN" all quick 2>&1)
  fired=$(echo "$out" | sed -n 's/^VIOLATION property=\([A-Z0-9]*\) .*/\1/p' | sort -u | tr '\n' ',' | sed 's/,$//')
  if [ -z "$fired" ]; then
    echo "$id silent"
  else
    alarms=$((alarms+1))
    echo "$id ALARM fired=[$fired]"
    echo "$out" | grep -v '^KNOWN-FINDING' | grep -v 'rule instances' | grep -v '^VIOLATION' | cut -c1-420 | head -${NEUTRAL_VERBOSE:-6}
  fi
done
echo "refactorings with an alarm: $alarms"
exit 0
