#!/bin/sh
# usage: check.sh <property id> <quick|thorough>
# Loads /repo's current working tree afresh on every run; nothing from /repo is executed.
set -u
HERE="$(cd "$(dirname "$0")" && pwd)"
export GOFLAGS=-mod=mod GOPROXY=off GOSUMDB=off GOTOOLCHAIN=local
unset GOWORK
BIN="$HERE/bin/verifchk"
if [ ! -x "$BIN" ] || [ -n "$(find "$HERE/checker" -name '*.go' -newer "$BIN" 2>/dev/null | head -1)" ]; then
  (cd "$HERE/checker" && go build -o "$BIN" .) || { echo "cannot build checker" >&2; exit 2; }
fi
VERIF_DIR="$HERE" exec "$BIN" "$@"
