#!/bin/sh
# usage: check.sh <property id> <quick|thorough>
# Loads /repo's current working tree afresh on every run; nothing from /repo is executed.
# thorough = the same exhaustive static check plus an informational sensitivity pass over the
# seeded breaks in mutants/ (sensitivity.sh); the exit code is always the verdict on /repo.
set -u
HERE="$(cd "$(dirname "$0")" && pwd)"
export GOFLAGS=-mod=mod GOPROXY=off GOSUMDB=off GOTOOLCHAIN=local
unset GOWORK
BIN="$HERE/bin/verifchk"
if [ ! -x "$BIN" ] || [ -n "$(find "$HERE/checker" -name '*.go' -newer "$BIN" 2>/dev/null | head -1)" ]; then
  (cd "$HERE/checker" && go build -o "$BIN" .) || { echo "cannot build checker" >&2; exit 2; }
fi
VERIF_DIR="$HERE" "$BIN" "$@"
rc=$?
tier="${2:-${VERIF_TIER:-quick}}"
if [ "$tier" = thorough ] && [ $rc -le 1 ] && [ -f "$HERE/evidence/$1.json" ]; then
  "$HERE/sensitivity.sh" "$1" || true
fi
exit $rc
