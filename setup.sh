#!/bin/sh
set -eu
HERE="$(cd "$(dirname "$0")" && pwd)"
export GOFLAGS=-mod=mod GOPROXY=off GOSUMDB=off GOTOOLCHAIN=local
unset GOWORK
mkdir -p "$HERE/bin" "$HERE/evidence"
cd "$HERE/checker" && go build -o "$HERE/bin/verifchk" .
