#!/bin/sh
# Runs the repository's test suite (guard off: there are no hooks) and compares the passing set with /root/.vp/BASELINE.json.
export GOFLAGS=-mod=mod GOPROXY=off GOSUMDB=off GOTOOLCHAIN=local
unset GOWORK
OUT=$(mktemp /tmp/baseline.XXXXXX.json)
(cd /repo && go test -json -vet=off -count=1 -timeout 25m ./... > "$OUT" 2>/dev/null)
python3 - "$OUT" <<'PY'
import json,sys
passed=set()
for l in open(sys.argv[1]):
    try: e=json.loads(l)
    except: continue
    if e.get("Action")=="pass" and e.get("Test"):
        passed.add(e["Package"]+"::"+e["Test"])
base=set(json.load(open("/root/.vp/BASELINE.json"))["stable_pass"])
missing=sorted(base-passed)
print("baseline stable_pass:",len(base),"passed now:",len(passed),"missing:",len(missing))
for m in missing[:20]: print("  MISSING",m)
sys.exit(1 if missing else 0)
PY
rc=$?
rm -f "$OUT"
exit $rc
