#!/bin/sh
# Developer-side self test (not a registered command): for every patch in mutants/ apply it to a
# scratch worktree of /repo outside /repo and /verif, run the checks named in its "# expect:" header
# with VERIF_REPO pointing at the scratch tree, and require each to exit 1 naming the expected rule.
# "# neutral" patches must leave every listed check silent (exit 0).
# usage: selftest.sh [patch ...]
set -u
HERE="$(cd "$(dirname "$0")" && pwd)"
export GOFLAGS=-mod=mod GOPROXY=off GOSUMDB=off GOTOOLCHAIN=local
unset GOWORK
BIN="${VERIFCHK:-}"
if [ -z "$BIN" ]; then
  BIN="$HERE/bin/verifchk"
  (cd "$HERE/checker" && go build -o "$BIN" .) || exit 2
fi
WT=$(mktemp -d /tmp/vselftest.XXXXXX)
EV=$(mktemp -d /tmp/vselftest-ev.XXXXXX)
trap 'git -C /repo worktree remove --force "$WT" >/dev/null 2>&1; rm -rf "$WT" "$EV"' EXIT
rmdir "$WT"
git -C /repo worktree add --detach "$WT" HEAD >/dev/null 2>&1 || { echo "cannot create worktree"; exit 2; }
mkdir -p "$EV/evidence"; cp "$HERE/known_findings.json" "$EV/" 2>/dev/null
fail=0
PATCHES="$*"
[ -z "$PATCHES" ] && PATCHES="$HERE"/mutants/*.patch
for p in $PATCHES; do
  git -C "$WT" checkout -q -- . && git -C "$WT" clean -qfd
  if ! git -C "$WT" apply "$p" 2>/dev/null; then echo "SKIP $(basename $p): does not apply"; fail=1; continue; fi
  if ! (cd "$WT" && go build ./... >/dev/null 2>&1); then echo "SKIP $(basename $p): does not compile"; fail=1; continue; fi
  exp=$(sed -n 's/^# expect: *//p' "$p")
  neutral=$(grep -c '^# neutral' "$p")
  props=$(echo "$exp" | awk '{print $1}' | sort -u | tr '\n' ',' | sed 's/,$//')
  [ "$neutral" -gt 0 ] && props=$(sed -n 's/^# neutral: *//p' "$p" | tr ' ' ',')
  out=$(VERIF_REPO="$WT" VERIF_DIR="$EV" VERIF_ONLY="$props" "$BIN" all quick 2>&1)
  if [ "$neutral" -gt 0 ]; then
    if echo "$out" | grep -q '^VIOLATION'; then echo "FALSE-ALARM $(basename $p):"; echo "$out" | grep -v 'rule instances' | cut -c1-300 | head -5; fail=1; else echo "ok-neutral $(basename $p)"; fi
    continue
  fi
  echo "$exp" | while read prop rule; do
    [ -z "$prop" ] && continue
    if echo "$out" | grep -q "^VIOLATION property=$prop " && echo "$out" | grep -q "\[$rule\]"; then echo "ok $(basename $p): $prop $rule"; else echo "MISSED $(basename $p): $prop $rule"; echo "$out" | grep -v 'rule instances' | cut -c1-200 | head -3; fi
  done
done
exit $fail
